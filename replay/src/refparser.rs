// Reference implementation of MPD's line grammar with nom 7 *streaming* semantics, in plain index-loop Rust.
// (1) Verus proves every function here equal to the specification `vx_spec::wire::spec_component / spec_greeting`
//     (contracts spliced on by contracts/ref/refparser.vspec, unit R), for all inputs.
// (2) The bounded conformance run (tools/conformance.py) compares the REAL nom parser with it on exhaustive
//     small-scope inputs; the replay witnesses use it (through `ref_fold`) as the oracle.
// This file is `include!`d by the conformance harness and by the replay crate.

#[derive(Debug, PartialEq, Eq, Clone)]
pub enum RComp {
    EndOfFrame,
    EndOfResponse,
    Error { code: u64, index: u64, command: Option<Vec<u8>>, message: Vec<u8> },
    Field { key: Vec<u8>, value: Vec<u8> },
    Binary { len: usize },
}

/// Good(value, bytes used)
#[derive(Debug, PartialEq, Eq, Clone)]
pub enum R<T> {
    Inc,
    Bad,
    Good(T, usize),
}

#[derive(Clone, Copy, PartialEq, Eq, Debug)]
pub enum Class {
    Digit,
    Cmd,
    Key,
    NotLf,
}

pub fn is_alpha(b: u8) -> bool {
    (0x41 <= b && b <= 0x5A) || (0x61 <= b && b <= 0x7A)
}

pub fn in_class(c: Class, b: u8) -> bool {
    match c {
        Class::Digit => 0x30 <= b && b <= 0x39,
        Class::Cmd => is_alpha(b) || b == 0x5F,
        Class::Key => is_alpha(b) || b == 0x5F || b == 0x2D,
        Class::NotLf => b != 0x0A,
    }
}

/// streaming tag at offset `at`
pub fn tag(i: &[u8], at: usize, t: &[u8]) -> R<()> {
    let mut k: usize = 0;
    while k < t.len() && k < i.len() - at {
        if i[at + k] != t[k] {
            return R::Bad;
        }
        k += 1;
    }
    if k == t.len() { R::Good((), at + t.len()) } else { R::Inc }
}

/// streaming char
pub fn chr(i: &[u8], at: usize, c: u8) -> R<()> {
    if at >= i.len() {
        R::Inc
    } else if i[at] == c {
        R::Good((), at + 1)
    } else {
        R::Bad
    }
}

/// end of the run of bytes in class `c` starting at `at`; None if the run reaches the end of input
pub fn run_end(i: &[u8], at: usize, c: Class) -> Option<usize> {
    let mut k = at;
    while k < i.len() {
        if !in_class(c, i[k]) {
            return Some(k);
        }
        k += 1;
    }
    None
}

pub fn utf8_ok(b: &[u8]) -> bool {
    std::str::from_utf8(b).is_ok()
}

pub fn to_vec(i: &[u8], a: usize, b: usize) -> Vec<u8> {
    let mut v = Vec::new();
    let mut k = a;
    while k < b {
        v.push(i[k]);
        k += 1;
    }
    v
}

/// streaming decimal number that must fit into u64 (str::parse overflow -> nom Error)
pub fn number(i: &[u8], at: usize) -> R<u64> {
    match run_end(i, at, Class::Digit) {
        None => R::Inc,
        Some(e) => {
            if e == at {
                return R::Bad;
            }
            let mut v: u64 = 0;
            let mut k = at;
            while k < e {
                let d = (i[k] - 0x30) as u64;
                if v > (u64::MAX - d) / 10 {
                    return R::Bad;
                }
                v = v * 10 + d;
                k += 1;
            }
            R::Good(v, e)
        }
    }
}

pub fn p_error_tail(i: &[u8], at: usize, code: u64, index: u64) -> R<RComp> {
    // opt(take_while1(alpha|_)) : Inc if the run reaches the end, None if the run is empty
    let ce = match run_end(i, at, Class::Cmd) {
        None => return R::Inc,
        Some(e) => e,
    };
    let command = if ce == at { None } else { Some(to_vec(i, at, ce)) };
    let a1 = match chr(i, ce, 0x7D) {
        R::Good(_, n) => n,
        R::Inc => return R::Inc,
        R::Bad => return R::Bad,
    };
    let a2 = match chr(i, a1, 0x20) {
        R::Good(_, n) => n,
        R::Inc => return R::Inc,
        R::Bad => return R::Bad,
    };
    // take_while(!= \n) streaming, then from_utf8, then newline
    let me = match run_end(i, a2, Class::NotLf) {
        None => return R::Inc,
        Some(e) => e,
    };
    let message = to_vec(i, a2, me);
    if !utf8_ok(&message) {
        return R::Bad;
    }
    R::Good(RComp::Error { code, index, command, message }, me + 1)
}

pub fn p_error(i: &[u8]) -> R<RComp> {
    let t_ack: [u8; 4] = [0x41, 0x43, 0x4B, 0x20];
    let a0 = match tag(i, 0, &t_ack) {
        R::Good(_, n) => n,
        R::Inc => return R::Inc,
        R::Bad => return R::Bad,
    };
    let a1 = match chr(i, a0, 0x5B) {
        R::Good(_, n) => n,
        R::Inc => return R::Inc,
        R::Bad => return R::Bad,
    };
    let (code, a2) = match number(i, a1) {
        R::Good(v, n) => (v, n),
        R::Inc => return R::Inc,
        R::Bad => return R::Bad,
    };
    let a3 = match chr(i, a2, 0x40) {
        R::Good(_, n) => n,
        R::Inc => return R::Inc,
        R::Bad => return R::Bad,
    };
    let (index, a4) = match number(i, a3) {
        R::Good(v, n) => (v, n),
        R::Inc => return R::Inc,
        R::Bad => return R::Bad,
    };
    let a5 = match chr(i, a4, 0x5D) {
        R::Good(_, n) => n,
        R::Inc => return R::Inc,
        R::Bad => return R::Bad,
    };
    let a6 = match chr(i, a5, 0x20) {
        R::Good(_, n) => n,
        R::Inc => return R::Inc,
        R::Bad => return R::Bad,
    };
    let a7 = match chr(i, a6, 0x7B) {
        R::Good(_, n) => n,
        R::Inc => return R::Inc,
        R::Bad => return R::Bad,
    };
    p_error_tail(i, a7, code, index)
}

/// Bad = nom `Error` (alt continues), Fail = nom `Failure` (cut)
#[derive(Debug, PartialEq, Eq, Clone)]
pub enum B {
    Inc,
    Bad,
    Fail,
    Good(usize, usize),
}

pub fn p_binary(i: &[u8]) -> B {
    let t_binary: [u8; 8] = [0x62, 0x69, 0x6E, 0x61, 0x72, 0x79, 0x3A, 0x20];
    let a0 = match tag(i, 0, &t_binary) {
        R::Good(_, n) => n,
        R::Inc => return B::Inc,
        R::Bad => return B::Bad,
    };
    let (len, a1) = match number(i, a0) {
        R::Good(v, n) => (v as usize, n),
        R::Inc => return B::Inc,
        R::Bad => return B::Bad,
    };
    let a2 = match chr(i, a1, 0x0A) {
        R::Good(_, n) => n,
        R::Inc => return B::Inc,
        R::Bad => return B::Bad,
    };
    // cut(terminated(take(len), newline))
    if i.len() - a2 < len {
        return B::Inc;
    }
    let a3 = a2 + len;
    if a3 >= i.len() {
        return B::Inc;
    }
    if i[a3] != 0x0A {
        return B::Fail;
    }
    B::Good(len, a3 + 1)
}

pub fn p_field(i: &[u8]) -> R<RComp> {
    let ke = match run_end(i, 0, Class::Key) {
        None => return R::Inc,
        Some(e) => e,
    };
    if ke == 0 {
        return R::Bad;
    }
    let t_colon_sp: [u8; 2] = [0x3A, 0x20];
    let a1 = match tag(i, ke, &t_colon_sp) {
        R::Good(_, n) => n,
        R::Inc => return R::Inc,
        R::Bad => return R::Bad,
    };
    let ve = match run_end(i, a1, Class::NotLf) {
        None => return R::Inc,
        Some(e) => e,
    };
    let value = to_vec(i, a1, ve);
    if !utf8_ok(&value) {
        return R::Bad;
    }
    R::Good(RComp::Field { key: to_vec(i, 0, ke), value }, ve + 1)
}

/// alt((OK, list_OK, error, binary_field, key_value_field)): the first result that is not nom `Error` wins
pub fn ref_component(i: &[u8]) -> R<RComp> {
    let t_ok: [u8; 3] = [0x4F, 0x4B, 0x0A];
    match tag(i, 0, &t_ok) {
        R::Good(_, n) => return R::Good(RComp::EndOfResponse, n),
        R::Inc => return R::Inc,
        R::Bad => {}
    }
    let t_list_ok: [u8; 8] = [0x6C, 0x69, 0x73, 0x74, 0x5F, 0x4F, 0x4B, 0x0A];
    match tag(i, 0, &t_list_ok) {
        R::Good(_, n) => return R::Good(RComp::EndOfFrame, n),
        R::Inc => return R::Inc,
        R::Bad => {}
    }
    match p_error(i) {
        R::Good(c, n) => return R::Good(c, n),
        R::Inc => return R::Inc,
        R::Bad => {}
    }
    match p_binary(i) {
        B::Good(l, n) => return R::Good(RComp::Binary { len: l }, n),
        B::Inc => return R::Inc,
        B::Fail => return R::Bad,
        B::Bad => {}
    }
    p_field(i)
}

pub fn ref_greeting(i: &[u8]) -> R<Vec<u8>> {
    let t_greet: [u8; 7] = [0x4F, 0x4B, 0x20, 0x4D, 0x50, 0x44, 0x20];
    let a0 = match tag(i, 0, &t_greet) {
        R::Good(_, n) => n,
        R::Inc => return R::Inc,
        R::Bad => return R::Bad,
    };
    let e = match run_end(i, a0, Class::NotLf) {
        None => return R::Inc,
        Some(e) => e,
    };
    if e == a0 {
        return R::Bad;
    }
    let v = to_vec(i, a0, e);
    if !utf8_ok(&v) {
        return R::Bad;
    }
    R::Good(v, e + 1)
}

//! ORACLE: byte-level port of MPD's request tokenizer (src/util/Tokenizer.cxx: NextWord / NextParam / NextString /
//! NextUnquoted / StripLeft) and of the way command_process() applies it to one request line. Transcribed from the MPD
//! sources from memory (no network here); it is the oracle of C06/C07/C11/C15 replays, not a proved artefact.

fn ws_not_null(c: u8) -> bool { c > 0 && c <= 0x20 }
fn ws_or_null(c: u8) -> bool { c <= 0x20 }
fn strip_left(s: &[u8], mut i: usize) -> usize { while i < s.len() && ws_not_null(s[i]) { i += 1; } i }
fn at(s: &[u8], i: usize) -> u8 { if i < s.len() { s[i] } else { 0 } }

/// the line as MPD's C string sees it: cut at the first NUL, trailing whitespace stripped (StripRight)
pub fn c_line(line: &[u8]) -> Vec<u8> {
    let end = line.iter().position(|&b| b == 0).unwrap_or(line.len());
    let mut v = line[..end].to_vec();
    while let Some(&l) = v.last() { if ws_not_null(l) { v.pop(); } else { break; } }
    v
}

pub fn next_word(s: &[u8], i: &mut usize) -> Result<Option<Vec<u8>>, String> {
    if at(s, *i) == 0 { return Ok(None); }
    if !at(s, *i).is_ascii_alphabetic() { return Err("Letter expected".into()); }
    let start = *i;
    loop {
        *i += 1;
        let c = at(s, *i);
        if c == 0 { return Ok(Some(s[start..*i].to_vec())); }
        if ws_not_null(c) { let w = s[start..*i].to_vec(); *i = strip_left(s, *i + 1); return Ok(Some(w)); }
        if !(c.is_ascii_alphanumeric() || c == b'_') { return Err("Invalid word character".into()); }
    }
}
fn valid_unquoted(c: u8) -> bool { c > 0x20 && c != b'"' && c != b'\'' }
pub fn next_unquoted(s: &[u8], i: &mut usize) -> Result<Option<Vec<u8>>, String> {
    if at(s, *i) == 0 { return Ok(None); }
    if !valid_unquoted(at(s, *i)) { return Err("Invalid unquoted character".into()); }
    let start = *i;
    loop {
        *i += 1;
        let c = at(s, *i);
        if c == 0 { return Ok(Some(s[start..*i].to_vec())); }
        if ws_not_null(c) { let w = s[start..*i].to_vec(); *i = strip_left(s, *i + 1); return Ok(Some(w)); }
        if !valid_unquoted(c) { return Err("Invalid unquoted character".into()); }
    }
}
pub fn next_string(s: &[u8], i: &mut usize) -> Result<Option<Vec<u8>>, String> {
    if at(s, *i) == 0 { return Ok(None); }
    if at(s, *i) != b'"' { return Err("'\"' expected".into()); }
    *i += 1;
    let mut out = vec![];
    while at(s, *i) != b'"' {
        if at(s, *i) == b'\\' { *i += 1; }
        if at(s, *i) == 0 { return Err("Missing closing '\"'".into()); }
        out.push(s[*i]); *i += 1;
    }
    *i += 1;
    if !ws_or_null(at(s, *i)) { return Err("Space expected after closing '\"'".into()); }
    *i = strip_left(s, *i);
    Ok(Some(out))
}
pub fn next_param(s: &[u8], i: &mut usize) -> Result<Option<Vec<u8>>, String> {
    if at(s, *i) == b'"' { next_string(s, i) } else { next_unquoted(s, i) }
}
/// (command word, parameters) as MPD's command dispatcher would see them for one request line (without its LF)
pub fn mpd_tokenize(line: &[u8]) -> Result<(Vec<u8>, Vec<Vec<u8>>), String> {
    let s = c_line(line);
    let mut i = 0;
    let cmd = match next_word(&s, &mut i)? { Some(w) => w, None => return Err("No command given".into()) };
    let mut args = vec![];
    while let Some(a) = next_param(&s, &mut i)? { args.push(a); }
    Ok((cmd, args))
}

//! Rust port of MPD's filter-expression parser (SongFilter::ParseExpression, ExpectWord, ExpectQuoted) — the same algorithm
//! as the spec port in contracts/spec/filt.rs, written from the MPD sources from memory. Input: ONE tokenized argument.
#[derive(Clone, Debug, PartialEq)]
pub enum T { Tag(String, String, Vec<u8>), Not(Box<T>), And(Vec<T>) }
fn ws(c: u8) -> bool { c <= 0x20 }
fn strip_left(s: &[u8], mut at: usize) -> usize { while at < s.len() && ws(s[at]) { at += 1; } at }
fn word_char(c: u8) -> bool { c.is_ascii_alphanumeric() || c == b'_' || c == b'-' }
fn expect_word(s: &[u8], at: usize) -> Option<(String, usize)> {
    if at >= s.len() || !word_char(s[at]) { return None; }
    let mut e = at + 1; while e < s.len() && word_char(s[e]) { e += 1; }
    Some((String::from_utf8_lossy(&s[at..e]).into_owned(), strip_left(s, e)))
}
fn parse_op(s: &[u8], at: usize) -> Option<(String, usize)> {
    for op in ["contains", "=~", "!~", "==", "!="] { if s[at..].starts_with(op.as_bytes()) { return Some((op.to_string(), strip_left(s, at + op.len()))); } }
    None
}
fn expect_quoted(s: &[u8], at: usize) -> Option<(Vec<u8>, usize)> {
    if at >= s.len() || (s[at] != b'"' && s[at] != b'\'') { return None; }
    let q = s[at]; let mut i = at + 1; let mut acc = Vec::new();
    loop {
        if i >= s.len() { return None; }
        if s[i] == q { return Some((acc, strip_left(s, i + 1))); }
        if s[i] == b'\\' { if i + 1 >= s.len() { return None; } acc.push(s[i + 1]); i += 2; } else { acc.push(s[i]); i += 1; }
    }
}
pub fn parse_expr(s: &[u8], at: usize) -> Result<(T, usize), String> {
    if at >= s.len() || s[at] != b'(' { return Err("'(' expected".into()); }
    let i = strip_left(s, at + 1);
    if i < s.len() && s[i] == b'(' {
        let (first, mut j) = parse_expr(s, i)?;
        if j < s.len() && s[j] == b')' { return Ok((first, j + 1)); }
        let mut items = vec![first];
        loop {
            let (w, k) = expect_word(s, j).ok_or("word expected")?;
            if w != "AND" { return Err("'AND' expected".into()); }
            let (t, j2) = parse_expr(s, k)?; items.push(t); j = j2;
            if j < s.len() && s[j] == b')' { return Ok((T::And(items), strip_left(s, j + 1))); }
        }
    } else if i < s.len() && s[i] == b'!' {
        let i2 = strip_left(s, i + 1);
        if !(i2 < s.len() && s[i2] == b'(') { return Err("'(' expected".into()); }
        let (inner, j) = parse_expr(s, i2)?;
        if j < s.len() && s[j] == b')' { Ok((T::Not(Box::new(inner)), strip_left(s, j + 1))) } else { Err("')' expected".into()) }
    } else {
        let (tag, k) = expect_word(s, i).ok_or("word expected")?;
        let (op, k2) = parse_op(s, k).ok_or("unknown filter operator")?;
        let (val, k3) = expect_quoted(s, k2).ok_or("quoted string expected")?;
        if k3 < s.len() && s[k3] == b')' { Ok((T::Tag(tag, op, val), strip_left(s, k3 + 1))) } else { Err("')' expected".into()) }
    }
}
/// the whole argument must be one expression
pub fn parse_filter(arg: &[u8]) -> Result<T, String> {
    let (t, j) = parse_expr(arg, 0)?;
    if j != arg.len() { return Err(format!("unparsed garbage after expression at {j}")); }
    Ok(t)
}

//! helpers shared by the witness programs
use std::io::{self, Read};

/// a blocking reader that hands out the given chunks, one per `read` call (never more than the chunk), then EOF
pub struct Chunks { pub chunks: Vec<Vec<u8>>, pub i: usize, pub eof_reads: usize }
impl Chunks { pub fn new(c: &[&[u8]]) -> Self { Chunks { chunks: c.iter().map(|x| x.to_vec()).collect(), i: 0, eof_reads: 0 } } }
impl Read for Chunks {
    fn read(&mut self, buf: &mut [u8]) -> io::Result<usize> {
        if self.i >= self.chunks.len() { self.eof_reads += 1; if self.eof_reads > 10_000 { panic!("HANG: reader asked again and again after end of stream"); } return Ok(0); }
        let c = &mut self.chunks[self.i];
        let n = c.len().min(buf.len());
        buf[..n].copy_from_slice(&c[..n]);
        c.drain(..n);
        if c.is_empty() { self.i += 1; }
        Ok(n)
    }
}
impl io::Write for Chunks {
    fn write(&mut self, b: &[u8]) -> io::Result<usize> { Ok(b.len()) }
    fn flush(&mut self) -> io::Result<()> { Ok(()) }
}

/// the same reader as an AsyncRead: every poll is ready and hands out at most one chunk
impl tokio::io::AsyncRead for Chunks {
    fn poll_read(mut self: std::pin::Pin<&mut Self>, _cx: &mut std::task::Context<'_>, buf: &mut tokio::io::ReadBuf<'_>) -> std::task::Poll<io::Result<()>> {
        let me = &mut *self;
        if me.i < me.chunks.len() {
            let c = &mut me.chunks[me.i];
            let n = c.len().min(buf.remaining());
            buf.put_slice(&c[..n]);
            c.drain(..n);
            if c.is_empty() { me.i += 1; }
        } else {
            me.eof_reads += 1;
            if me.eof_reads > 10_000 { panic!("HANG: reader asked again and again after end of stream"); }
        }
        std::task::Poll::Ready(Ok(()))
    }
}
impl tokio::io::AsyncWrite for Chunks {
    fn poll_write(self: std::pin::Pin<&mut Self>, _cx: &mut std::task::Context<'_>, b: &[u8]) -> std::task::Poll<io::Result<usize>> { std::task::Poll::Ready(Ok(b.len())) }
    fn poll_flush(self: std::pin::Pin<&mut Self>, _cx: &mut std::task::Context<'_>) -> std::task::Poll<io::Result<()>> { std::task::Poll::Ready(Ok(())) }
    fn poll_shutdown(self: std::pin::Pin<&mut Self>, _cx: &mut std::task::Context<'_>) -> std::task::Poll<io::Result<()>> { std::task::Poll::Ready(Ok(())) }
}

pub fn verdict(ok: bool, what: &str) -> ! {
    if ok { println!("HOLDS: {what}"); std::process::exit(0) } else { println!("FAILS: {what}"); std::process::exit(1) }
}

pub mod refparser { include!("refparser.rs"); }
pub mod mpdtok;
pub mod mpdfilter;
pub use refparser::*;

/// outcome of connect / one receive, in a normalised textual form shared by the oracle and the real code
#[derive(Debug, Clone, PartialEq, Eq)]
pub enum Out { Connected(String), Resp(String), Invalid, UnexpectedEof, Closed, IoOther(String) }

fn hex(b: &[u8]) -> String { b.iter().map(|x| format!("{:02x}", x)).collect() }
fn lossy(b: &[u8]) -> String { String::from_utf8_lossy(b).into_owned() }

#[derive(Default, Clone)]
struct RFrame { fields: Vec<(Vec<u8>, Vec<u8>)>, binary: Option<Vec<u8>> }
fn dump_frame(f: &RFrame) -> String {
    let mut s = String::from("frame{");
    for (k, v) in &f.fields { s.push_str(&format!("{}={};", lossy(k), lossy(v))); }
    if let Some(b) = &f.binary { s.push_str(&format!("|bin={}", hex(b))); }
    s.push('}'); s
}
enum St { Initial, InProgress(RFrame), List(RFrame, Vec<RFrame>) }

/// ORACLE: the sequence of results `connect, receive, receive, ...` must produce for this byte stream (followed by EOF),
/// computed with the Verus-verified reference parser and the fold of DESIGN §8.1. Stops at the first terminal outcome.
pub fn ref_outcomes(stream: &[u8]) -> Vec<Out> {
    let mut out = vec![];
    let mut pos = match ref_greeting(stream) {
        R::Good(v, n) => { out.push(Out::Connected(lossy(&v))); n }
        R::Bad => { out.push(Out::Invalid); return out; }
        R::Inc => { out.push(Out::UnexpectedEof); return out; }
    };
    let mut st = St::Initial;
    loop {
        let rest = &stream[pos..];
        let r = if rest.is_empty() { R::Inc } else { ref_component(rest) };
        match r {
            R::Inc => {
                out.push(if matches!(st, St::Initial) && rest.is_empty() { Out::Closed } else { Out::UnexpectedEof });
                return out;
            }
            R::Bad => { out.push(Out::Invalid); return out; }
            R::Good(c, used) => {
                let line = &rest[..used];
                pos += used;
                let cur = |st: &mut St| -> RFrame { match std::mem::replace(st, St::Initial) { St::Initial => RFrame::default(), St::InProgress(f) => f, St::List(f, d) => { *st = St::List(RFrame::default(), d); f } } };
                match c {
                    RComp::Field { key, value } => {
                        let was_list = matches!(st, St::List(..));
                        let mut f = cur(&mut st); f.fields.push((key, value));
                        st = if was_list { match st { St::List(_, d) => St::List(f, d), _ => unreachable!() } } else { St::InProgress(f) };
                    }
                    RComp::Binary { len } => {
                        let payload = line[used - len - 1..used - 1].to_vec();
                        let was_list = matches!(st, St::List(..));
                        let mut f = cur(&mut st); f.binary = Some(payload);
                        st = if was_list { match st { St::List(_, d) => St::List(f, d), _ => unreachable!() } } else { St::InProgress(f) };
                    }
                    RComp::EndOfFrame => {
                        st = match st { St::Initial => St::List(RFrame::default(), vec![RFrame::default()]), St::InProgress(f) => St::List(RFrame::default(), vec![f]),
                                        St::List(f, mut d) => { d.push(f); St::List(RFrame::default(), d) } };
                    }
                    RComp::EndOfResponse => {
                        let frames = match std::mem::replace(&mut st, St::Initial) { St::Initial => vec![RFrame::default()], St::InProgress(f) => vec![f], St::List(_, d) => d };
                        out.push(Out::Resp(format!("R[{}]", frames.iter().map(dump_frame).collect::<Vec<_>>().join(";"))));
                    }
                    RComp::Error { code, index, command, message } => {
                        let frames = match std::mem::replace(&mut st, St::Initial) { St::List(_, d) => d, _ => vec![] };
                        let mut parts: Vec<String> = frames.iter().map(dump_frame).collect();
                        parts.push(format!("err({},{},{:?},{})", code, index, command.as_ref().map(|c| lossy(c)), lossy(&message)));
                        out.push(Out::Resp(format!("R[{}]", parts.join(";"))));
                    }
                }
            }
        }
    }
}

pub fn dump_response(r: &mpd_protocol::response::Response) -> String {
    let mut parts = vec![];
    for f in r.frames() {
        match f {
            Ok(fr) => {
                let mut s = String::from("frame{");
                for (k, v) in fr.fields() { s.push_str(&format!("{}={};", k, v)); }
                if let Some(b) = fr.binary() { s.push_str(&format!("|bin={}", hex(b))); }
                s.push('}'); parts.push(s);
            }
            Err(e) => parts.push(format!("err({},{},{:?},{})", e.code, e.command_index, e.current_command.as_ref().map(|c| c.to_string()), e.message)),
        }
    }
    format!("R[{}]", parts.join(";"))
}

pub fn classify_err(e: &mpd_protocol::MpdProtocolError) -> Out {
    match e {
        mpd_protocol::MpdProtocolError::InvalidMessage => Out::Invalid,
        mpd_protocol::MpdProtocolError::Io(e) if e.kind() == io::ErrorKind::UnexpectedEof => Out::UnexpectedEof,
        mpd_protocol::MpdProtocolError::Io(e) => Out::IoOther(e.to_string()),
    }
}

/// split `stream` at the given cut points (sorted offsets)
pub fn segments(stream: &[u8], cuts: &[usize]) -> Vec<Vec<u8>> {
    let mut v = vec![]; let mut a = 0;
    for &c in cuts { let c = c.min(stream.len()); if c > a { v.push(stream[a..c].to_vec()); a = c; } }
    if a < stream.len() { v.push(stream[a..].to_vec()); }
    v
}

/// REAL blocking connection: connect + receive until a terminal outcome; `max` bounds the number of receive calls.
/// A panic is reported as Err(description); a reader asked for more than `read_limit` reads reports a hang.
pub fn real_blocking(stream: &[u8], cuts: &[usize], max: usize) -> Result<Vec<Out>, String> {
    let segs = segments(stream, cuts);
    let r = std::panic::catch_unwind(move || {
        let refs: Vec<&[u8]> = segs.iter().map(|s| s.as_slice()).collect();
        let mut out = vec![];
        let mut c = match mpd_protocol::Connection::connect(Chunks::new(&refs)) {
            Ok(c) => { out.push(Out::Connected(c.protocol_version().to_string())); c }
            Err(e) => { out.push(classify_err(&e)); return out; }
        };
        for _ in 0..max {
            match c.receive() {
                Ok(Some(r)) => out.push(Out::Resp(dump_response(&r))),
                Ok(None) => { out.push(Out::Closed); break; }
                Err(e) => { out.push(classify_err(&e)); break; }
            }
        }
        out
    });
    r.map_err(|e| format!("PANIC: {:?}", e.downcast_ref::<String>().cloned().or_else(|| e.downcast_ref::<&str>().map(|s| s.to_string()))))
}

/// REAL asynchronous connection over tokio_test's mock with the same segmentation
pub fn real_async(stream: &[u8], cuts: &[usize], max: usize) -> Result<Vec<Out>, String> {
    let segs = segments(stream, cuts);
    let r = std::panic::catch_unwind(move || {
        let rt = tokio::runtime::Builder::new_current_thread().enable_all().build().unwrap();
        rt.block_on(async move {
            let refs: Vec<&[u8]> = segs.iter().map(|s| s.as_slice()).collect();
            let io = Chunks::new(&refs);
            let mut out = vec![];
            let mut c = match mpd_protocol::AsyncConnection::connect(io).await {
                Ok(c) => { out.push(Out::Connected(c.protocol_version().to_string())); c }
                Err(e) => { out.push(classify_err(&e)); return out; }
            };
            for _ in 0..max {
                match c.receive().await {
                    Ok(Some(r)) => out.push(Out::Resp(dump_response(&r))),
                    Ok(None) => { out.push(Out::Closed); break; }
                    Err(e) => { out.push(classify_err(&e)); break; }
                }
            }
            out
        })
    });
    r.map_err(|e| format!("PANIC: {:?}", e.downcast_ref::<String>().cloned().or_else(|| e.downcast_ref::<&str>().map(|s| s.to_string()))))
}

/// hex text, optionally COMPACT: chunks separated by `.`, a chunk `xx*N` stands for N copies of the byte xx (long runs in big payloads
/// would not fit on a command line otherwise)
pub fn unhex(s: &str) -> Vec<u8> {
    let plain = |t: &str| -> Vec<u8> { (0..t.len() / 2).map(|i| u8::from_str_radix(&t[2 * i..2 * i + 2], 16).unwrap()).collect() };
    if !s.contains('.') && !s.contains('*') { return plain(s); }
    let mut out = vec![];
    for t in s.split('.') {
        if let Some((b, n)) = t.split_once('*') { let v = u8::from_str_radix(b, 16).unwrap(); out.extend(std::iter::repeat(v).take(n.parse().unwrap())); } else { out.extend(plain(t)); }
    }
    out
}
pub fn to_hex(b: &[u8]) -> String {
    if b.len() < 20_000 { return hex(b); }
    let mut parts: Vec<String> = vec![]; let mut i = 0; let mut lit = 0;
    while i < b.len() {
        let mut j = i; while j < b.len() && b[j] == b[i] { j += 1; }
        if j - i >= 32 { if lit < i { parts.push(hex(&b[lit..i])); } parts.push(format!("{:02x}*{}", b[i], j - i)); lit = j; }
        i = j;
    }
    if lit < b.len() { parts.push(hex(&b[lit..])); }
    parts.join(".")
}

/// which properties a deviation from the oracle speaks about
pub fn deviation_props(stream: &[u8], expect: &[Out], got: &Result<Vec<Out>, String>, other_flavour: &Result<Vec<Out>, String>, unsegmented: &Result<Vec<Out>, String>) -> Vec<&'static str> {
    let mut p: Vec<&'static str> = vec![];
    match got {
        Err(_) => p.push("C09"),
        Ok(g) => {
            let i = (0..expect.len().max(g.len())).find(|&i| expect.get(i) != g.get(i)).unwrap_or(0);
            let e = expect.get(i); let r = g.get(i);
            let is_eof = |o: Option<&Out>| matches!(o, Some(Out::Closed) | Some(Out::UnexpectedEof));
            let is_resp = |o: Option<&Out>| matches!(o, Some(Out::Resp(_)));
            if i == 0 { p.push("C18"); if is_eof(e) || is_eof(r) { p.push("C10"); } }
            else if matches!(e, Some(Out::Invalid)) { p.push("C09"); }                     // malformed input not answered with InvalidMessage
            else if is_eof(e) && (is_eof(r) || r.is_none()) { p.push("C10"); }             // EOF misclassified
            else if is_eof(e) { p.push("C10"); p.push("C09"); }                            // something fabricated where the stream just ended
            else if is_resp(e) && is_eof(r) { p.push("C10"); p.push("C03"); }              // a complete response not delivered, EOF reported instead
            else { p.push("C03"); }                                                        // well-formed output rejected or decoded differently
        }
    }
    if unsegmented.as_ref().ok().map(|u| u.as_slice()) == Some(expect) || got != other_flavour { p.push("C02"); }
    let _ = stream;
    p
}

/// bytes the real blocking connection writes for a command (public API only: Connection::send over a capturing writer)
pub struct Capture { pub input: Chunks, pub written: std::sync::Arc<std::sync::Mutex<Vec<u8>>> }
impl Read for Capture { fn read(&mut self, b: &mut [u8]) -> io::Result<usize> { self.input.read(b) } }
impl io::Write for Capture {
    fn write(&mut self, b: &[u8]) -> io::Result<usize> { self.written.lock().unwrap().extend_from_slice(b); Ok(b.len()) }
    fn flush(&mut self) -> io::Result<()> { Ok(()) }
}
pub fn wire_of_command(c: mpd_protocol::Command) -> Vec<u8> {
    let w = std::sync::Arc::new(std::sync::Mutex::new(vec![]));
    let mut conn = mpd_protocol::Connection::connect(Capture { input: Chunks::new(&[b"OK MPD 0.23.5\n"]), written: w.clone() }).unwrap();
    conn.send(c).unwrap();
    let v = w.lock().unwrap().clone(); v
}
pub fn wire_of_list(c: mpd_protocol::CommandList) -> Vec<u8> {
    let w = std::sync::Arc::new(std::sync::Mutex::new(vec![]));
    let mut conn = mpd_protocol::Connection::connect(Capture { input: Chunks::new(&[b"OK MPD 0.23.5\n"]), written: w.clone() }).unwrap();
    conn.send_list(c).unwrap();
    let v = w.lock().unwrap().clone(); v
}

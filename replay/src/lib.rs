//! helpers shared by the witness programs
use std::io::{self, Read};

/// a blocking reader that hands out the given chunks, one per `read` call (never more than the chunk), then EOF
pub struct Chunks { pub chunks: Vec<Vec<u8>>, pub i: usize }
impl Chunks { pub fn new(c: &[&[u8]]) -> Self { Chunks { chunks: c.iter().map(|x| x.to_vec()).collect(), i: 0 } } }
impl Read for Chunks {
    fn read(&mut self, buf: &mut [u8]) -> io::Result<usize> {
        if self.i >= self.chunks.len() { return Ok(0); }
        let c = &mut self.chunks[self.i];
        let n = c.len().min(buf.len());
        buf[..n].copy_from_slice(&c[..n]);
        c.drain(..n);
        if c.is_empty() { self.i += 1; }
        Ok(n)
    }
}
impl io::Write for Chunks {
    fn write(&mut self, b: &[u8]) -> io::Result<usize> { Ok(b.len()) }
    fn flush(&mut self) -> io::Result<()> { Ok(()) }
}

pub fn verdict(ok: bool, what: &str) -> ! {
    if ok { println!("HOLDS: {what}"); std::process::exit(0) } else { println!("FAILS: {what}"); std::process::exit(1) }
}

//! Bounded counterexample SEARCH for the client run loop (not a proof): the REAL `mpd_client::Client` talks over an
//! in-memory duplex stream to a small model of an MPD server (idle rules, one reply per request, in order) while
//! 0..3 callers issue requests, the server reports subsystem changes, replies are chunked, callers cancel, the stream is
//! cut / closed / corrupted. Virtual (paused) time, single-threaded runtime; a scenario is a pure function of its seed.
//!
//! usage: client_sim search <seed0> <n>      first failing scenario as JSON on the last line, exit 1; exit 0 if none
//!        client_sim case <seed> [reps]      re-run one scenario (reps times: select! polling order is tokio's own RNG)
//!
//! Checked per scenario:
//!  C05 every line the client writes is legal for the server model (only noidle while the server waits in idle; noidle
//!      outside idle only in the answer race; no second request while one is outstanding; idle again when quiet)
//!  C01 every caller gets exactly the reply to its own request (echo of its unique name / error + frames before it)
//!  C04 the events received are exactly the `changed` lines the server wrote, in order, names verbatim
//!  C08 after a close / cut / garbage every caller resolves, the client reports closed, at most one closing event, last
//!  C18 with a password the first line is `password <pw>` (tokenised as MPD does), nothing else before its reply
use std::{sync::{Arc, Mutex}, time::Duration};
use mpd_client::{Client, client::{CommandError, ConnectionEvent}, protocol::command::{Command as RawCommand, CommandList as RawCommandList}};
use tokio::{io::{AsyncReadExt, AsyncWriteExt, DuplexStream, Join}, time::{Instant, sleep, sleep_until, timeout}};
/// one end of the transport: reads from one in-memory pipe, writes to another (so that the two directions can have different capacities)
type End = Join<DuplexStream, DuplexStream>;

#[derive(Clone)]
struct Rng(u64);
impl Rng {
    fn next(&mut self) -> u64 { self.0 ^= self.0 << 13; self.0 ^= self.0 >> 7; self.0 ^= self.0 << 17; self.0 }
    fn below(&mut self, n: usize) -> usize { (self.next() % n.max(1) as u64) as usize }
    fn pick<T: Copy>(&mut self, xs: &[T]) -> T { xs[self.below(xs.len())] }
}

const DELAYS: [u64; 12] = [0, 0, 1, 5, 50, 99, 100, 101, 150, 250, 0, 2];
const NAMES: [&str; 12] = ["player", "mixer", "database", "stored_playlist", "playlist", "options", "sticker", "Foo_bar", "PLAYER", "x", "partition", "mount"];

#[derive(Clone, Debug)]
enum Op {
    /// single command; `fail`: answered with ACK; `partial`: some output before the ACK
    Single { fail: bool, partial: bool, bin: bool },
    /// list of n commands; fail_at: index answered with ACK
    List { n: usize, fail_at: Option<usize>, partial: bool },
    /// C17: album art; kind e = embedded picture, f = cover file only, u = readpicture unknown to the server (code 5) + cover file,
    /// n = neither has data, x = readpicture answers with another error (code 50)
    Art { kind: char, size: usize, limit: usize, mime: bool },
}
/// the picture the model server holds for a uri `art-<kind>-<size>-<limit>-<m|x>`
fn art_byte(size: usize, i: usize) -> u8 { ((i * 31 + size * 7 + i / 251) % 256) as u8 }
fn art_reply(name: &str, args: &[String], i: usize) -> Vec<u8> {
    let parts: Vec<&str> = args.first().map(|u| u.split('-').collect()).unwrap_or_default();
    if parts.len() != 5 || parts[0] != "art" { return format!("ACK [2@{i}] {{{name}}} bad uri\n").into_bytes(); }
    let kind = parts[1]; let size: usize = parts[2].parse().unwrap(); let limit: usize = parts[3].parse().unwrap(); let mime = parts[4] == "m";
    let off: usize = args.get(1).and_then(|o| o.parse().ok()).unwrap_or(0);
    let emb = name == "readpicture";
    if emb && kind == "u" { return format!("ACK [5@{i}] {{}} unknown command \"readpicture\"\n").into_bytes(); }
    if emb && kind == "x" { return format!("ACK [50@{i}] {{readpicture}} No such file\n").into_bytes(); }
    let has = if emb { kind == "e" } else { kind == "f" || kind == "u" || kind == "e" };
    if !has || off > size { return Vec::new(); }      // no binary: "no data"
    let end = (off + limit).min(size);
    let mut out = format!("size: {size}\n").into_bytes();
    if emb && mime { out.extend_from_slice(b"type: image/png\n"); }
    out.extend_from_slice(format!("binary: {}\n", end - off).as_bytes());
    out.extend((off..end).map(|k| art_byte(size, k)));
    out.push(b'\n');
    out
}
#[derive(Clone, Debug)]
struct Step { delay: u64, op: Op, cancel_after: Option<u64> }
#[derive(Clone, Debug)]
enum Fault { None, CutAfter(usize), CloseAt(u64), Garbage(usize), /// the k-th idle is answered with an error
    AckIdle(usize) }
#[derive(Clone, Debug)]
struct Scenario {
    callers: Vec<Vec<Step>>,
    notifs: Vec<(u64, Vec<&'static str>)>,
    reply_delay: Vec<u64>,
    chunk: usize,          // 0 = whole reply at once, k = k bytes per write with a yield / 1 ms between
    chunk_sleep: bool,
    fault: Fault,
    password: Option<(String, bool)>,
    split_idle: bool,      // only in scenarios without requests (see C04.cancel_safe, a known finding)
    /// transport that holds only a few bytes, and a server that is busy (does not read) for this long after answering a request: the client's
    /// next write stalls in the middle of a line (a write that is abandoned half-way shows up as a torn request line)
    small_pipe: bool,
    busy_ms: u64,
}

fn gen_scenario(seed: u64) -> Scenario {
    let mut r = Rng(seed.wrapping_mul(0x9E3779B97F4A7C15) | 1);
    for _ in 0..4 { r.next(); }
    let events_only = r.below(8) == 0;
    let nc = if events_only { 0 } else { r.below(4) };
    let mut callers = Vec::new();
    for _ in 0..nc {
        let mut steps = Vec::new();
        for _ in 0..1 + r.below(4) {
            let op = match r.below(6) {
                5 => Op::Art { kind: r.pick(&['e', 'e', 'f', 'u', 'n', 'x']), size: r.pick(&[0usize, 1, 63, 64, 65, 200, 1000, 9000, 20000]), limit: r.pick(&[1usize, 7, 64, 8192]), mime: r.below(2) == 0 },
                0 | 1 => Op::Single { fail: false, partial: false, bin: r.below(4) == 0 },
                2 => Op::Single { fail: true, partial: r.below(2) == 0, bin: false },
                3 => Op::List { n: 1 + r.below(4), fail_at: None, partial: false },
                _ => { let n = 1 + r.below(4); Op::List { n, fail_at: Some(r.below(n)), partial: r.below(2) == 0 } }
            };
            let cancel_after = if r.below(7) == 0 { Some(r.pick(&[0u64, 1, 10, 99, 100, 120])) } else { None };
            steps.push(Step { delay: r.pick(&DELAYS), op, cancel_after });
        }
        callers.push(steps);
    }
    let mut notifs = Vec::new();
    let mut t = 0u64;
    for _ in 0..r.below(5) {
        t += r.pick(&[0u64, 1, 3, 50, 99, 100, 101, 200, 400]);
        let names = (0..1 + r.below(3)).map(|_| r.pick(&NAMES)).collect();
        notifs.push((t, names));
    }
    let fault = match r.below(10) {
        0 | 1 => Fault::CutAfter(r.below(120)),
        2 => Fault::CloseAt(r.pick(&[0u64, 1, 50, 100, 150, 300, 700])),
        3 => Fault::Garbage(r.below(5)),
        4 if r.below(2) == 0 => Fault::AckIdle(r.below(4)),
        _ => Fault::None,
    };
    let password = if r.below(6) == 0 {
        let pw = r.pick(&["secret", "two words", "Joe's", "a\\b", "", "pass\"word", "tab\there", "caf\u{e9}"]);
        Some((pw.to_string(), r.below(4) == 0))
    } else { None };
    let reply_delay = (0..8).map(|_| r.pick(&[0u64, 0, 1, 20, 99, 100, 130])).collect(); let chunk = r.pick(&[0usize, 0, 1, 2, 3, 7]);
    let chunk_sleep = r.below(2) == 0; let split_idle = events_only && r.below(2) == 0;
    // drawn last, so that every earlier field of a scenario is what it was before these two were added
    let stall = r.below(6) == 0;
    let busy_ms = if stall { r.pick(&[30u64, 150, 400]) } else { 0 };
    Scenario { callers, notifs, reply_delay, chunk, chunk_sleep, fault, password, split_idle, small_pipe: stall, busy_ms }
}

#[derive(Default)]
struct Shared {
    violations: Vec<(String, String)>,
    trace: Vec<String>,
    /// names of the changes written to the client, in order (complete idle replies only)
    events_sent: Vec<String>,
    /// an idle reply was cut in the middle
    event_cut: bool,
    server_lines: Vec<String>,
    requests_seen: Vec<String>,
    /// the command names the callers handed to the client
    issued: std::collections::HashSet<String>,
    idling: bool,
    closed_by_server: bool,
    /// the stream was cut inside a reply / garbage was sent (a failure that is not a clean close)
    unclean: bool,
    eof_from_client: bool,
    written: usize,
    /// callers that were told about a protocol / transport failure
    protocol_errs: usize,
}
type Sh = Arc<Mutex<Shared>>;
fn viol(sh: &Sh, p: &str, m: String) { sh.lock().unwrap().violations.push((p.to_string(), m)); }
fn tr(sh: &Sh, t0: Instant, m: String) { let t = Instant::now().duration_since(t0).as_millis(); sh.lock().unwrap().trace.push(format!("[{t:>5}ms] {m}")); }

fn reply_for(cmds: &[(String, Vec<String>)], is_list: bool) -> Vec<u8> {
    let mut out = Vec::new();
    for (i, (name, args)) in cmds.iter().enumerate() {
        let a = args.first().map(|s| s.as_str()).unwrap_or("");
        if a == "fail" || a == "pfail" {
            if a == "pfail" { out.extend_from_slice(format!("echo: {name}\npartial: 1\n").as_bytes()); }
            out.extend_from_slice(format!("ACK [5@{i}] {{{name}}} boom\n").as_bytes());
            return out;
        }
        if name == "readpicture" || name == "albumart" {
            let r = art_reply(name, args, i);
            if r.starts_with(b"ACK") { out.extend_from_slice(&r); return out; }
            out.extend_from_slice(&r);
            if is_list { out.extend_from_slice(b"list_OK\n"); }
            continue;
        }
        out.extend_from_slice(format!("echo: {name}\n").as_bytes());
        if a == "bin" { out.extend_from_slice(b"binary: 7\nOK\nAC\nK\n"); }
        if is_list { out.extend_from_slice(b"list_OK\n"); }
    }
    out.extend_from_slice(b"OK\n");
    out
}

struct Server { io: Option<End>, sc: Scenario, sh: Sh, t0: Instant, cut_left: Option<usize> }
impl Server {
    /// write through the fault filter; false = the stream was cut / is gone
    async fn put(&mut self, data: &[u8], _whole_is_reply: bool) -> bool {
        let Some(io) = self.io.as_mut() else { return false };
        let mut data = data;
        let mut cut = false;
        if let Some(left) = self.cut_left {
            if data.len() >= left { data = &data[..left]; cut = true; }
            self.cut_left = Some(left - data.len());
        }
        let ok = io.write_all(data).await.is_ok();
        self.sh.lock().unwrap().written += data.len();
        if cut || !ok { self.io = None; self.sh.lock().unwrap().closed_by_server = true; tr(&self.sh, self.t0, "server: stream cut".into()); return false; }
        true
    }
    /// a reply written in chunks; returns false when the stream ended
    async fn put_reply(&mut self, data: &[u8], atomic: bool) -> bool {
        // a cut strictly inside a reply is an unclean end
        if let Some(left) = self.cut_left { if left > 0 && left < data.len() { self.sh.lock().unwrap().unclean = true; } }
        if atomic || self.sc.chunk == 0 { return self.put(data, true).await; }
        for c in data.chunks(self.sc.chunk) {
            if !self.put(c, false).await { return false; }
            if self.sc.chunk_sleep { sleep(Duration::from_millis(1)).await; } else { tokio::task::yield_now().await; }
        }
        true
    }
}

async fn server(mut s: Server) {
    use vx_replay::mpdtok::mpd_tokenize;
    let sh = s.sh.clone(); let t0 = s.t0;
    let mut buf: Vec<u8> = Vec::new();
    let mut pending: Vec<&'static str> = Vec::new();
    let mut notifs = s.sc.notifs.clone(); notifs.reverse();
    let mut idling = false;
    let mut race_ok = false;          // the last idle was answered spontaneously and nothing was received since
    let mut in_list: Option<Vec<(String, Vec<String>)>> = None;
    let mut outstanding: Option<(Instant, Vec<u8>)> = None;
    let mut n_replies = 0usize;
    let mut authed = s.sc.password.is_none();
    let mut n_idles = 0usize;
    let mut dead = false;             // garbage was sent: from here on the peer is broken, it neither checks nor answers
    let close_at = if let Fault::CloseAt(ms) = s.sc.fault { Some(t0 + Duration::from_millis(ms)) } else { None };
    if !s.put(b"OK MPD 0.23.5\n", true).await { return; }
    loop {
        sh.lock().unwrap().idling = idling;
        // process complete lines
        while let Some(end) = buf.iter().position(|b| *b == b'\n') {
            let raw: Vec<u8> = buf.drain(..=end).collect();
            let line = String::from_utf8_lossy(&raw[..end]).into_owned();
            tr(&sh, t0, format!("client -> {line:?}"));
            sh.lock().unwrap().server_lines.push(line.clone());
            if dead { continue; }
            let was_race_ok = race_ok; race_ok = false;
            if !authed {
                let (pw, wrong) = s.sc.password.clone().unwrap();
                // (whether the argument survives MPD's tokenizer is C06's question, not C18's)
                if !line.starts_with("password ") { viol(&sh, "C18", format!("the first line written is {line:?}, not the password {pw:?}")); }
                if wrong { if !s.put_reply(b"ACK [3@0] {password} incorrect password\n", false).await { return; } }
                else { if !s.put_reply(b"OK\n", false).await { return; } authed = true; }
                continue;
            }
            if outstanding.is_some() {
                viol(&sh, "C05", format!("client wrote {line:?} while the reply to the previous request is still outstanding"));
            }
            if let Some(list) = in_list.as_mut() {
                if line == "command_list_end" {
                    let l = in_list.take().unwrap();
                    let d = s.sc.reply_delay[n_replies % s.sc.reply_delay.len()];
                    outstanding = Some((Instant::now() + Duration::from_millis(d), reply_for(&l, true)));
                } else {
                    match mpd_tokenize(&raw[..end]) {
                        Ok((n, a)) => { let n = String::from_utf8_lossy(&n).into_owned(); sh.lock().unwrap().requests_seen.push(n.clone()); list.push((n, a.iter().map(|x| String::from_utf8_lossy(x).into_owned()).collect())); }
                        Err(e) => viol(&sh, "C05", format!("line {line:?} inside a command list is not a command: {e}")),
                    }
                }
                continue;
            }
            match (idling, line.as_str()) {
                (true, "noidle") => { idling = false; if !s.put_reply(b"OK\n", false).await { return; } }
                (true, other) => viol(&sh, "C05", format!("client wrote {other:?} while the server is waiting in idle (only noidle is allowed)")),
                (false, "noidle") => { if !was_race_ok { viol(&sh, "C05", "client wrote noidle although no idle is pending (and not in the answer race)".into()); } }
                (false, "idle") => {
                    n_idles += 1;
                    if let Fault::AckIdle(k) = s.sc.fault { if k + 1 == n_idles {
                        dead = true; { let mut g = sh.lock().unwrap(); g.unclean = true; g.closed_by_server = true; }
                        tr(&sh, t0, "server -> ACK to idle".into());
                        if !s.put_reply(b"ACK [5@0] {idle} not now\n", false).await { return; }
                        continue;
                    } }
                    if pending.is_empty() { idling = true; }
                    else { let ok = flush(&mut s, &mut pending).await; race_ok = true; if !ok { return; } }
                }
                (false, "command_list_ok_begin") => in_list = Some(Vec::new()),
                (false, _) => match mpd_tokenize(&raw[..end]) {
                    Ok((n, a)) => {
                        let n = String::from_utf8_lossy(&n).into_owned();
                        sh.lock().unwrap().requests_seen.push(n.clone());
                        let d = s.sc.reply_delay[n_replies % s.sc.reply_delay.len()];
                        outstanding = Some((Instant::now() + Duration::from_millis(d), reply_for(&[(n, a.iter().map(|x| String::from_utf8_lossy(x).into_owned()).collect())], false)));
                    }
                    Err(e) => viol(&sh, "C05", format!("line {line:?} is not a command: {e}")),
                },
            }
        }
        sh.lock().unwrap().idling = idling;
        // next timed thing
        let mut wake: Option<Instant> = None;
        if let Some((at, _)) = &outstanding { wake = Some(*at); }
        if let Some((ms, _)) = notifs.last() { let at = t0 + Duration::from_millis(*ms); wake = Some(wake.map_or(at, |w| w.min(at))); }
        if let Some(at) = close_at { wake = Some(wake.map_or(at, |w| w.min(at))); }
        let Some(io) = s.io.as_mut() else { return };
        let mut chunk = [0u8; 512];
        let got = match wake {
            Some(w) => tokio::select! { biased; r = io.read(&mut chunk) => Some(r), _ = sleep_until(w) => None },
            None => Some(io.read(&mut chunk).await),
        };
        match got {
            Some(Ok(0)) | Some(Err(_)) => { tr(&sh, t0, "server: client closed the transport".into()); sh.lock().unwrap().eof_from_client = true; return; }
            Some(Ok(n)) => { buf.extend_from_slice(&chunk[..n]); continue; }
            None => {}
        }
        let now = Instant::now();
        if let Some(at) = close_at { if now >= at {
            tr(&sh, t0, "server: closes the connection".into());
            sh.lock().unwrap().closed_by_server = true; s.io = None; return;
        } }
        if let Some((at, _)) = &outstanding { if now >= *at {
            let (_, mut data) = outstanding.take().unwrap();
            if let Fault::Garbage(k) = s.sc.fault { if k == n_replies { data = b"\xff\xfegarbage without colon\nOK\n".to_vec(); dead = true; let mut g = sh.lock().unwrap(); g.unclean = true; g.closed_by_server = true; } }
            n_replies += 1;
            tr(&sh, t0, format!("server -> reply {:?}", String::from_utf8_lossy(&data)));
            if !s.put_reply(&data, false).await { return; }
            if s.sc.busy_ms > 0 { sleep(Duration::from_millis(s.sc.busy_ms)).await; }
        } }
        while let Some((ms, _)) = notifs.last() {
            if now < t0 + Duration::from_millis(*ms) { break; }
            let (_, names) = notifs.pop().unwrap();
            pending.extend(names);
        }
        if idling && !pending.is_empty() {
            idling = false; race_ok = true;
            if !flush(&mut s, &mut pending).await { return; }
        }
    }
}
/// answer the pending idle with all pending changes (one write: see C04.cancel_safe)
async fn flush(s: &mut Server, pending: &mut Vec<&'static str>) -> bool {
    let mut data = Vec::new();
    for n in pending.iter() { data.extend_from_slice(format!("changed: {n}\n").as_bytes()); }
    data.extend_from_slice(b"OK\n");
    tr(&s.sh, s.t0, format!("server -> idle reply {:?}", String::from_utf8_lossy(&data)));
    let cut_inside = s.cut_left.map_or(false, |l| l < data.len());
    let ok = s.put_reply(&data, !s.sc.split_idle).await;
    if !cut_inside && (ok || s.cut_left.is_some()) { s.sh.lock().unwrap().events_sent.extend(pending.iter().map(|x| x.to_string())); }
    else { s.sh.lock().unwrap().event_cut = true; }
    pending.clear();
    ok
}

fn letters(mut i: usize) -> String { let mut s = String::new(); loop { s.push((b'a' + (i % 26) as u8) as char); i /= 26; if i == 0 { break; } } s }

/// one caller: issues its steps in order; returns violations
async fn caller(ci: usize, steps: Vec<Step>, client: Client, sh: Sh, t0: Instant, faulty: bool) {
    for (si, st) in steps.iter().enumerate() {
        sleep(Duration::from_millis(st.delay)).await;
        let base = format!("q{}{}", letters(ci), letters(si));
        if let Op::Art { kind, size, limit, mime } = &st.op {
            // keep the number of requests bounded: at most ~300 chunks
            let limit = if size / limit > 300 { size / 300 + 1 } else { *limit };
            let uri = format!("art-{kind}-{size}-{limit}-{}", if *mime { "m" } else { "x" });
            tr(&sh, t0, format!("caller {ci} loads album art {uri}"));
            let r = match timeout(Duration::from_secs(600), client.album_art(&uri)).await { Ok(r) => r, Err(_) => { viol(&sh, if faulty { "C08" } else { "C17" }, format!("album_art({uri}) did not finish within 600 s (virtual)")); return; } };
            let want: Vec<u8> = (0..*size).map(|k| art_byte(*size, k)).collect();
            match (kind, &r) {
                (_, Err(CommandError::ConnectionClosed)) | (_, Err(CommandError::Protocol(_))) if faulty => { if matches!(r, Err(CommandError::Protocol(_))) { sh.lock().unwrap().protocol_errs += 1; } }
                ('e', Ok(Some((data, m)))) => { if data[..] != want[..] || m.as_deref() != (if *mime { Some("image/png") } else { None }) { viol(&sh, "C17", format!("album_art({uri}): {} bytes (expected {}), identical: {}, mime {m:?}", data.len(), want.len(), data[..] == want[..])); } }
                ('f', Ok(Some((data, m)))) | ('u', Ok(Some((data, m)))) => { if data[..] != want[..] || m.is_some() { viol(&sh, "C17", format!("album_art({uri}) from the cover file: {} bytes (expected {}), identical: {}, mime {m:?}", data.len(), want.len(), data[..] == want[..])); } }
                ('n', Ok(None)) => {}
                ('x', Err(CommandError::ErrorResponse { error, .. })) if error.code == 50 => {}
                (_, other) => viol(&sh, "C17", format!("album_art({uri}) = {}", match other { Ok(Some((d, m))) => format!("Ok(Some({} bytes, {m:?}))", d.len()), Ok(None) => "Ok(None)".into(), Err(e) => format!("Err({e})") })),
            }
            continue;
        }
        let res: Result<Result<Vec<mpd_client::protocol::response::Frame>, CommandError>, ()>;
        let (names, fail_at, partial, single): (Vec<String>, Option<usize>, bool, bool) = match &st.op {
            Op::Single { fail, partial, .. } => (vec![base.clone()], if *fail { Some(0) } else { None }, *partial, true),
            Op::List { n, fail_at, partial } => ((0..*n).map(|k| format!("{base}{}", letters(k))).collect(), *fail_at, *partial, false),
            Op::Art { .. } => unreachable!(),
        };
        let mk = |k: usize| {
            let c = RawCommand::new(&names[k]);
            if fail_at == Some(k) { c.argument(if partial { "pfail" } else { "fail" }) }
            else if matches!(st.op, Op::Single { bin: true, .. }) { c.argument("bin") } else { c }
        };
        { let mut g = sh.lock().unwrap(); for n in &names { g.issued.insert(n.clone()); } }
        tr(&sh, t0, format!("caller {ci} issues {names:?}"));
        let fut = async {
            if single { client.raw_command(mk(0)).await.map(|f| vec![f]) }
            else { let mut l = RawCommandList::new(mk(0)); for k in 1..names.len() { l.add(mk(k)); } client.raw_command_list(l).await }
        };
        let limit = Duration::from_secs(30);
        res = match st.cancel_after {
            Some(ms) => match timeout(Duration::from_millis(ms), fut).await { Ok(r) => Ok(r), Err(_) => { tr(&sh, t0, format!("caller {ci} cancels {base}")); continue; } },
            None => match timeout(limit, fut).await { Ok(r) => Ok(r), Err(_) => Err(()) },
        };
        let r = match res {
            Err(()) => { viol(&sh, if faulty { "C08" } else { "C01" }, format!("request {base} of caller {ci} was not answered within 30 s (virtual)")); return; }
            Ok(r) => r,
        };
        tr(&sh, t0, format!("caller {ci} got {}", match &r { Ok(f) => format!("Ok({} frames)", f.len()), Err(e) => format!("Err({e})") }));
        let echo_ok = |f: &mpd_client::protocol::response::Frame, k: usize| f.find("echo") == Some(names[k].as_str()) && f.fields_len() == 1;
        match (&r, fail_at) {
            (Ok(frames), None) => {
                if frames.len() != names.len() || !frames.iter().enumerate().all(|(k, f)| echo_ok(f, k)) {
                    viol(&sh, "C01", format!("caller {ci} request {names:?} got a reply that is not its own: {frames:?}"));
                }
                if matches!(st.op, Op::Single { bin: true, .. }) && frames[0].binary() != Some(&b"OK\nAC\nK"[..]) {
                    viol(&sh, "C01", format!("caller {ci} request {names:?}: binary payload wrong: {:?}", frames[0].binary()));
                }
            }
            (Err(CommandError::ErrorResponse { error, succesful_frames }), Some(j)) => {
                let exp = if single { 0 } else { j };
                if succesful_frames.len() != exp || !succesful_frames.iter().enumerate().all(|(k, f)| echo_ok(f, k)) || error.current_command.as_deref() != Some(names[j].as_str()) || error.command_index != j as u64 {
                    viol(&sh, "C01", format!("caller {ci} list {names:?} failing at {j}: got error {error:?} with frames {succesful_frames:?}"));
                }
            }
            (Err(CommandError::ConnectionClosed), _) if faulty => {}
            (Err(CommandError::Protocol(_)), _) if faulty => { sh.lock().unwrap().protocol_errs += 1; }
            (other, _) => viol(&sh, "C01", format!("caller {ci} request {names:?} (fail_at {fail_at:?}) resolved with {other:?}")),
        }
    }
}

async fn scenario(seed: u64) -> (Vec<(String, String)>, Vec<String>) {
    let sc = gen_scenario(seed);
    let t0 = Instant::now();
    let sh: Sh = Arc::new(Mutex::new(Shared::default()));
    tr(&sh, t0, format!("scenario {sc:?}"));
    // server -> client always has room (a real transport has kernel buffers: with a tiny pipe in BOTH directions the peers deadlock writing at
    // each other, which is the simulation's artefact, not the client's); client -> server holds 3 bytes in the stalled-transport scenarios
    let (c_down, s_down) = tokio::io::duplex(1 << 16);
    let (c_up, s_up) = tokio::io::duplex(if sc.small_pipe { 3 } else { 1 << 16 });
    let (cio, sio): (End, End) = (tokio::io::join(c_down, c_up), tokio::io::join(s_up, s_down));
    let faulty = !matches!(sc.fault, Fault::None);
    let srv = tokio::spawn(server(Server { io: Some(sio), sc: sc.clone(), sh: sh.clone(), t0, cut_left: if let Fault::CutAfter(n) = sc.fault { Some(n + 14) } else { None } }));
    let conn = match &sc.password {
        None => timeout(Duration::from_secs(30), Client::connect(cio)).await.map(|r| r.map_err(|e| format!("{e}"))),
        Some((pw, _)) => timeout(Duration::from_secs(30), Client::connect_with_password(cio, pw)).await.map(|r| r.map_err(|e| format!("{e:?}"))),
    };
    let wrong_pw = sc.password.as_ref().map_or(false, |p| p.1);
    let (client, mut events) = match conn {
        Err(_) => { viol(&sh, "C08", "connect did not resolve within 30 s (virtual)".into()); let g = sh.lock().unwrap(); return (g.violations.clone(), g.trace.clone()); }
        Ok(Err(e)) => {
            tr(&sh, t0, format!("connect failed: {e}"));
            if !faulty && !wrong_pw { viol(&sh, "C18", format!("connect failed without a fault: {e}")); }
            if wrong_pw && !e.contains("IncorrectPassword") && !faulty { viol(&sh, "C18", format!("wrong password reported as {e}")); }
            sleep(Duration::from_millis(500)).await;
            if wrong_pw { let g = sh.lock().unwrap(); if g.server_lines.len() > 1 { drop(g); let l = sh.lock().unwrap().server_lines.clone(); viol(&sh, "C18", format!("client kept writing after the password was rejected: {l:?}")); } }
            srv.abort();
            let g = sh.lock().unwrap(); return (g.violations.clone(), g.trace.clone());
        }
        Ok(Ok(c)) => c,
    };
    if wrong_pw && !faulty { viol(&sh, "C18", "connect succeeded although the server rejected the password".into()); }
    // event collector
    let got_events: Arc<Mutex<Vec<String>>> = Arc::new(Mutex::new(Vec::new()));
    let ev_done = Arc::new(Mutex::new(false));
    let evt = { let g = got_events.clone(); let d = ev_done.clone(); let sh = sh.clone();
        tokio::spawn(async move {
            while let Some(e) = events.next().await {
                let s = match e { ConnectionEvent::SubsystemChange(s) => s.as_str().to_string(), ConnectionEvent::ConnectionClosed(e) => format!("<closed: {e}>") };
                tr(&sh, t0, format!("event {s}"));
                g.lock().unwrap().push(s);
            }
            *d.lock().unwrap() = true;
        }) };
    let mut tasks = Vec::new();
    for (ci, steps) in sc.callers.iter().enumerate() {
        tasks.push(tokio::spawn(caller(ci, steps.clone(), client.clone(), sh.clone(), t0, faulty)));
    }
    for t in tasks { if let Err(e) = t.await { if e.is_panic() { viol(&sh, "C01", "caller task panicked".into()); } } }
    // let the scripted notifications and the re-idle delay pass
    let last = sc.notifs.last().map_or(0, |n| n.0);
    let now_ms = Instant::now().duration_since(t0).as_millis() as u64;
    // (with a server that stalls after every reply, abandoned requests are still worked off one stall at a time after their callers have gone)
    let backlog: u64 = sc.busy_ms * (2 + sc.callers.iter().map(|c| c.len() as u64).sum::<u64>());
    sleep(Duration::from_millis(last.saturating_sub(now_ms) + 1000 + backlog)).await;
    let (closed_by_server, unclean, idling) = { let g = sh.lock().unwrap(); (g.closed_by_server, g.unclean, g.idling) };
    if !closed_by_server {
        // C05: quiet for a second -> the client must be idling again so that notifications keep flowing
        if !idling { let l = sh.lock().unwrap().server_lines.clone(); viol(&sh, "C05", format!("the connection is quiet but the client is not idling; it wrote {l:?}")); }
        if client.is_connection_closed() { viol(&sh, "C08", "client reports closed although the connection is alive".into()); }
    } else {
        if !client.is_connection_closed() { viol(&sh, "C08", "the server ended the connection but the client does not report itself closed".into()); }
        // every later request resolves
        match timeout(Duration::from_secs(30), client.raw_command(RawCommand::new("late"))).await {
            Err(_) => viol(&sh, "C08", "a request issued after the connection ended hangs".into()),
            Ok(Ok(f)) => viol(&sh, "C08", format!("a request issued after the connection ended was answered: {f:?}")),
            Ok(Err(_)) => {}
        }
    }
    drop(client);
    sleep(Duration::from_millis(1000)).await;
    if !*ev_done.lock().unwrap() { viol(&sh, "C08", "the event stream did not end after the last handle was dropped / the connection ended".into()); }
    evt.abort();
    if !closed_by_server && !sh.lock().unwrap().eof_from_client { viol(&sh, "C08", "dropping the last handle while idle did not release the transport".into()); }
    srv.abort();
    // C04 / C08 on the event log
    let got = got_events.lock().unwrap().clone();
    let (sent, caller_errs, seen) = { let g = sh.lock().unwrap(); (g.events_sent.clone(), g.protocol_errs > 0, g.requests_seen.clone()) };
    // C05: every request line the server received is one a caller issued (a write abandoned half-way and continued by the next write shows
    // up as a merged / torn line such as `qabidle`), apart from the client's own album-art requests
    {
        let issued = sh.lock().unwrap().issued.clone();
        for n in &seen {
            if !issued.contains(n) && n != "albumart" && n != "readpicture" && !sh.lock().unwrap().unclean {
                viol(&sh, "C05", format!("the server received the request line {n:?}, which no caller issued (torn or merged write)"));
            }
        }
    }
    // C01: the requests of one caller reach the server in issue order
    for ci in 0..sc.callers.len() {
        let pre = format!("q{}", letters(ci));
        let idx: Vec<u8> = seen.iter().filter(|n| n.starts_with(&pre)).map(|n| n.as_bytes()[pre.len()]).collect();
        if idx.windows(2).any(|w| w[0] > w[1]) { viol(&sh, "C01", format!("requests of caller {ci} reached the server out of order: {seen:?}")); }
    }
    let n_closed = got.iter().filter(|e| e.starts_with("<closed")).count();
    if n_closed > 1 || (n_closed == 1 && !got.last().unwrap().starts_with("<closed")) { viol(&sh, "C08", format!("closing events: {got:?}")); }
    if n_closed == 1 && !closed_by_server { viol(&sh, "C08", format!("closing event on a healthy connection: {got:?}")); }
    let changes: Vec<String> = got.iter().filter(|e| !e.starts_with("<closed")).cloned().collect();
    // a healthy connection delivers exactly the reported changes; once the server ended the connection the last replies may
    // be unread, but nothing is invented, duplicated or reordered
    let ok = if closed_by_server { changes.len() <= sent.len() && changes[..] == sent[..changes.len()] } else { changes == sent };
    if !ok {
        viol(&sh, "C04", format!("events delivered {changes:?}, changes reported by the server {sent:?}"));
    }
    // (a caller that cancelled may have been the one in flight: its error went to a dropped receiver)
    let any_cancel = sc.callers.iter().any(|c| c.iter().any(|s| s.cancel_after.is_some()));
    if unclean && n_closed == 0 && !caller_errs && !any_cancel { viol(&sh, "C08", format!("the connection failed inside a reply but neither a caller nor the event stream was told; events {got:?}")); }
    let g = sh.lock().unwrap();
    (g.violations.clone(), g.trace.clone())
}

fn run_one(seed: u64) -> (Vec<(String, String)>, Vec<String>) {
    let rt = tokio::runtime::Builder::new_current_thread().enable_time().start_paused(true).build().unwrap();
    let r = rt.block_on(scenario(seed));
    rt.shutdown_timeout(std::time::Duration::from_millis(0));
    r
}
fn js(s: &str) -> String { format!("{:?}", s) }
fn main() {
    let a: Vec<String> = std::env::args().collect();
    std::panic::set_hook(Box::new(|_| {}));
    match a.get(1).map(|s| s.as_str()) {
        Some("search") => {
            let s0: u64 = a[2].parse().unwrap(); let n: u64 = a[3].parse().unwrap();
            let mut with_req = 0; let mut with_fault = 0;
            for seed in s0..s0 + n {
                let sc = gen_scenario(seed);
                if !sc.callers.is_empty() { with_req += 1; } if !matches!(sc.fault, Fault::None) { with_fault += 1; }
                let (v, _) = run_one(seed);
                if !v.is_empty() {
                    let props: Vec<String> = { let mut p: Vec<String> = v.iter().map(|x| x.0.clone()).collect(); p.sort(); p.dedup(); p };
                    println!("{{\"seed\":{seed},\"props\":{props:?},\"why\":{}}}", js(&v.iter().map(|x| format!("[{}] {}", x.0, x.1)).collect::<Vec<_>>().join(" ;; ")));
                    std::process::exit(1);
                }
            }
            println!("{{\"cases\":{n},\"with_requests\":{with_req},\"with_fault\":{with_fault}}}");
        }
        Some("case") => {
            let seed: u64 = a[2].parse().unwrap(); let reps: usize = a.get(3).and_then(|x| x.parse().ok()).unwrap_or(5);
            for _ in 0..reps {
                let (v, t) = run_one(seed);
                if !v.is_empty() {
                    for l in &t { println!("{l}"); }
                    for (p, m) in &v { println!("VIOLATED {p}: {m}"); }
                    std::process::exit(1);
                }
            }
            println!("scenario {seed}: all properties held in {reps} runs");
        }
        _ => { eprintln!("usage: client_sim search <seed0> <n> | case <seed> [reps]"); std::process::exit(2); }
    }
}

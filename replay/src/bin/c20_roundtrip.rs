//! C20 witness: a tag's own protocol name parses back to an equal tag.
//! usage: c20_roundtrip <text>      the tag is `Tag::Other(text)`; its protocol name is what `Argument::render` writes
use mpd_client::tag::Tag;
use mpd_protocol::command::Argument;
fn main() {
    let text = std::env::args().nth(1).unwrap_or_else(|| "ALBUM".into());
    let t = Tag::Other(text.clone().into_boxed_str());
    let mut buf = bytes::BytesMut::new();
    t.render(&mut buf);
    let name = String::from_utf8(buf.to_vec()).unwrap();
    let back = Tag::try_from(name.as_str());
    println!("tag {t:?} has protocol name {name:?}; Tag::try_from({name:?}) = {back:?}");
    match back {
        Ok(b) if b == t => { println!("HOLDS: the parsed tag equals the original"); }
        Ok(b) => { println!("VIOLATED: {b:?} != {t:?} (compared by protocol name)"); std::process::exit(1); }
        Err(e) => { println!("not a valid tag text ({e}): outside the property"); }
    }
}

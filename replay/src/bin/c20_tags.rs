//! C20 (bounded stand-in; exhaustive over the finite name tables): tags and subsystems compare, hash, order and parse by protocol name.
//! For every named Tag variant, the catch-all holding its name (exact / lower / upper case), a few unknown names:
//!   == <=> equal protocol names; equal values hash alike (DefaultHasher and as HashSet/HashMap keys); cmp == cmp of the names;
//!   try_from(name in any letter case) gives the named variant; try_from(own name) == self for named variants;
//!   invalid strings are rejected with the first offending character and its byte position.
//! Subsystems: == / hash by as_str(); every named variant equals the catch-all holding its name.
use std::collections::{HashMap, HashSet, hash_map::DefaultHasher};
use std::hash::{Hash, Hasher};
use mpd_client::client::Subsystem;
use mpd_client::tag::{Tag, TagError};
use mpd_protocol::command::Argument;

fn name(t: &Tag) -> String { let mut b = bytes::BytesMut::new(); t.render(&mut b); String::from_utf8(b.to_vec()).unwrap() }
fn h<T: Hash>(t: &T) -> u64 { let mut s = DefaultHasher::new(); t.hash(&mut s); s.finish() }
fn fail(m: String) -> ! { println!("VIOLATED: {m}"); std::process::exit(1) }
fn main() {
    std::panic::set_hook(Box::new(|_| {}));
    // MPD's tag names (tag_item_names) with the variant the crate documents for each
    let table: Vec<(&str, Tag)> = vec![("Album", Tag::Album), ("AlbumArtist", Tag::AlbumArtist), ("AlbumArtistSort", Tag::AlbumArtistSort), ("AlbumSort", Tag::AlbumSort), ("Artist", Tag::Artist),
        ("ArtistSort", Tag::ArtistSort), ("Comment", Tag::Comment), ("Composer", Tag::Composer), ("ComposerSort", Tag::ComposerSort), ("Conductor", Tag::Conductor), ("Date", Tag::Date), ("Disc", Tag::Disc),
        ("Ensemble", Tag::Ensemble), ("Genre", Tag::Genre), ("Grouping", Tag::Grouping), ("Label", Tag::Label), ("Location", Tag::Location), ("Movement", Tag::Movement), ("MovementNumber", Tag::MovementNumber),
        ("MUSICBRAINZ_ARTISTID", Tag::MusicBrainzArtistId), ("MUSICBRAINZ_TRACKID", Tag::MusicBrainzRecordingId), ("MUSICBRAINZ_ALBUMARTISTID", Tag::MusicBrainzReleaseArtistId),
        ("MUSICBRAINZ_ALBUMID", Tag::MusicBrainzReleaseId), ("MUSICBRAINZ_RELEASETRACKID", Tag::MusicBrainzTrackId), ("MUSICBRAINZ_WORKID", Tag::MusicBrainzWorkId), ("Name", Tag::Name),
        ("OriginalDate", Tag::OriginalDate), ("Performer", Tag::Performer), ("Title", Tag::Title), ("Track", Tag::Track), ("Work", Tag::Work)];
    let mut all: Vec<Tag> = Vec::new();
    let mut cases = 0u64;
    for (n, t) in &table {
        if name(t) != *n { fail(format!("{t:?} has protocol name {:?}, MPD calls it {n:?}", name(t))); }
        for spelled in [n.to_string(), n.to_lowercase(), n.to_uppercase()] {
            match Tag::try_from(spelled.as_str()) { Ok(p) if p == *t && name(&p) == *n => {} other => fail(format!("Tag::try_from({spelled:?}) = {other:?}, expected {t:?}")) }
            all.push(Tag::Other(spelled.into_boxed_str())); cases += 1;
        }
        all.push(t.clone());
    }
    for u in ["Mood", "x", "any", "NewTag-1", "a_b"] { if u.chars().all(|c| c.is_ascii_alphabetic() || c == '_' || c == '-') { match Tag::try_from(u) { Ok(Tag::Other(s)) if &*s == u => {} o => fail(format!("Tag::try_from({u:?}) = {o:?}")) } } all.push(Tag::Other(u.into())); }
    for (bad, pos, chr) in [("", usize::MAX, ' '), ("a b", 1, ' '), ("caf\u{e9}", 3, '\u{e9}'), ("x:y", 1, ':'), ("tab\t", 3, '\t'), ("a1", 1, '1')] {
        match Tag::try_from(bad) { Err(TagError::Empty) if bad.is_empty() => {} Err(TagError::InvalidCharacter { chr: c, pos: p }) if !bad.is_empty() && c == chr && p == pos => {} o => fail(format!("Tag::try_from({bad:?}) = {o:?}")) }
        cases += 1;
    }
    for a in &all { for b in &all {
        let (na, nb) = (name(a), name(b));
        if (a == b) != (na == nb) { fail(format!("{a:?} == {b:?} is {} but the names are {na:?} / {nb:?}", a == b)); }
        if a.cmp(b) != na.cmp(&nb) || a.partial_cmp(b) != Some(na.cmp(&nb)) { fail(format!("{a:?}.cmp({b:?}) = {:?}, the names compare {:?}", a.cmp(b), na.cmp(&nb))); }
        if na == nb && h(a) != h(b) { fail(format!("{a:?} and {b:?} are equal but hash differently")); }
        if (*a == nb.as_str()) != (na == nb) { fail(format!("{a:?} == {nb:?} (str) is wrong")); }
        cases += 1;
    } }
    let set: HashSet<Tag> = all.iter().cloned().collect();
    let names: HashSet<String> = all.iter().map(name).collect();
    if set.len() != names.len() { fail(format!("a HashSet of all tags has {} elements for {} distinct names", set.len(), names.len())); }
    let map: HashMap<Tag, usize> = table.iter().enumerate().map(|(i, (_, t))| (t.clone(), i)).collect();
    for (i, (n, _)) in table.iter().enumerate() { if map.get(&Tag::Other((*n).into())) != Some(&i) { fail(format!("HashMap lookup with the catch-all {n:?} misses the named key")); } }
    // subsystems (MPD idle_names)
    let subs: Vec<(&str, Subsystem)> = vec![("database", Subsystem::Database), ("message", Subsystem::Message), ("mixer", Subsystem::Mixer), ("options", Subsystem::Options), ("output", Subsystem::Output),
        ("partition", Subsystem::Partition), ("player", Subsystem::Player), ("playlist", Subsystem::Queue), ("sticker", Subsystem::Sticker), ("stored_playlist", Subsystem::StoredPlaylist),
        ("subscription", Subsystem::Subscription), ("update", Subsystem::Update), ("neighbor", Subsystem::Neighbor), ("mount", Subsystem::Mount)];
    let mut alls: Vec<Subsystem> = Vec::new();
    for (n, s) in &subs { if s.as_str() != *n { fail(format!("{s:?}.as_str() = {:?}, MPD calls it {n:?}", s.as_str())); } alls.push(s.clone()); alls.push(Subsystem::Other((*n).into())); alls.push(Subsystem::Other(n.to_uppercase().into())); }
    alls.push(Subsystem::Other("future".into()));
    for a in &alls { for b in &alls {
        if (a == b) != (a.as_str() == b.as_str()) { fail(format!("{a:?} == {b:?} is {}", a == b)); }
        if a.as_str() == b.as_str() && h(a) != h(b) { fail(format!("{a:?} and {b:?} are equal but hash differently")); }
        cases += 1;
    } }
    println!("{{\"cases\":{cases}}}");
}

//! C04 (cancel safety): an idle reply arrives in two reads ("changed: player\n" | "OK\n") and a request is issued in
//! between. The lines already received belong to the idle reply and must still become events.
use mpd_client::client::{ConnectionEvent, Subsystem};
use mpd_client::commands::Status;
use std::time::Duration;
use vx_replay::*;
#[tokio::main(flavor = "current_thread")]
async fn main() {
    let io = tokio_test::io::Builder::new()
        .read(b"OK MPD 0.23.5\n").write(b"idle\n")
        .read(b"changed: player\n")            // first half of the idle reply
        .write(b"noidle\n")                     // the client cancels idle because a request arrived
        .read(b"OK\n")                          // second half of the idle reply
        .write(b"status\n").read(b"volume: 1\nstate: stop\nrepeat: 0\nrandom: 0\nsingle: 0\nconsume: 0\nplaylist: 1\nplaylistlength: 0\nOK\n")
        .write(b"idle\n")
        .build();
    let (client, mut events) = mpd_client::Client::connect(io).await.expect("connect");
    tokio::time::sleep(Duration::from_millis(30)).await;       // let the run loop consume the first half
    let st = client.command(Status).await;
    println!("status reply: {:?}", st.as_ref().map(|s| s.volume).map_err(|e| e.to_string()));
    tokio::time::sleep(Duration::from_millis(150)).await;
    drop(client);
    let mut got = vec![];
    while let Ok(Some(e)) = tokio::time::timeout(Duration::from_millis(200), events.next()).await {
        match e { ConnectionEvent::SubsystemChange(s) => got.push(Subsystem::as_str(&s).to_string()), ConnectionEvent::ConnectionClosed(_) => break }
    }
    println!("events delivered: {got:?}   events reported by the server: [\"player\"]");
    verdict(got == vec!["player".to_string()], "a change reported in an idle reply is delivered even when a request is issued while the reply is half received");
}

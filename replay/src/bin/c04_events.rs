//! C04: every `changed:` line of an idle reply must become one event, in order.
//! usage: c04_events [hex of idle reply lines without the final OK]   (default: changed: player / changed: mixer)
use mpd_client::client::{ConnectionEvent, Subsystem};
use vx_replay::*;
#[tokio::main(flavor = "current_thread")]
async fn main() {
    let a: Vec<String> = std::env::args().collect();
    let body = if a.len() > 1 { unhex(&a[1]) } else { b"changed: player\nchanged: mixer\n".to_vec() };
    let want: Vec<String> = String::from_utf8_lossy(&body).lines().filter_map(|l| l.strip_prefix("changed: ").map(|s| s.to_string())).collect();
    let mut reply = body.clone(); reply.extend_from_slice(b"OK\n");
    let io = tokio_test::io::Builder::new().read(b"OK MPD 0.23.5\n").write(b"idle\n").read(&reply).write(b"idle\n").build();
    let (client, mut events) = mpd_client::Client::connect(io).await.expect("connect");
    let mut got = vec![];
    while let Some(e) = events.next().await {
        match e { ConnectionEvent::SubsystemChange(s) => got.push(Subsystem::as_str(&s).to_string()), ConnectionEvent::ConnectionClosed(_) => break }
    }
    drop(client);
    println!("idle reply: {:?}\nevents delivered: {got:?}\nevents reported by the server: {want:?}", String::from_utf8_lossy(&reply));
    verdict(got == want, "every subsystem change the server reported is delivered exactly once, in order");
}

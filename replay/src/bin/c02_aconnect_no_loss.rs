//! C02 (async flavour): same stream, greeting and first response in one read vs. two.
use mpd_protocol::AsyncConnection;
use vx_replay::*;
async fn run(chunks: &[&[u8]]) -> String {
    let mut b = tokio_test::io::Builder::new();
    for c in chunks { b.read(c); }
    let io = b.build();
    let mut c = match AsyncConnection::connect(io).await { Ok(c) => c, Err(e) => return format!("connect: {e}") };
    format!("{:?}", c.receive().await.map_err(|e| e.to_string()))
}
#[tokio::main(flavor = "current_thread")]
async fn main() {
    let one = run(&[b"OK MPD 0.23.5\nfoo: bar\nOK\n"]).await;
    let two = run(&[b"OK MPD 0.23.5\n", b"foo: bar\nOK\n"]).await;
    println!("one read : {one}\ntwo reads: {two}");
    verdict(one == two, "async connect+receive independent of segmentation at the greeting boundary");
}

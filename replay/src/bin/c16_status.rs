//! C16: the status decoder must carry the values MPD sends under MPD's field names (protocol reference, `status`):
//! `updating_db: <job id>` and, for servers older than 0.20, the total time in `time: <elapsed>:<total>`.
//! usage: c16_status update_job | legacy_time
use mpd_client::commands::{Command, Status};
use vx_replay::*;
fn status(reply: &[u8]) -> mpd_client::responses::Status {
    let mut wire = b"OK MPD 0.23.5\n".to_vec(); wire.extend_from_slice(reply);
    let mut conn = mpd_protocol::Connection::connect(Chunks::new(&[&wire])).unwrap();
    Status.response(conn.receive().unwrap().unwrap().into_single_frame().unwrap()).expect("status decodes")
}
fn main() {
    let which = std::env::args().nth(1).unwrap_or_else(|| "update_job".into());
    let base = "volume: 50\nrepeat: 0\nrandom: 0\nsingle: 0\nconsume: 0\nplaylist: 2\nplaylistlength: 1\nstate: play\nsong: 0\nsongid: 1\n";
    if which == "update_job" {
        let s = status(format!("{base}updating_db: 7\nOK\n").as_bytes());
        println!("reply has 'updating_db: 7'; decoded update_job = {:?}", s.update_job);
        verdict(s.update_job == Some(7), "Status.update_job carries the value of MPD's updating_db field");
    } else {
        let s = status(format!("{base}time: 12:345\nOK\n").as_bytes());
        println!("reply has 'time: 12:345' and no 'duration'; decoded duration = {:?}", s.duration);
        verdict(s.duration == Some(std::time::Duration::from_secs(345)), "Status.duration falls back to the total of the pre-0.20 'time: elapsed:total' field");
    }
}

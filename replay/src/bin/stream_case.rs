//! Replay one byte stream (hex, including the greeting) with one segmentation (comma separated cut offsets, or "-")
//! against the REAL blocking and async connections and compare with the oracle (verified reference parser + fold).
//! exit 0 = all agree with the oracle; exit 1 = the real code deviates (C02/C03/C09/C10/C18 violated for this input).
use vx_replay::*;
fn main() {
    let a: Vec<String> = std::env::args().collect();
    let stream = unhex(&a[1]);
    let cuts: Vec<usize> = if a.len() > 2 && a[2] != "-" { a[2].split(',').filter(|x| !x.is_empty()).map(|x| x.parse().unwrap()).collect() } else { vec![] };
    std::panic::set_hook(Box::new(|_| {}));
    let expect = ref_outcomes(&stream);
    let n = expect.len() + 2;
    let b = real_blocking(&stream, &cuts, n);
    let y = real_async(&stream, &cuts, n);
    println!("stream   : {:?}", String::from_utf8_lossy(&stream));
    println!("cuts     : {:?}", cuts);
    println!("oracle   : {:?}", expect);
    println!("blocking : {:?}", b);
    println!("async    : {:?}", y);
    let ok = b.as_ref() == Ok(&expect) && y.as_ref() == Ok(&expect);
    verdict(ok, "blocking and async results equal the oracle for this stream and segmentation");
}

//! C11: a filter built on the client, sent as the argument of `find`, run through ports of MPD's request tokenizer and
//! filter-expression parser, must be the tree that was built (same tags, operators, nesting up to AND-associativity, byte-identical values).
//!   c11_filter case <hex value>        the filter (Artist == value)
//!   c11_filter search <seed> <n>       random trees x values (quotes of both kinds, backslashes, parentheses, AND, blanks, empty, non-ASCII)
use mpd_client::commands::{Command, Find};
use mpd_client::filter::{Filter, Operator};
use mpd_client::tag::Tag;
use vx_replay::{*, mpdfilter::{T, parse_filter}, mpdtok::mpd_tokenize};

struct Rng(u64);
impl Rng { fn next(&mut self) -> u64 { self.0 ^= self.0 << 13; self.0 ^= self.0 >> 7; self.0 ^= self.0 << 17; self.0 } fn below(&mut self, n: usize) -> usize { (self.next() % n.max(1) as u64) as usize } }
const VALS: [&str; 20] = ["foo", "", "a b", "Joe's", "x\"y", "a\\b", "\\", "\"", "(a)", "a AND b", " lead", "caf\u{e9}", "a\\\"b", "tab\there", "!", "''", "Mot\u{f6}rhead\\Live", "^Beyonc\u{e9}\\.$", "\u{65e5}\u{672c}\\", "\u{fc}\"x"];
/// a value: one of the fixed strings, or (half of the time) a random string of up to 7 characters over an alphabet in which the
/// characters the two unescaping layers care about are frequent, so that runs of adjacent backslashes / quotes occur
const ALPHA: [char; 10] = ['a', 'b', ' ', '\\', '\\', '"', '\'', '(', ')', '\u{e9}'];
fn gen_value(r: &mut Rng) -> String {
    if r.below(2) == 0 { return VALS[r.below(VALS.len())].to_string(); }
    let n = r.below(8); (0..n).map(|_| ALPHA[r.below(ALPHA.len())]).collect()
}
const TAGS: [(&str, fn() -> Tag); 4] = [("Artist", || Tag::Artist), ("Album", || Tag::Album), ("MUSICBRAINZ_TRACKID", || Tag::MusicBrainzRecordingId), ("any", || Tag::any())];
const OPS: [(&str, Operator); 5] = [("==", Operator::Equal), ("!=", Operator::NotEqual), ("contains", Operator::Contain), ("=~", Operator::Match), ("!~", Operator::NotMatch)];
/// a random filter together with the tree it means (AND flattened: nesting up to associativity)
fn gen_filter(r: &mut Rng, depth: usize) -> (Filter, T) {
    match if depth == 0 { 0 } else { r.below(4) } {
        0 | 1 => {
            let (tn, tf) = TAGS[r.below(TAGS.len())]; let v = gen_value(r); let v = v.as_str();
            match r.below(4) {
                0 => (Filter::tag(tf(), v.to_string()), T::Tag(tn.into(), "==".into(), v.as_bytes().to_vec())),
                1 => (Filter::tag_exists(tf()), T::Tag(tn.into(), "!=".into(), vec![])),
                2 => (Filter::tag_absent(tf()), T::Tag(tn.into(), "==".into(), vec![])),
                _ => { let (on, o) = OPS[r.below(OPS.len())]; (Filter::new(tf(), o, v.to_string()), T::Tag(tn.into(), on.into(), v.as_bytes().to_vec())) }
            }
        }
        2 => { let (f, t) = gen_filter(r, depth - 1); (if r.below(2) == 0 { f.negate() } else { !f }, T::Not(Box::new(t))) }
        _ => {
            let (a, ta) = gen_filter(r, depth - 1); let (b, tb) = gen_filter(r, depth - 1);
            let kids = |t: T| match t { T::And(xs) => xs, x => vec![x] };
            let mut xs = kids(ta); xs.extend(kids(tb));
            (a.and(b), T::And(xs))
        }
    }
}
fn check(f: Filter, want: &T) -> Result<(), String> {
    let wire = wire_of_command(Find::new(f).command());
    let line = &wire[..wire.len() - 1];
    let (name, args) = mpd_tokenize(line).map_err(|e| format!("MPD's tokenizer rejects the line {:?}: {e}", String::from_utf8_lossy(line)))?;
    if name != b"find" || args.len() != 1 { return Err(format!("the line {:?} tokenizes to {} arguments", String::from_utf8_lossy(line), args.len())); }
    let got = parse_filter(&args[0]).map_err(|e| format!("MPD's filter parser rejects {:?} (from line {:?}): {e}", String::from_utf8_lossy(&args[0]), String::from_utf8_lossy(line)))?;
    if &got != want { return Err(format!("line {:?}: the server understands {got:?}, the client built {want:?}", String::from_utf8_lossy(line))); }
    Ok(())
}
fn main() {
    let a: Vec<String> = std::env::args().collect();
    std::panic::set_hook(Box::new(|_| {}));
    match a.get(1).map(|s| s.as_str()) {
        Some("case") => {
            let v = String::from_utf8(unhex(&a[2])).unwrap();
            println!("filter (Artist == {v:?})");
            match check(Filter::tag(Tag::Artist, v.clone()), &T::Tag("Artist".into(), "==".into(), v.into_bytes())) { Ok(()) => println!("HOLDS: the server reads back the same expression"), Err(e) => { println!("VIOLATED: {e}"); std::process::exit(1); } }
        }
        Some("search") => {
            let seed: u64 = a[2].parse().unwrap(); let n: usize = a[3].parse().unwrap();
            let skip: Vec<char> = std::env::var("VX_SKIP_CHARS").unwrap_or_default().chars().collect();
            let mut r = Rng(seed.wrapping_mul(0x9E3779B97F4A7C15) | 1);
            let mut done = 0;
            for case in 0..n {
                let (f, t) = gen_filter(&mut r, 3);
                // value classes listed as known findings are left to their witnesses
                fn has(t: &T, cs: &[char]) -> bool { match t { T::Tag(_, _, v) => String::from_utf8_lossy(v).chars().any(|c| cs.contains(&c)), T::Not(x) => has(x, cs), T::And(xs) => xs.iter().any(|x| has(x, cs)) } }
                if has(&t, &skip) { continue; }
                done += 1;
                let shown = format!("{t:?}");
                let res = std::panic::catch_unwind(std::panic::AssertUnwindSafe(|| check(f, &t)));
                let why = match res { Ok(Ok(())) => continue, Ok(Err(e)) => e, Err(_) => "panic while rendering".into() };
                println!("{{\"case\":{case},\"seed\":{seed},\"tree\":{:?},\"why\":{:?}}}", shown, why);
                std::process::exit(1);
            }
            println!("{{\"cases\":{done}}}");
        }
        _ => { eprintln!("usage: c11_filter case <hex value> | search <seed> <n>"); std::process::exit(2); }
    }
}

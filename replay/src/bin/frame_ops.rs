//! Bounded differential check of Frame as an ordered multimap (C19): every frame of <= 4 fields over the keys {a, A, b}
//! (a case variant included) x every sequence of <= 3 `get` operations over those keys, against a Vec model; after
//! every operation `find` for every key, forward / backward / owned iteration, `fields_len`, `is_empty` are compared.
//! Frames are obtained through the public API (parsed from wire bytes by the real connection).
//! Prints the first deviating case as JSON and exits 1; exits 0 if none.   usage: frame_ops [case <fieldkeys> <ops>]
use vx_replay::*;
const KEYS: [&str; 3] = ["a", "A", "b"];
fn frame_of(keys: &[usize]) -> mpd_protocol::response::Frame {
    let mut wire = b"OK MPD 0.23.5\n".to_vec();
    for (i, k) in keys.iter().enumerate() { wire.extend(format!("{}: v{}\n", KEYS[*k], i).as_bytes()); }
    wire.extend(b"OK\n");
    let mut c = mpd_protocol::Connection::connect(Chunks::new(&[&wire])).unwrap();
    c.receive().unwrap().unwrap().into_single_frame().unwrap()
}
fn check_state(f: &mpd_protocol::response::Frame, model: &[(String, String)]) -> Option<String> {
    let fwd: Vec<(String, String)> = f.fields().map(|(k, v)| (k.to_string(), v.to_string())).collect();
    if fwd != model { return Some(format!("fields() yields {fwd:?}, model {model:?}")); }
    let mut bwd: Vec<(String, String)> = f.fields().rev().map(|(k, v)| (k.to_string(), v.to_string())).collect(); bwd.reverse();
    if bwd != model { return Some(format!("fields().rev() yields (reversed back) {bwd:?}, model {model:?}")); }
    let refi: Vec<(String, String)> = (&*f).into_iter().map(|(k, v)| (k.to_string(), v.to_string())).collect();
    if refi != model { return Some(format!("(&frame).into_iter() yields {refi:?}")); }
    if f.fields_len() != model.len() { return Some(format!("fields_len {} != {}", f.fields_len(), model.len())); }
    if f.is_empty() != model.is_empty() { return Some(format!("is_empty {} but model has {} fields", f.is_empty(), model.len())); }
    for k in KEYS { let want = model.iter().find(|(mk, _)| mk == k).map(|(_, v)| v.as_str()); if f.find(k) != want { return Some(format!("find({k:?}) = {:?}, model {want:?}", f.find(k))); } }
    // mixed-direction iteration
    let mut it = f.fields(); let mut lo = 0usize; let mut hi = model.len(); let mut turn = true;
    loop { let x = if turn { it.next() } else { it.next_back() };
        let want = if lo < hi { if turn { lo += 1; Some(&model[lo - 1]) } else { hi -= 1; Some(&model[hi]) } } else { None };
        if x.map(|(k, v)| (k.to_string(), v.to_string())) != want.cloned() { return Some(format!("mixed next/next_back deviates at lo={lo} hi={hi}")); }
        if want.is_none() { break; } turn = !turn; }
    let owned: Vec<(String, String)> = f.clone().into_iter().map(|(k, v)| (k.to_string(), v)).collect();
    if owned != model { return Some(format!("frame.into_iter() yields {owned:?}")); }
    let mut ob: Vec<(String, String)> = f.clone().into_iter().rev().map(|(k, v)| (k.to_string(), v)).collect(); ob.reverse();
    if ob != model { return Some(format!("frame.into_iter().rev() yields {ob:?}")); }
    None
}
fn run_case(keys: &[usize], ops: &[usize]) -> Option<String> {
    let mut f = frame_of(keys);
    let mut model: Vec<(String, String)> = keys.iter().enumerate().map(|(i, k)| (KEYS[*k].to_string(), format!("v{i}"))).collect();
    if let Some(e) = check_state(&f, &model) { return Some(format!("initially: {e}")); }
    for (n, op) in ops.iter().enumerate() {
        let k = KEYS[*op];
        let want = model.iter().position(|(mk, _)| mk == k).map(|i| model.remove(i).1);
        let got = f.get(k);
        if got != want { return Some(format!("op {n}: get({k:?}) = {got:?}, model {want:?}")); }
        if let Some(e) = check_state(&f, &model) { return Some(format!("after op {n} get({k:?}): {e}")); }
    }
    None
}
fn digits(s: &str) -> Vec<usize> { s.chars().filter(|c| c.is_ascii_digit()).map(|c| c as usize - '0' as usize).collect() }
fn main() {
    let a: Vec<String> = std::env::args().collect();
    std::panic::set_hook(Box::new(|_| {}));
    if a.get(1).map(|s| s.as_str()) == Some("case") {
        let r = std::panic::catch_unwind(|| run_case(&digits(&a[2]), &digits(a.get(3).map(|s| s.as_str()).unwrap_or(""))));
        println!("fields {:?} ops(get) {:?}\nresult: {r:?}", a[2], a.get(3));
        verdict(matches!(r, Ok(None)), "Frame behaves as the ordered multimap model");
    }
    let mut cases = 0u64;
    for n in 0..=4usize { for code in 0..3usize.pow(n as u32) {
        let keys: Vec<usize> = (0..n).map(|i| (code / 3usize.pow(i as u32)) % 3).collect();
        for m in 0..=3usize { for oc in 0..3usize.pow(m as u32) {
            let ops: Vec<usize> = (0..m).map(|i| (oc / 3usize.pow(i as u32)) % 3).collect();
            cases += 1;
            let r = std::panic::catch_unwind(|| run_case(&keys, &ops));
            let bad = match r { Ok(None) => None, Ok(Some(e)) => Some(e), Err(_) => Some("PANIC".to_string()) };
            if let Some(why) = bad {
                println!("{{\"fields\":\"k{}\",\"ops\":\"o{}\",\"why\":{:?}}}", keys.iter().map(|k| k.to_string()).collect::<String>(), ops.iter().map(|k| k.to_string()).collect::<String>(), why);
                std::process::exit(1);
            }
        } }
    } }
    println!("{{\"cases\":{},\"deviations\":0}}", cases);
}

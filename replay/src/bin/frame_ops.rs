//! Bounded differential check of Frame as an ordered multimap (C19): every frame of <= 4 fields over the keys {a, A, b}
//! (a case variant included) x every sequence of <= 3 `get` operations over those keys, against a Vec model; after
//! every operation `find` for every key, forward / backward / owned iteration, `fields_len`, `is_empty` are compared.
//! Then every response of <= 4 frames with / without a trailing error: borrowed and owned frame iteration (forward, backward, every
//! front/back split), counts, flags, into_single_frame against the model `frames in order, then the error`.
//! Frames are obtained through the public API (parsed from wire bytes by the real connection).
//! Prints the first deviating case as JSON and exits 1; exits 0 if none.   usage: frame_ops [case <fieldkeys> <ops>]
use vx_replay::*;
const KEYS: [&str; 3] = ["a", "A", "b"];
fn frame_of(keys: &[usize]) -> mpd_protocol::response::Frame {
    let mut wire = b"OK MPD 0.23.5\n".to_vec();
    for (i, k) in keys.iter().enumerate() { wire.extend(format!("{}: v{}\n", KEYS[*k], i).as_bytes()); }
    wire.extend(b"OK\n");
    let mut c = mpd_protocol::Connection::connect(Chunks::new(&[&wire])).unwrap();
    c.receive().unwrap().unwrap().into_single_frame().unwrap()
}
fn check_state(f: &mpd_protocol::response::Frame, model: &[(String, String)]) -> Option<String> {
    let fwd: Vec<(String, String)> = f.fields().map(|(k, v)| (k.to_string(), v.to_string())).collect();
    if fwd != model { return Some(format!("fields() yields {fwd:?}, model {model:?}")); }
    let mut bwd: Vec<(String, String)> = f.fields().rev().map(|(k, v)| (k.to_string(), v.to_string())).collect(); bwd.reverse();
    if bwd != model { return Some(format!("fields().rev() yields (reversed back) {bwd:?}, model {model:?}")); }
    let refi: Vec<(String, String)> = (&*f).into_iter().map(|(k, v)| (k.to_string(), v.to_string())).collect();
    if refi != model { return Some(format!("(&frame).into_iter() yields {refi:?}")); }
    if f.fields_len() != model.len() { return Some(format!("fields_len {} != {}", f.fields_len(), model.len())); }
    if f.is_empty() != model.is_empty() { return Some(format!("is_empty {} but model has {} fields", f.is_empty(), model.len())); }
    for k in KEYS { let want = model.iter().find(|(mk, _)| mk == k).map(|(_, v)| v.as_str()); if f.find(k) != want { return Some(format!("find({k:?}) = {:?}, model {want:?}", f.find(k))); } }
    // mixed-direction iteration
    let mut it = f.fields(); let mut lo = 0usize; let mut hi = model.len(); let mut turn = true;
    loop { let x = if turn { it.next() } else { it.next_back() };
        let want = if lo < hi { if turn { lo += 1; Some(&model[lo - 1]) } else { hi -= 1; Some(&model[hi]) } } else { None };
        if x.map(|(k, v)| (k.to_string(), v.to_string())) != want.cloned() { return Some(format!("mixed next/next_back deviates at lo={lo} hi={hi}")); }
        if want.is_none() { break; } turn = !turn; }
    let owned: Vec<(String, String)> = f.clone().into_iter().map(|(k, v)| (k.to_string(), v)).collect();
    if owned != model { return Some(format!("frame.into_iter() yields {owned:?}")); }
    let mut ob: Vec<(String, String)> = f.clone().into_iter().rev().map(|(k, v)| (k.to_string(), v)).collect(); ob.reverse();
    if ob != model { return Some(format!("frame.into_iter().rev() yields {ob:?}")); }
    None
}
fn run_case(keys: &[usize], ops: &[usize]) -> Option<String> {
    let mut f = frame_of(keys);
    let mut model: Vec<(String, String)> = keys.iter().enumerate().map(|(i, k)| (KEYS[*k].to_string(), format!("v{i}"))).collect();
    if let Some(e) = check_state(&f, &model) { return Some(format!("initially: {e}")); }
    for (n, op) in ops.iter().enumerate() {
        let k = KEYS[*op];
        let want = model.iter().position(|(mk, _)| mk == k).map(|i| model.remove(i).1);
        let got = f.get(k);
        if got != want { return Some(format!("op {n}: get({k:?}) = {got:?}, model {want:?}")); }
        if let Some(e) = check_state(&f, &model) { return Some(format!("after op {n} get({k:?}): {e}")); }
    }
    None
}
/// a response of `n` frames (frame j holds the single field `f: j`), followed by an ACK if `err`
fn response_of(n: usize, err: bool) -> mpd_protocol::response::Response {
    let mut wire = b"OK MPD 0.23.5\n".to_vec();
    for j in 0..n { wire.extend(format!("f: {j}\nlist_OK\n").as_bytes()); }
    if err { wire.extend(format!("ACK [5@{n}] {{x}} boom\n").as_bytes()); } else { wire.extend(b"OK\n"); }
    let mut c = mpd_protocol::Connection::connect(Chunks::new(&[&wire])).unwrap();
    c.receive().unwrap().unwrap()
}
/// Response as "all frames in order, then at most one error": borrowed and owned iteration, forward / backward / mixed with
/// every split point, counts and flags
fn run_resp_case(n: usize, err: bool) -> Option<String> {
    let r = response_of(n, err);
    let model: Vec<String> = (0..n).map(|j| format!("F{j}")).chain(if err { Some("E5".to_string()) } else { None }).collect();
    let show_ref = |x: Result<&mpd_protocol::response::Frame, &mpd_protocol::response::Error>| match x { Ok(f) => format!("F{}", f.find("f").unwrap_or("?")), Err(e) => format!("E{}", e.code) };
    let show_own = |x: Result<mpd_protocol::response::Frame, mpd_protocol::response::Error>| match x { Ok(f) => format!("F{}", f.find("f").unwrap_or("?")), Err(e) => format!("E{}", e.code) };
    if r.is_error() != err || r.is_success() == err { return Some(format!("is_error {} is_success {} but error present: {err}", r.is_error(), r.is_success())); }
    if r.successful_frames() != n { return Some(format!("successful_frames {} != {n}", r.successful_frames())); }
    let fwd: Vec<String> = r.frames().map(show_ref).collect();
    if fwd != model { return Some(format!("frames() yields {fwd:?}, model {model:?}")); }
    let mut bwd: Vec<String> = r.frames().rev().map(show_ref).collect(); bwd.reverse();
    if bwd != model { return Some(format!("frames().rev() yields (reversed back) {bwd:?}, model {model:?}")); }
    if r.frames().len() != model.len() { return Some(format!("frames().len() {} != {}", r.frames().len(), model.len())); }
    let refi: Vec<String> = (&r).into_iter().map(show_ref).collect();
    if refi != model { return Some(format!("(&response).into_iter() yields {refi:?}, model {model:?}")); }
    for front in 0..=model.len() {
        // `front` items from the front, the rest from the back
        let mut it = r.frames(); let mut got = Vec::new();
        for _ in 0..front { got.push(it.next().map(show_ref)); }
        let mut back = Vec::new();
        loop { let x = it.next_back().map(show_ref); if x.is_none() { break; } back.push(x); if back.len() > model.len() + 1 { break; } }
        back.reverse(); got.extend(back);
        let want: Vec<Option<String>> = model.iter().cloned().map(Some).collect();
        if got != want { return Some(format!("frames(): {front} from the front then the rest from the back yields {got:?}, model {model:?}")); }
        if it.next().is_some() || it.next_back().is_some() { return Some("frames() yields an item after exhaustion".to_string()); }
        let mut it = r.clone().into_iter(); let mut got = Vec::new();
        for _ in 0..front { got.push(it.next().map(show_own)); }
        let mut back = Vec::new();
        loop { let x = it.next_back().map(show_own); if x.is_none() { break; } back.push(x); if back.len() > model.len() + 1 { break; } }
        back.reverse(); got.extend(back);
        if got != want { return Some(format!("response.into_iter(): {front} from the front then the rest from the back yields {got:?}, model {model:?}")); }
        if it.next().is_some() || it.next_back().is_some() { return Some("response.into_iter() yields an item after exhaustion".to_string()); }
    }
    let own: Vec<String> = r.clone().into_iter().map(show_own).collect();
    if own != model { return Some(format!("response.into_iter() yields {own:?}, model {model:?}")); }
    if n + (err as usize) >= 1 {
        let single = show_own(r.clone().into_single_frame());
        if single != model[0] { return Some(format!("into_single_frame yields {single}, model {}", model[0])); }
    }
    None
}
fn digits(s: &str) -> Vec<usize> { s.chars().filter(|c| c.is_ascii_digit()).map(|c| c as usize - '0' as usize).collect() }
fn main() {
    let a: Vec<String> = std::env::args().collect();
    std::panic::set_hook(Box::new(|_| {}));
    if a.get(1).map(|s| s.as_str()) == Some("case") && a.get(2).map(|s| s.starts_with('r')) == Some(true) {
        let d = digits(&a[2]);
        let r = std::panic::catch_unwind(|| run_resp_case(d[0], d[1] == 1));
        println!("response of {} frame(s), error: {}\nresult: {r:?}", d[0], d[1] == 1);
        verdict(matches!(r, Ok(None)), "Response behaves as the sequence `frames in order, then at most one error`");
    }
    if a.get(1).map(|s| s.as_str()) == Some("case") {
        let r = std::panic::catch_unwind(|| run_case(&digits(&a[2]), &digits(a.get(3).map(|s| s.as_str()).unwrap_or(""))));
        println!("fields {:?} ops(get) {:?}\nresult: {r:?}", a[2], a.get(3));
        verdict(matches!(r, Ok(None)), "Frame behaves as the ordered multimap model");
    }
    let mut cases = 0u64;
    for n in 0..=4usize { for code in 0..3usize.pow(n as u32) {
        let keys: Vec<usize> = (0..n).map(|i| (code / 3usize.pow(i as u32)) % 3).collect();
        for m in 0..=3usize { for oc in 0..3usize.pow(m as u32) {
            let ops: Vec<usize> = (0..m).map(|i| (oc / 3usize.pow(i as u32)) % 3).collect();
            cases += 1;
            let r = std::panic::catch_unwind(|| run_case(&keys, &ops));
            let bad = match r { Ok(None) => None, Ok(Some(e)) => Some(e), Err(_) => Some("PANIC".to_string()) };
            if let Some(why) = bad {
                println!("{{\"fields\":\"k{}\",\"ops\":\"o{}\",\"why\":{:?}}}", keys.iter().map(|k| k.to_string()).collect::<String>(), ops.iter().map(|k| k.to_string()).collect::<String>(), why);
                std::process::exit(1);
            }
        } }
    } }
    for n in 0..=4usize { for e in 0..2usize {
        if n == 0 && e == 0 { continue; }   // an empty response is not produced by the receiver (C01)
        cases += 1;
        let r = std::panic::catch_unwind(|| run_resp_case(n, e == 1));
        let bad = match r { Ok(None) => None, Ok(Some(e)) => Some(e), Err(_) => Some("PANIC".to_string()) };
        if let Some(why) = bad { println!("{{\"fields\":\"r{n}e{e}\",\"ops\":\"o\",\"why\":{:?}}}", why); std::process::exit(1); }
    } }
    println!("{{\"cases\":{},\"deviations\":0}}", cases);
}

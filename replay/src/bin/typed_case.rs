//! Typed response conversion on server replies obtained by pushing wire bytes through the REAL parser (C12 C14 C16):
//!   typed_case case <kind> <hex reply>     one reply through one predefined command's `response()`, under catch_unwind;
//!                                          exit 1 on a panic
//!   typed_case fuzz <seed> <n>             n random replies (field names from MPD's vocabulary + junk, values numeric /
//!                                          huge / negative / junk, random frame counts) through every kind; first panic
//!                                          printed as JSON, exit 1
use mpd_client::commands::{self as c, Command, CommandList};
use mpd_client::filter::Filter;
use mpd_client::tag::Tag;
use mpd_protocol::response::{Frame, Response};
use vx_replay::*;

fn parse(reply: &[u8]) -> Option<Response> {
    let mut wire = b"OK MPD 0.23.5\n".to_vec(); wire.extend_from_slice(reply);
    let mut conn = mpd_protocol::Connection::connect(Chunks::new(&[&wire])).ok()?;
    conn.receive().ok()?
}
fn frames(r: Response) -> Vec<Frame> { r.into_iter().filter_map(|f| f.ok()).collect() }
fn touch<T: std::fmt::Debug>(v: T) { let _ = format!("{:?}", v); }

pub const KINDS: [&str; 22] = ["status", "stats", "currentsong", "queue", "playlistinfo_range", "find", "listplaylistinfo", "listallinfo", "list", "list_group1", "list_group2",
    "count", "count_group", "listplaylists", "sticker_get", "sticker_list", "sticker_find", "readmessages", "channels", "tagtypes", "replay_gain_status", "albumart"];

fn run_kind(kind: &str, resp: Response) {
    let mut fs = frames(resp);
    let first = || -> Option<Frame> { None };
    let _ = first;
    if kind == "cmdlist_tuple" { let r = (c::Status, c::Stats).responses(fs); touch(r.map(|_| ()).map_err(|e| e.to_string())); return; }
    if kind == "cmdlist_vec" { let r = vec![c::Status, c::Status, c::Status].responses(fs); touch(r.map(|v| v.len()).map_err(|e| e.to_string())); return; }
    if fs.is_empty() { return; }
    let f = fs.remove(0);
    match kind {
        "status" => touch(c::Status.response(f)),
        "stats" => touch(c::Stats.response(f)),
        "currentsong" => { if let Ok(Some(s)) = c::CurrentSong.response(f) { touch((s.song.title().map(|x| x.to_string()), s.song.artists().len(), s.song.album().map(|x| x.to_string()), s.song.number(), s.song.file_path().to_owned())); touch(s); } }
        "queue" => { if let Ok(v) = c::Queue.response(f) { for s in &v { touch((s.song.title().map(|x| x.to_string()), s.song.album_artists().len())); } touch(v); } }
        "playlistinfo_range" => touch(c::Queue::range(..).response(f)),
        "find" => touch(c::Find::new(Filter::tag(Tag::Artist, "x")).response(f)),
        "listplaylistinfo" => touch(c::GetPlaylist("p").response(f)),
        "listallinfo" => touch(c::ListAllIn::root().response(f)),
        "list" => { if let Ok(l) = c::List::new(Tag::Album).response(f) { touch(l.values().collect::<Vec<_>>()); touch(l.values().rev().count()); touch(l.clone().into_iter().collect::<Vec<_>>()); touch(l.into_raw_values()); } }
        "list_group1" => { if let Ok(l) = c::List::new(Tag::Title).group_by([Tag::Album]).response(f) { touch(l.grouped_values().collect::<Vec<_>>()); touch(l.grouped_by().len()); } }
        "list_group2" => { if let Ok(l) = c::List::new(Tag::Title).group_by([Tag::Album, Tag::Artist]).response(f) { touch(l.grouped_values().collect::<Vec<_>>()); } }
        "count" => touch(c::Count::new(Filter::tag(Tag::Artist, "x")).response(f)),
        "count_group" => touch(c::Count::new(Filter::tag(Tag::Artist, "x")).group_by(Tag::Album).response(f)),
        "listplaylists" => touch(c::GetPlaylists.response(f)),
        "sticker_get" => touch(c::StickerGet::new("u", "n").response(f).map(|s| String::from(s))),
        "sticker_list" => touch(c::StickerList::new("u").response(f).map(|s| std::collections::HashMap::from(s))),
        "sticker_find" => touch(c::StickerFind::new("u", "n").response(f).map(|s| s.value)),
        "readmessages" => touch(c::ReadChannelMessages.response(f)),
        "channels" => touch(c::ListChannels.response(f)),
        "tagtypes" => touch(c::GetEnabledTagTypes.response(f)),
        "replay_gain_status" => touch(c::ReplayGainStatus.response(f)),
        "albumart" => touch(c::AlbumArt::new("u").response(f).map(|a| a.map(|a| (a.size, a.mime, a.data.len())))),
        _ => panic!("unknown kind {kind}"),
    }
}

struct Rng(u64);
impl Rng { fn next(&mut self) -> u64 { self.0 ^= self.0 << 13; self.0 ^= self.0 >> 7; self.0 ^= self.0 << 17; self.0 } fn below(&mut self, n: usize) -> usize { (self.next() % n.max(1) as u64) as usize } }
const KEYS: [&str; 40] = ["file", "directory", "playlist", "Last-Modified", "duration", "Time", "time", "Pos", "Id", "Prio", "Range", "Format", "Title", "Artist", "Album", "AlbumArtist", "Track", "Genre", "Weird_Tag-x",
    "volume", "state", "repeat", "random", "single", "consume", "playlistlength", "song", "songid", "nextsong", "nextsongid", "elapsed", "bitrate", "xfade", "updating_db", "songs", "playtime", "sticker", "channel", "message", "size"];
const VALS: [&str; 24] = ["0", "1", "2", "a/b.mp3", "x", "", "18446744073709551616", "18446744073709551615", "-1", "1e999", "NaN", "inf", "1.5", "3:20", "12:", ":", "play", "oneshot", "2020-01-01T00:00:00Z", "k=v", "=", "novalue", "1.500-5.642", "1.5-"];
fn gen_reply(r: &mut Rng) -> Vec<u8> {
    let mut out = vec![];
    let nframes = match r.below(6) { 0 => 0, 1 | 2 | 3 => 1, 4 => 2, _ => 3 };
    let list = nframes != 1 || r.below(4) == 0;
    // a third of the replies draw their field names from a small per-reply subset (2..4 names), so that REPEATED fields and the
    // short structured sequences of grouped replies (`Album` / `songs` / `songs`, `file` / `sticker` / `sticker`, ...) occur
    // ... and one reply in eight is a grouped count / grouped list shape over five names with small numeric values
    const GROUPED: [&str; 5] = ["Album", "Artist", "songs", "playtime", "Title"];
    let grouped = r.below(8) == 0;
    let focus: Vec<&str> = if grouped { GROUPED.to_vec() } else { (0..2 + r.below(3)).map(|_| KEYS[r.below(KEYS.len())]).collect() };
    let focused = grouped || r.below(3) == 0;
    for _ in 0..nframes {
        for _ in 0..r.below(9) {
            let k = if focused { focus[r.below(focus.len())] } else { KEYS[r.below(KEYS.len())] };
            let v = if grouped && r.below(4) != 0 { VALS[r.below(3)] } else { VALS[r.below(VALS.len())] };
            out.extend(format!("{}: {}\n", k, v).as_bytes());
        }
        if r.below(6) == 0 { out.extend(b"binary: 3\nabc\n"); }
        if list { out.extend(b"list_OK\n"); }
    }
    if r.below(8) == 0 { out.extend(b"ACK [5@0] {} x\n"); } else { out.extend(b"OK\n"); }
    out
}
fn main() {
    let a: Vec<String> = std::env::args().collect();
    std::panic::set_hook(Box::new(|_| {}));
    if a[1] == "case" {
        let reply = unhex(&a[3]);
        let kind = a[2].clone();
        println!("kind {kind}  reply {:?}", String::from_utf8_lossy(&reply));
        let resp = match parse(&reply) { Some(r) => r, None => verdict(true, "reply not a complete response: nothing to convert") };
        let r = std::panic::catch_unwind(std::panic::AssertUnwindSafe(|| run_kind(&kind, resp)));
        verdict(r.is_ok(), "typed conversion (and reading the result) yields a value or an error, never a panic");
    }
    let seed: u64 = a.get(2).and_then(|x| x.parse().ok()).unwrap_or(1);
    let n: usize = a.get(3).and_then(|x| x.parse().ok()).unwrap_or(2000);
    let skip: Vec<String> = std::env::var("VX_SKIP").unwrap_or_default().split(',').map(|s| s.to_string()).collect();
    let mut r = Rng(seed.wrapping_mul(0x9E3779B97F4A7C15) | 1);
    let mut all: Vec<&str> = KINDS.to_vec(); all.push("cmdlist_tuple"); all.push("cmdlist_vec");
    let mut distinct = std::collections::HashSet::new();
    for case in 0..n {
        let reply = gen_reply(&mut r);
        distinct.insert(reply.clone());
        for kind in &all {
            let Some(resp) = parse(&reply) else { continue };
            let res = std::panic::catch_unwind(std::panic::AssertUnwindSafe(|| run_kind(kind, resp)));
            if res.is_err() {
                let key = format!("{}:{}", kind, String::from_utf8_lossy(&reply));
                if skip.iter().any(|s| !s.is_empty() && key.contains(s.as_str())) { continue; }
                println!("{{\"case\":{},\"kind\":\"{}\",\"reply_hex\":\"{}\",\"reply\":{:?}}}", case, kind, to_hex(&reply), String::from_utf8_lossy(&reply));
                std::process::exit(1);
            }
        }
    }
    println!("{{\"cases\":{},\"distinct\":{},\"kinds\":{},\"panics\":0}}", n, distinct.len(), all.len());
}

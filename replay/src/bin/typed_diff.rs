//! Bounded differential check of the typed decoders (C14 C16; not a proof): an ABSTRACT reply (what the server means) is
//! generated, encoded the way MPD writes it, pushed through the real parser and the real `Command::response`, and the
//! typed value is compared field by field with the abstract reply.
//!   typed_diff search <seed> <n>       first deviation as JSON on the last line, exit 1
//!   typed_diff case <kind> <seed>      re-run one case with details
use std::{collections::HashMap, time::Duration};
use mpd_client::commands::{self as c, Command};
use mpd_client::filter::Filter;
use mpd_client::tag::Tag;
use mpd_protocol::response::Frame;
use vx_replay::*;

#[derive(Clone)]
struct Rng(u64);
impl Rng {
    fn next(&mut self) -> u64 { self.0 ^= self.0 << 13; self.0 ^= self.0 >> 7; self.0 ^= self.0 << 17; self.0 }
    fn below(&mut self, n: usize) -> usize { (self.next() % n.max(1) as u64) as usize }
    fn pick<T: Clone>(&mut self, xs: &[T]) -> T { xs[self.below(xs.len())].clone() }
    fn coin(&mut self) -> bool { self.below(2) == 0 }
    fn shuffle<T>(&mut self, v: &mut Vec<T>) { for i in (1..v.len()).rev() { let j = self.below(i + 1); v.swap(i, j); } }
}

fn frame_of(reply: &str) -> Frame {
    let mut wire = b"OK MPD 0.23.5\n".to_vec(); wire.extend_from_slice(reply.as_bytes()); wire.extend_from_slice(b"OK\n");
    let mut conn = mpd_protocol::Connection::connect(Chunks::new(&[&wire])).expect("greeting");
    conn.receive().expect("well-formed reply").expect("a response").into_single_frame().expect("no error")
}
fn dur(text: &str) -> Duration { Duration::from_secs_f64(text.parse::<f64>().unwrap()) }
const DURS: [&str; 8] = ["0", "1", "1.500", "0.001", "345", "86400.25", "12345678", "0.000"];
const TEXTS: [&str; 10] = ["x", "a b", "Jo=e", "caf\u{e9}", "a: b", " lead", "trail ", "=", "k=v=w", "0"];
const TS: [&str; 3] = ["2020-06-12T17:53:00Z", "1999-12-31T23:59:59Z", "2024-02-29T00:00:00Z"];

type Out = Result<(), String>;
fn eq<T: PartialEq + std::fmt::Debug>(what: &str, got: T, want: T) -> Out { if got == want { Ok(()) } else { Err(format!("{what}: decoded {got:?}, the server sent {want:?}")) } }

fn k_status(r: &mut Rng) -> (String, Out) {
    let mut lines: Vec<String> = Vec::new();
    let vol = if r.coin() { Some(r.pick(&[0u8, 1, 50, 100, 255])) } else { None };
    if let Some(v) = vol { lines.push(format!("volume: {v}")); }
    let (st_t, st) = r.pick(&[("play", "Playing"), ("pause", "Paused"), ("stop", "Stopped")]);
    lines.push(format!("state: {st_t}"));
    let rep = r.coin(); let rnd = r.coin(); let con = r.coin();
    lines.push(format!("repeat: {}", rep as u8)); lines.push(format!("random: {}", rnd as u8)); lines.push(format!("consume: {}", con as u8));
    let single = if r.below(4) == 0 { None } else { Some(r.pick(&[("0", "Disabled"), ("1", "Enabled"), ("oneshot", "Oneshot")])) };
    if let Some((t, _)) = single { lines.push(format!("single: {t}")); }
    let pl = if r.coin() { Some(r.pick(&[0u32, 1, 7, u32::MAX])) } else { None }; if let Some(v) = pl { lines.push(format!("playlist: {v}")); }
    let pll = if r.coin() { Some(r.pick(&[0usize, 1, 3000])) } else { None }; if let Some(v) = pll { lines.push(format!("playlistlength: {v}")); }
    let song = if r.coin() { Some((r.pick(&[0usize, 5, 99]), r.pick(&[1u64, 12, 1 << 40]))) } else { None };
    if let Some((p, i)) = song { lines.push(format!("song: {p}")); lines.push(format!("songid: {i}")); }
    let next = if r.coin() { Some((r.pick(&[1usize, 6]), r.pick(&[2u64, 13]))) } else { None };
    if let Some((p, i)) = next { lines.push(format!("nextsong: {p}")); lines.push(format!("nextsongid: {i}")); }
    let elapsed = if r.coin() { Some(r.pick(&DURS)) } else { None }; if let Some(v) = elapsed { lines.push(format!("elapsed: {v}")); }
    // duration: modern field, legacy `time: elapsed:total`, both, or neither
    let dmode = r.below(4);
    let d_new = r.pick(&DURS); let d_old = r.pick(&["0", "345", "7"]);
    if dmode == 0 || dmode == 2 { lines.push(format!("duration: {d_new}")); }
    if dmode == 1 || dmode == 2 { lines.push(format!("time: 12:{d_old}")); }
    let want_dur = match dmode { 0 | 2 => Some(dur(d_new)), 1 => Some(dur(d_old)), _ => None };
    let bitrate = if r.coin() { Some(r.pick(&[0u64, 320, 9999])) } else { None }; if let Some(v) = bitrate { lines.push(format!("bitrate: {v}")); }
    let xfade = if r.coin() { Some(r.pick(&["0", "5", "10"])) } else { None }; if let Some(v) = xfade { lines.push(format!("xfade: {v}")); }
    let upd = if r.coin() { Some(r.pick(&[1u64, 7, 1 << 33])) } else { None }; if let Some(v) = upd { lines.push(format!("updating_db: {v}")); }
    let err = if r.below(3) == 0 { Some(r.pick(&TEXTS)) } else { None }; if let Some(v) = err { lines.push(format!("error: {v}")); }
    let part = if r.coin() { Some(r.pick(&["default", "p 2"])) } else { None }; if let Some(v) = part { lines.push(format!("partition: {v}")); }
    // fields the library does not model
    if r.coin() { lines.push("mixrampdb: 0".into()); lines.push("audio: 44100:16:2".into()); }
    // MPD's order is fixed, but nothing in the protocol promises it: pairs stay adjacent, everything else is permuted
    r.shuffle(&mut lines);
    let reply = lines.iter().map(|l| format!("{l}\n")).collect::<String>();
    let out = (|| {
        let s = c::Status.response(frame_of(&reply)).map_err(|e| format!("well-formed status reply rejected: {e}"))?;
        eq("volume", s.volume, vol.unwrap_or(0))?;
        eq("state", format!("{:?}", s.state), st.to_string())?;
        eq("repeat", s.repeat, rep)?; eq("random", s.random, rnd)?; eq("consume", s.consume, con)?;
        eq("single", format!("{:?}", s.single), single.map_or("Disabled", |x| x.1).to_string())?;
        eq("playlist_version", s.playlist_version, pl.unwrap_or(0))?; eq("playlist_length", s.playlist_length, pll.unwrap_or(0))?;
        eq("current_song", s.current_song.map(|(p, i)| (p.0, i.0)), song)?; eq("next_song", s.next_song.map(|(p, i)| (p.0, i.0)), next)?;
        eq("elapsed", s.elapsed, elapsed.map(dur))?; eq("duration", s.duration, want_dur)?;
        eq("bitrate", s.bitrate, bitrate)?; eq("crossfade", s.crossfade, xfade.map_or(Duration::ZERO, dur))?; eq("update_job", s.update_job, upd)?;
        eq("error", s.error.as_deref(), err)?; eq("partition", s.partition.as_deref(), part)
    })();
    (reply, out)
}

/// values outside a field's domain must produce an error, never a wrong value
fn k_status_bad(r: &mut Rng) -> (String, Out) {
    let base = ["volume: 50", "state: play", "repeat: 0", "random: 1", "consume: 0", "single: 0", "playlist: 2", "playlistlength: 1", "song: 0", "songid: 1", "elapsed: 1.5", "duration: 3", "bitrate: 320", "xfade: 0", "updating_db: 3"];
    let bad: [(&str, &[&str]); 15] = [("volume", &["256", "-1", "x", ""]), ("state", &["playing", "PLAY", "", "1"]), ("repeat", &["2", "01", "true", "-1", "", "255", "+1"]), ("random", &["2", "yes", "00"]), ("consume", &["2", "oneshot", "on"]),
        ("single", &["2", "one", "ONESHOT", ""]), ("playlist", &["4294967296", "-1", "x"]), ("playlistlength", &["-1", "1.5", "x"]), ("song", &["-1", "x", "1.0"]), ("songid", &["-1", "x", "18446744073709551616"]),
        ("elapsed", &["-1", "NaN", "x", "inf", "1e400"]), ("duration", &["-0.5", "abc", "NaN"]), ("bitrate", &["-1", "x", "1.5"]), ("xfade", &["-1", "x"]), ("updating_db", &["-1", "x", "1.5"])];
    let (key, vals) = bad[r.below(bad.len())]; let v = vals[r.below(vals.len())];
    let mut lines: Vec<String> = base.iter().map(|l| if l.starts_with(&format!("{key}: ")) { format!("{key}: {v}") } else { l.to_string() }).collect();
    // a position without its id is outside the domain too
    let orphan = r.below(8) == 0; if orphan { lines.retain(|l| !l.starts_with("songid: ")); lines = lines.iter().map(|l| if l.starts_with(&format!("{key}: ")) && key != "songid" { base.iter().find(|b| b.starts_with(&format!("{key}: "))).unwrap().to_string() } else { l.clone() }).collect(); }
    r.shuffle(&mut lines);
    let reply = lines.iter().map(|l| format!("{l}\n")).collect::<String>();
    let out = match c::Status.response(frame_of(&reply)) { Err(_) => Ok(()), Ok(s) => Err(format!("a status reply with {} decoded to a value instead of an error: {s:?}", if orphan { "a song position but no song id".to_string() } else { format!("{key}: {v:?}") })) };
    (reply, out)
}

fn k_stats(r: &mut Rng) -> (String, Out) {
    let v: Vec<u64> = (0..4).map(|_| r.pick(&[0u64, 1, 12345, u64::MAX])).collect();
    let d: Vec<&str> = (0..3).map(|_| r.pick(&DURS)).collect();
    let mut lines = vec![format!("artists: {}", v[0]), format!("albums: {}", v[1]), format!("songs: {}", v[2]), format!("uptime: {}", d[0]), format!("playtime: {}", d[1]), format!("db_playtime: {}", d[2]), format!("db_update: {}", v[3])];
    r.shuffle(&mut lines);
    let reply = lines.iter().map(|l| format!("{l}\n")).collect::<String>();
    let out = (|| {
        let s = c::Stats.response(frame_of(&reply)).map_err(|e| format!("well-formed stats reply rejected: {e}"))?;
        eq("artists", s.artists, v[0])?; eq("albums", s.albums, v[1])?; eq("songs", s.songs, v[2])?; eq("db_last_update", s.db_last_update, v[3])?;
        eq("uptime", s.uptime, dur(d[0]))?; eq("playtime", s.playtime, dur(d[1]))?; eq("db_playtime", s.db_playtime, dur(d[2]))
    })();
    (reply, out)
}

fn k_count(r: &mut Rng) -> (String, Out) {
    if r.coin() {
        let n = r.pick(&[0u64, 3, 1 << 40]); let p = r.pick(&DURS);
        let reply = if r.coin() { format!("songs: {n}\nplaytime: {p}\n") } else { format!("playtime: {p}\nsongs: {n}\n") };
        let out = (|| { let x = c::Count::new(Filter::tag(Tag::Artist, "x")).response(frame_of(&reply)).map_err(|e| format!("count reply rejected: {e}"))?; eq("songs", x.songs, n)?; eq("playtime", x.playtime, dur(p)) })();
        return (reply, out);
    }
    let groups: Vec<(String, u64, &str)> = (0..r.below(5)).map(|_| (r.pick(&TEXTS).to_string(), r.pick(&[0u64, 1, 77]), r.pick(&DURS))).collect();
    let mut reply = String::new();
    for (g, n, p) in &groups { reply += &format!("Album: {g}\n"); if r.coin() { reply += &format!("songs: {n}\nplaytime: {p}\n"); } else { reply += &format!("playtime: {p}\nsongs: {n}\n"); } }
    let out = (|| {
        let x = c::Count::new(Filter::tag(Tag::Artist, "x")).group_by(Tag::Album).response(frame_of(&reply)).map_err(|e| format!("grouped count reply rejected: {e}"))?;
        eq("groups", x.iter().map(|(g, c)| (g.clone(), c.songs, c.playtime)).collect::<Vec<_>>(), groups.iter().map(|(g, n, p)| (g.clone(), *n, dur(p))).collect())
    })();
    (reply, out)
}

fn k_list(r: &mut Rng) -> (String, Out) {
    let n = r.below(7);
    match r.below(3) {
        0 => {
            let vals: Vec<&str> = (0..n).map(|_| r.pick(&TEXTS)).collect();
            let reply: String = vals.iter().map(|v| format!("Album: {v}\n")).collect();
            let out = (|| {
                let l = c::List::new(Tag::Album).response(frame_of(&reply)).map_err(|e| format!("list reply rejected: {e}"))?;
                eq("values()", l.values().collect::<Vec<_>>(), vals.clone())?;
                eq("values().rev()", l.values().rev().collect::<Vec<_>>(), vals.iter().rev().cloned().collect())?;
                eq("values().len()", l.values().len(), vals.len())?;
                eq("into_iter()", l.into_iter().collect::<Vec<_>>(), vals.iter().map(|s| s.to_string()).collect())
            })();
            (reply, out)
        }
        1 => {
            // list Title group Album: the group line is written when the group changes (and before the first entry)
            let ents: Vec<(&str, &str)> = (0..n).map(|_| (r.pick(&TEXTS), r.pick(&["A", "B", ""]))).collect();
            let mut reply = String::new(); let mut cur: Option<&str> = None;
            for (t, a) in &ents { if cur != Some(a) { reply += &format!("Album: {a}\n"); cur = Some(a); } reply += &format!("Title: {t}\n"); }
            let out = (|| {
                let l = c::List::new(Tag::Title).group_by([Tag::Album]).response(frame_of(&reply)).map_err(|e| format!("grouped list reply rejected: {e}"))?;
                eq("grouped_values()", l.grouped_values().map(|(v, g)| (v, g[0])).collect::<Vec<_>>(), ents.clone())
            })();
            (reply, out)
        }
        _ => {
            // two levels: list Title group Album group AlbumArtist; MPD writes the outer group first
            let ents: Vec<(&str, &str, &str)> = (0..n).map(|_| (r.pick(&TEXTS), r.pick(&["A", "B"]), r.pick(&["X", "Y", ""]))).collect();
            let mut reply = String::new(); let mut cur: Option<(&str, &str)> = None;
            for (t, a, aa) in &ents {
                if cur.map(|c| c.1) != Some(aa) { reply += &format!("AlbumArtist: {aa}\nAlbum: {a}\n"); }
                else if cur.map(|c| c.0) != Some(a) { reply += &format!("Album: {a}\n"); }
                cur = Some((a, aa)); reply += &format!("Title: {t}\n");
            }
            let out = (|| {
                let l = c::List::new(Tag::Title).group_by([Tag::Album, Tag::AlbumArtist]).response(frame_of(&reply)).map_err(|e| format!("grouped list reply rejected: {e}"))?;
                eq("grouped_values()", l.grouped_values().map(|(v, g)| (v, g[0], g[1])).collect::<Vec<_>>(), ents.clone())
            })();
            (reply, out)
        }
    }
}

fn k_playlists(r: &mut Rng) -> (String, Out) {
    let pls: Vec<(&str, &str)> = (0..r.below(5)).map(|_| (r.pick(&TEXTS), r.pick(&TS))).collect();
    let reply: String = pls.iter().map(|(n, t)| format!("playlist: {n}\nLast-Modified: {t}\n")).collect();
    let out = (|| {
        let x = c::GetPlaylists.response(frame_of(&reply)).map_err(|e| format!("listplaylists reply rejected: {e}"))?;
        eq("playlists", x.iter().map(|p| (p.name.as_str(), p.last_modified.raw())).collect::<Vec<_>>(), pls.clone())
    })();
    (reply, out)
}

fn k_sticker(r: &mut Rng) -> (String, Out) {
    match r.below(3) {
        0 => {
            let (n, v) = (r.pick(&["rating", "n"]), r.pick(&TEXTS));
            let reply = format!("sticker: {n}={v}\n");
            let out = (|| { let x = c::StickerGet::new("u", n).response(frame_of(&reply)).map_err(|e| format!("sticker get reply rejected: {e}"))?; eq("value", String::from(x), v.to_string()) })();
            (reply, out)
        }
        1 => {
            let mut m: HashMap<String, String> = HashMap::new();
            for _ in 0..r.below(5) { m.insert(r.pick(&["rating", "n", "x_y", "a b"]).to_string(), r.pick(&TEXTS).to_string()); }
            let reply: String = m.iter().map(|(k, v)| format!("sticker: {k}={v}\n")).collect();
            let out = (|| { let x = c::StickerList::new("u").response(frame_of(&reply)).map_err(|e| format!("sticker list reply rejected: {e}"))?; eq("stickers", HashMap::from(x), m.clone()) })();
            (reply, out)
        }
        _ => {
            let mut m: HashMap<String, String> = HashMap::new();
            for _ in 0..r.below(5) { m.insert(r.pick(&["a.mp3", "d/b c.flac", "x=y.ogg"]).to_string(), r.pick(&TEXTS).to_string()); }
            let reply: String = m.iter().map(|(f, v)| format!("file: {f}\nsticker: rating={v}\n")).collect();
            let out = (|| { let x = c::StickerFind::new("u", "rating").response(frame_of(&reply)).map_err(|e| format!("sticker find reply rejected: {e}"))?; eq("found", x.value, m.clone()) })();
            (reply, out)
        }
    }
}

fn k_misc(r: &mut Rng) -> (String, Out) {
    match r.below(5) {
        0 => {
            let ch: Vec<&str> = (0..r.below(4)).map(|_| r.pick(&["c1", "news", "x_y"])).collect();
            let reply: String = ch.iter().map(|c| format!("channel: {c}\n")).collect();
            let out = (|| { let x = c::ListChannels.response(frame_of(&reply)).map_err(|e| format!("channels reply rejected: {e}"))?; eq("channels", x, ch.iter().map(|s| s.to_string()).collect()) })();
            (reply, out)
        }
        1 => {
            let ms: Vec<(&str, &str)> = (0..r.below(4)).map(|_| (r.pick(&["c1", "news"]), r.pick(&TEXTS))).collect();
            let reply: String = ms.iter().map(|(c, m)| format!("channel: {c}\nmessage: {m}\n")).collect();
            let out = (|| { let x = c::ReadChannelMessages.response(frame_of(&reply)).map_err(|e| format!("readmessages reply rejected: {e}"))?; eq("messages", x, ms.iter().map(|(c, m)| (c.to_string(), m.to_string())).collect()) })();
            (reply, out)
        }
        2 => {
            let ts: Vec<&str> = (0..r.below(5)).map(|_| r.pick(&["Artist", "Album", "MUSICBRAINZ_TRACKID", "Title", "NewTag"])).collect();
            let reply: String = ts.iter().map(|t| format!("tagtype: {t}\n")).collect();
            let out = (|| { let x = c::GetEnabledTagTypes.response(frame_of(&reply)).map_err(|e| format!("tagtypes reply rejected: {e}"))?; eq("tag types", x, ts.iter().map(|t| Tag::try_from(*t).unwrap()).collect()) })();
            (reply, out)
        }
        3 => {
            let (t, m) = r.pick(&[("off", "Off"), ("track", "Track"), ("album", "Album"), ("auto", "Auto")]);
            let reply = format!("replay_gain_mode: {t}\n");
            let out = (|| { let x = c::ReplayGainStatus.response(frame_of(&reply)).map_err(|e| format!("replay_gain_status reply rejected: {e}"))?; eq("mode", format!("{:?}", x.mode), m.to_string()) })();
            (reply, out)
        }
        _ => {
            let j = r.pick(&[1u64, 42, 1 << 35]);
            let reply = format!("updating_db: {j}\n");
            let out = (|| { let x = c::Update::new().response(frame_of(&reply)).map_err(|e| format!("update reply rejected: {e}"))?; eq("job id", x, j) })();
            (reply, out)
        }
    }
}

/// C14: a listing as the server means it
#[derive(Clone, Debug, PartialEq)]
struct ASong { url: String, duration: Option<Duration>, pos: Option<usize>, id: Option<u64>, prio: Option<u8>, range: Option<(Duration, Option<Duration>)>, format: Option<String>, lm: Option<String>, tags: Vec<(String, String)> }
fn k_songs(r: &mut Rng) -> (String, Out) {
    let queue = r.coin();          // queue listings carry Pos/Id (and maybe Prio/Range); database listings may interleave directories / playlists
    let mut reply = String::new();
    let mut songs: Vec<ASong> = Vec::new();
    for _ in 0..r.below(5) {
        if !queue && r.below(3) == 0 {
            if r.coin() { reply += &format!("directory: {}\n", r.pick(&["d", "a b/c"])); } else { reply += &format!("playlist: {}\n", r.pick(&["p.m3u", "x y.m3u"])); }
            if r.coin() { reply += &format!("Last-Modified: {}\n", r.pick(&TS)); }
            continue;
        }
        let mut s = ASong { url: r.pick(&["a.mp3", "d/b c.flac", "http://x/y?z=1", "caf\u{e9}.ogg"]).to_string(), duration: None, pos: None, id: None, prio: None, range: None, format: None, lm: None, tags: vec![] };
        let mut lines: Vec<String> = Vec::new();
        if r.coin() { let t = r.pick(&TS); s.lm = Some(t.to_string()); lines.push(format!("Last-Modified: {t}")); }
        if r.coin() { let f = r.pick(&["44100:16:2", "dsd64:2", "*:*:*"]); s.format = Some(f.to_string()); lines.push(format!("Format: {f}")); }
        for _ in 0..r.below(5) { let t = r.pick(&["Artist", "Artist", "Title", "Album", "Genre", "MUSICBRAINZ_TRACKID", "NewTag"]); let v = r.pick(&TEXTS); s.tags.push((t.to_string(), v.to_string())); lines.push(format!("{t}: {v}")); }
        // duration: legacy Time (whole seconds), duration, or both in either order
        match r.below(5) {
            0 => {}
            1 => { let d = r.pick(&DURS); s.duration = Some(dur(d)); lines.push(format!("duration: {d}")); }
            2 => { s.duration = Some(Duration::from_secs(345)); lines.push("Time: 345".into()); }
            3 => { s.duration = Some(dur("344.816")); lines.push("Time: 345".into()); lines.push("duration: 344.816".into()); }
            _ => { s.duration = Some(dur("344.816")); lines.push("duration: 344.816".into()); lines.push("Time: 345".into()); }
        }
        if r.below(4) == 0 { let (a, b) = r.pick(&[("1.500", Some("5.642")), ("0", None), ("10", Some("20"))]); s.range = Some((dur(a), b.map(dur))); lines.push(format!("Range: {a}-{}", b.unwrap_or(""))); }
        if queue {
            let (p, i) = (r.pick(&[0usize, 3, 1000]), r.pick(&[1u64, 77, 1 << 36])); s.pos = Some(p); s.id = Some(i);
            lines.push(format!("Pos: {p}")); lines.push(format!("Id: {i}"));
            if r.below(3) == 0 { let p = r.pick(&[1u8, 255]); s.prio = Some(p); lines.push(format!("Prio: {p}")); }
        }
        if r.coin() { r.shuffle(&mut lines); }
        // tag values are compared per tag in the order of the lines actually sent
        s.tags = lines.iter().filter_map(|l| { let (k, v) = l.split_once(": ").unwrap(); if ["Artist", "Title", "Album", "Genre", "MUSICBRAINZ_TRACKID", "NewTag"].contains(&k) { Some((k.to_string(), v.to_string())) } else { None } }).collect();
        reply += &format!("file: {}\n", s.url); for l in &lines { reply += l; reply.push('\n'); }
        songs.push(s);
    }
    let check_song = |got: &mpd_client::responses::Song, want: &ASong| -> Out {
        eq("url", got.url.as_str(), want.url.as_str())?; eq("duration", got.duration, want.duration)?; eq("format", got.format.as_deref(), want.format.as_deref())?;
        eq("last_modified", got.last_modified.as_ref().map(|t| t.raw().to_string()), want.lm.clone())?;
        // per tag, the values in server order
        let mut per: Vec<(Tag, Vec<String>)> = Vec::new();
        for (t, v) in &want.tags { let t = Tag::try_from(t.as_str()).unwrap(); if let Some(e) = per.iter_mut().find(|e| e.0 == t) { e.1.push(v.clone()); } else { per.push((t, vec![v.clone()])); } }
        eq("number of tags", got.tags.len(), per.len())?;
        for (t, vs) in &per { eq(&format!("values of tag {t:?}"), got.tags.get(t).cloned(), Some(vs.clone()))?; }
        Ok(())
    };
    let out = (|| {
        let f = frame_of(&reply);
        if queue {
            let got = c::Queue.response(f).map_err(|e| format!("queue listing rejected: {e}"))?;
            eq("number of songs", got.len(), songs.len())?;
            for (g, w) in got.iter().zip(&songs) {
                check_song(&g.song, w)?;
                eq("position", g.position.0, w.pos.unwrap())?; eq("id", g.id.0, w.id.unwrap())?; eq("priority", g.priority, w.prio.unwrap_or(0))?;
                eq("range", g.range.map(|x| (x.from, x.to)), w.range)?;
            }
            // the single-song form
            if songs.len() == 1 { let g = c::CurrentSong.response(frame_of(&reply)).map_err(|e| format!("currentsong rejected: {e}"))?; eq("currentsong present", g.is_some(), true)?; check_song(&g.unwrap().song, &songs[0])?; }
            if songs.is_empty() { let g = c::CurrentSong.response(frame_of(&reply)).map_err(|e| format!("currentsong rejected: {e}"))?; eq("currentsong absent", g.is_none(), true)?; }
            Ok(())
        } else {
            let got = match r.below(3) { 0 => c::ListAllIn::root().response(f), 1 => c::Find::new(Filter::tag(Tag::Artist, "x")).response(f), _ => c::GetPlaylist("p").response(f) }.map_err(|e| format!("listing rejected: {e}"))?;
            eq("number of songs", got.len(), songs.len())?;
            for (g, w) in got.iter().zip(&songs) { check_song(g, w)?; }
            Ok(())
        }
    })();
    (reply, out)
}

const KINDS: [(&str, &str, fn(&mut Rng) -> (String, Out)); 9] = [("status", "C16", k_status), ("status_bad", "C16", k_status_bad), ("stats", "C16", k_stats), ("count", "C16", k_count), ("list", "C16", k_list),
    ("playlists", "C16", k_playlists), ("sticker", "C16", k_sticker), ("misc", "C16", k_misc), ("songs", "C14", k_songs)];

fn run(kind: usize, seed: u64) -> (String, Result<Out, String>) {
    let mut r = Rng(seed.wrapping_mul(0x9E3779B97F4A7C15) | 1); for _ in 0..3 { r.next(); }
    let mut reply_out = String::new();
    let res = std::panic::catch_unwind(std::panic::AssertUnwindSafe(|| { let (reply, out) = (KINDS[kind].2)(&mut r); (reply, out) }));
    match res { Ok((reply, out)) => { reply_out = reply; (reply_out, Ok(out)) } Err(_) => (reply_out, Err("panic while decoding a well-formed reply".into())) }
}
fn main() {
    let a: Vec<String> = std::env::args().collect();
    std::panic::set_hook(Box::new(|_| {}));
    match a.get(1).map(|s| s.as_str()) {
        Some("search") => {
            let s0: u64 = a[2].parse().unwrap(); let n: u64 = a[3].parse().unwrap();
            for seed in s0..s0 + n { for k in 0..KINDS.len() {
                let (reply, res) = run(k, seed);
                let why = match res { Ok(Ok(())) => continue, Ok(Err(w)) => w, Err(w) => w };
                println!("{{\"kind\":\"{}\",\"seed\":{seed},\"props\":[\"{}\"],\"reply\":{:?},\"why\":{:?}}}", KINDS[k].0, KINDS[k].1, reply, why);
                std::process::exit(1);
            } }
            println!("{{\"cases\":{},\"kinds\":{}}}", n * KINDS.len() as u64, KINDS.len());
        }
        Some("case") => {
            let k = KINDS.iter().position(|x| x.0 == a[2]).expect("kind"); let seed: u64 = a[3].parse().unwrap();
            let (reply, res) = run(k, seed);
            println!("kind {} seed {seed}\nreply:\n{reply}", KINDS[k].0);
            match res { Ok(Ok(())) => println!("HOLDS: the decoded value carries exactly what the server sent"), Ok(Err(w)) | Err(w) => { println!("VIOLATED: {w}"); std::process::exit(1); } }
        }
        _ => { eprintln!("usage: typed_diff search <seed0> <n> | case <kind> <seed>"); std::process::exit(2); }
    }
}

//! Bounded counterexample SEARCH for the command builder (C06 C07 C13): random names / arguments over an alphabet rich in
//! quotes, backslashes, blanks, controls, NUL, LF and non-ASCII; the real builder + real connection write the bytes, the
//! oracle port of MPD's tokenizer reads them back. Prints the first deviating case as JSON and exits 1; 0 if none.
//! usage: cmd_search <seed> <cases>     |   cmd_search case <hexname> <hexarg>...   (replay of one case)
use vx_replay::*;
struct Rng(u64);
impl Rng { fn next(&mut self) -> u64 { self.0 ^= self.0 << 13; self.0 ^= self.0 >> 7; self.0 ^= self.0 << 17; self.0 } fn below(&mut self, n: usize) -> usize { (self.next() % n.max(1) as u64) as usize } }
const NAME_CH: [char; 12] = ['a', 'Z', '_', 'x', 'c', 'o', ' ', '1', '"', '\n', 'é', '-'];
// incl. scalars whose LOW BYTE is a quote / apostrophe / backslash (U+0422, U+0127, U+015C, U+4E22): a byte-wise comparison of a char goes wrong on these
const ARG_CH: [char; 24] = ['a', 'b', ' ', '\t', '"', '\'', '\\', '\r', '\n', '\0', 'é', '(', ')', '=', '\x0b', '\x1f', '!', '~', '0', '日', '\u{422}', '\u{127}', '\u{15c}', '\u{4e22}'];
fn special(c: char) -> bool { c == '\\' || c == '"' || c == '\'' }
fn name_valid(n: &str) -> bool { !n.is_empty() && n.chars().next().unwrap().is_ascii_alphabetic() && n.chars().all(|c| c.is_ascii_alphabetic() || c == '_') && !n.starts_with("command_list") }
fn arg_accepted(a: &str) -> bool { !a.contains('\n') && !a.contains('\0') }
fn needs_quotes(a: &str) -> bool { a.is_empty() || a.chars().any(|c| c <= ' ') }
fn unquoted_special(a: &str) -> bool { !needs_quotes(a) && a.chars().any(special) }

fn check(name: &str, args: &[String]) -> Option<(Vec<&'static str>, String)> {
    let built = mpd_protocol::Command::build(name);
    let tokenizable = !name.is_empty() && name.as_bytes()[0].is_ascii_alphabetic() && name.bytes().all(|b| b.is_ascii_alphanumeric() || b == b'_');
    if built.is_ok() != name_valid(name) { return Some((if built.is_ok() && !tokenizable { vec!["C07", "C06"] } else { vec!["C07"] }, format!("Command::build({name:?}) is_ok={} but the name is {}", built.is_ok(), if name_valid(name) { "valid" } else { "invalid" }))); }
    let mut cmd = match built { Ok(c) => c, Err(_) => return None };
    let mut kept: Vec<String> = vec![];
    for a in args {
        let before = wire_of_command(cmd.clone());
        let r = cmd.add_argument(a.as_str());
        if r.is_ok() != arg_accepted(a) { return Some((vec!["C07"], format!("add_argument({a:?}) is_ok={} but the argument should be {}", r.is_ok(), if arg_accepted(a) { "accepted" } else { "rejected" }))); }
        if r.is_err() { if wire_of_command(cmd.clone()) != before { return Some((vec!["C07"], format!("rejected argument {a:?} changed the command"))); } } else { kept.push(a.clone()); }
    }
    let wire = wire_of_command(cmd);
    if wire.iter().filter(|&&b| b == b'\n').count() != 1 || wire.last() != Some(&b'\n') { return Some((vec!["C07"], format!("the command does not occupy exactly one line: {:?}", String::from_utf8_lossy(&wire)))); }
    if kept.iter().any(|a| unquoted_special(a)) { return None; }   // known finding C06.rt.unquoted_special
    let got = mpdtok::mpd_tokenize(&wire[..wire.len() - 1]);
    let want = (name.as_bytes().to_vec(), kept.iter().map(|x| x.as_bytes().to_vec()).collect::<Vec<_>>());
    if got.as_ref() != Ok(&want) { return Some((vec!["C06"], format!("wire {:?}: MPD sees {:?}", String::from_utf8_lossy(&wire), got.map(|(c, p)| (String::from_utf8_lossy(&c).into_owned(), p.iter().map(|x| String::from_utf8_lossy(x).into_owned()).collect::<Vec<_>>()))))); }
    None
}
fn check_list(cmds: &[(String, Vec<String>)]) -> Option<(Vec<&'static str>, String)> {
    let mut built = vec![];
    for (n, args) in cmds { let mut c = mpd_protocol::Command::build(n).ok()?; for a in args { let _ = c.add_argument(a.as_str()); } built.push(c); }
    let lines: Vec<Vec<u8>> = built.iter().map(|c| { let w = wire_of_command(c.clone()); w[..w.len() - 1].to_vec() }).collect();
    let mut list = mpd_protocol::CommandList::new(built[0].clone());
    for c in &built[1..] { list.add(c.clone()); }
    let wire = wire_of_list(list);
    let mut want: Vec<u8> = vec![];
    if lines.len() == 1 { want.extend(&lines[0]); want.push(b'\n'); }
    else { want.extend(b"command_list_ok_begin\n"); for l in &lines { want.extend(l); want.push(b'\n'); } want.extend(b"command_list_end\n"); }
    if wire != want { return Some((vec!["C13", "C07"], format!("list of {} commands written as {:?}, expected {:?}", lines.len(), String::from_utf8_lossy(&wire), String::from_utf8_lossy(&want)))); }
    None
}
fn main() {
    let a: Vec<String> = std::env::args().collect();
    std::panic::set_hook(Box::new(|_| {}));
    if a.get(1).map(|s| s.as_str()) == Some("case") {
        let name = String::from_utf8(unhex(&a[2])).unwrap();
        let args: Vec<String> = a[3..].iter().map(|x| String::from_utf8(unhex(x)).unwrap()).collect();
        let r = std::panic::catch_unwind(|| check(&name, &args));
        println!("name {name:?} args {args:?}\nresult: {r:?}");
        verdict(matches!(r, Ok(None)), "builder accepts/rejects per the rules, one line is written, MPD's tokenizer recovers name and arguments");
    }
    if a.get(1).map(|s| s.as_str()) == Some("literals") {
        let r = check_list(&[("foo".into(), vec![]), ("bar".into(), vec!["x".into()])]).or_else(|| check_list(&[("status".into(), vec![])]));
        println!("{r:?}");
        verdict(r.is_none(), "command list framing literals: command_list_ok_begin / command_list_end, single command sent bare");
    }
    let seed: u64 = a.get(1).and_then(|x| x.parse().ok()).unwrap_or(1);
    let n: usize = a.get(2).and_then(|x| x.parse().ok()).unwrap_or(2000);
    let mut r = Rng(seed.wrapping_mul(0x9E3779B97F4A7C15) | 1);
    let mut distinct = std::collections::HashSet::new();
    for case in 0..n {
        let name: String = match r.below(6) { 0 => "find".into(), 1 => "command_list_begin".into(), 2 => "command_listx".into(), _ => (0..r.below(5)).map(|_| NAME_CH[r.below(NAME_CH.len())]).collect() };
        let args: Vec<String> = (0..r.below(4)).map(|_| (0..r.below(6)).map(|_| ARG_CH[r.below(ARG_CH.len())]).collect()).collect();
        distinct.insert((name.clone(), args.clone()));
        let res = std::panic::catch_unwind(|| check(&name, &args));
        let bad = match res { Ok(None) => None, Ok(Some(x)) => Some(x), Err(_) => Some((vec!["C07", "C06", "C13"], "PANIC in the command builder".to_string())) };
        if let Some((props, why)) = bad {
            println!("{{\"props\":{:?},\"case\":{},\"name_hex\":\"{}\",\"args_hex\":{:?},\"why\":{:?}}}", props, case, to_hex(name.as_bytes()), args.iter().map(|x| to_hex(x.as_bytes())).collect::<Vec<_>>(), why);
            std::process::exit(1);
        }
        if case % 5 == 0 && name_valid(&name) {
            let m = 1 + r.below(3);
            let cmds: Vec<(String, Vec<String>)> = (0..m).map(|k| (if k == 0 { name.clone() } else { "next".into() }, args.iter().filter(|a| arg_accepted(a)).cloned().collect())).collect();
            if let Some((props, why)) = check_list(&cmds) {
                println!("{{\"props\":{:?},\"case\":{},\"list\":true,\"name_hex\":\"{}\",\"args_hex\":{:?},\"why\":{:?}}}", props, case, to_hex(name.as_bytes()), args.iter().map(|x| to_hex(x.as_bytes())).collect::<Vec<_>>(), why);
                std::process::exit(1);
            }
        }
    }
    println!("{{\"cases\":{},\"distinct\":{},\"deviations\":0}}", n, distinct.len());
}

//! C13 (bounded stand-in for the iterator-adaptor based `impl CommandList for Vec<C>`, and a cross-check of the tuple impls):
//! probe commands whose reply identifies them; every tuple arity 1..8, every Vec length 0..=24.
//!   the i-th command line is the i-th probe's; the i-th typed response is decoded from the i-th frame; an empty Vec
//!   yields no command list and an empty result; a frame count mismatch is an error, never a panic or a shifted pairing.
//! The impls are generic in the command type, so probes exercise every position of every arity (parametricity).
use mpd_client::commands::{Command, CommandList};
use mpd_client::responses::TypedResponseError;
use mpd_protocol::{command::Command as RawCommand, response::Frame};
use vx_replay::*;

#[derive(Clone, Debug)]
struct Probe(usize);
impl Command for Probe {
    type Response = (usize, String);
    fn command(&self) -> RawCommand { RawCommand::new("probe").argument(self.0.to_string()) }
    fn response(self, frame: Frame) -> Result<Self::Response, TypedResponseError> { Ok((self.0, frame.find("echo").unwrap_or("<none>").to_string())) }
}
fn frames(n: usize) -> Vec<Frame> {
    if n == 0 { return vec![]; }
    let mut wire = b"OK MPD 0.23.5\n".to_vec();
    for i in 0..n { wire.extend_from_slice(format!("echo: reply{i}\nlist_OK\n").as_bytes()); }
    wire.extend_from_slice(b"OK\n");
    let mut conn = mpd_protocol::Connection::connect(Chunks::new(&[&wire])).unwrap();
    conn.receive().unwrap().unwrap().into_iter().map(|f| f.unwrap()).collect()
}
fn lines(l: Option<mpd_protocol::command::CommandList>) -> Vec<String> {
    // the command lines as the connection writes them
    match l { None => vec![], Some(l) => { let w = wire_of_list(l); let t = String::from_utf8(w).unwrap(); let v: Vec<String> = t.lines().map(|s| s.to_string()).collect();
        if v.len() == 1 { v } else { assert_eq!(v[0], "command_list_ok_begin"); assert_eq!(v[v.len() - 1], "command_list_end"); v[1..v.len() - 1].to_vec() } } }
}
fn fail(m: String) -> ! { println!("VIOLATED: {m}"); std::process::exit(1) }
macro_rules! tuple_case { ($n:expr, $($i:tt),+) => {{
    let t = ($(Probe($i * 7 + 3),)+);
    let want: Vec<String> = vec![$(format!("probe {}", $i * 7 + 3)),+];
    if lines(t.command_list()) != want { fail(format!("tuple of {} commands is written as {:?}", $n, lines(t.command_list()))); }
    match t.clone().responses(frames($n)) { Ok(r) => { $( if r.$i != ($i * 7 + 3, format!("reply{}", $i)) { fail(format!("tuple arity {}: response {} is {:?}", $n, $i, r.$i)); } )+ } Err(e) => fail(format!("tuple arity {}: {e}", $n)) }
    let short = std::panic::catch_unwind(|| t.clone().responses(frames($n - 1)).is_err()).ok();
    if short != Some(true) { fail(format!("tuple arity {} with {} frames: {:?} (expected an error)", $n, $n - 1, short)); }
}}; }
fn main() {
    std::panic::set_hook(Box::new(|_| {}));
    let mut cases = 0;
    tuple_case!(1, 0); tuple_case!(2, 0, 1); tuple_case!(3, 0, 1, 2); tuple_case!(4, 0, 1, 2, 3); tuple_case!(5, 0, 1, 2, 3, 4); tuple_case!(6, 0, 1, 2, 3, 4, 5);
    tuple_case!(7, 0, 1, 2, 3, 4, 5, 6); tuple_case!(8, 0, 1, 2, 3, 4, 5, 6, 7); cases += 8 * 3;
    for n in 0..=24usize {
        let v: Vec<Probe> = (0..n).map(|i| Probe(i * 5 + 1)).collect();
        let want: Vec<String> = (0..n).map(|i| format!("probe {}", i * 5 + 1)).collect();
        let l = v.command_list();
        if n == 0 && l.is_some() { fail("an empty Vec yields a command list".into()); }
        if lines(l) != want { fail(format!("Vec of {n} commands is written as {:?}", lines(v.command_list()))); }
        match v.clone().responses(frames(n)) { Ok(r) => { if r != (0..n).map(|i| (i * 5 + 1, format!("reply{i}"))).collect::<Vec<_>>() { fail(format!("Vec of {n}: responses {:?}", r)); } } Err(e) => fail(format!("Vec of {n}: {e}")) }
        for m in [n.wrapping_sub(1), n + 1] { if m > 30 { continue; }
            let r = std::panic::catch_unwind(|| v.clone().responses(frames(m)).is_err()).ok();
            if r != Some(true) { fail(format!("Vec of {n} commands with {m} frames: {:?} (expected an error)", r)); } }
        cases += 4;
    }
    println!("{{\"cases\":{cases}}}");
}

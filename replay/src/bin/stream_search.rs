//! Bounded counterexample SEARCH (not a proof): random well-formed / mutated streams x random segmentations, both
//! connection flavours against the oracle. Prints the first deviating case as JSON and exits 1; exits 0 if none found.
//! usage: stream_search <seed> <cases>
use vx_replay::*;
struct Rng(u64);
impl Rng { fn next(&mut self) -> u64 { self.0 ^= self.0 << 13; self.0 ^= self.0 >> 7; self.0 ^= self.0 << 17; self.0 } fn below(&mut self, n: usize) -> usize { (self.next() % n.max(1) as u64) as usize } }

fn gen_value(r: &mut Rng) -> Vec<u8> {
    const V: [&[u8]; 12] = [b"", b"x", b"OK", b"a b", b"ACK [1@0] {} x", b"caf\xc3\xa9", b"list_OK", b"binary: 3", b"0", b"-1", b"a: b", b"\t"];
    V[r.below(V.len())].to_vec()
}
fn gen_frame(r: &mut Rng, out: &mut Vec<u8>) {
    const K: [&[u8]; 8] = [b"file", b"Title", b"Last-Modified", b"a_b", b"X", b"Id", b"changed", b"binary"];
    for _ in 0..r.below(4) {
        let k = K[r.below(K.len() - 1)];
        out.extend_from_slice(k); out.extend_from_slice(b": "); out.extend_from_slice(&gen_value(r)); out.push(b'\n');
    }
    if r.below(3) == 0 {
        const P: [&[u8]; 6] = [b"", b"abc", b"OK\n", b"\n", b"list_OK\nOK\n", b"\x00\xff"];
        // one payload in 24 is larger than 64 KiB (the receive buffer doubles its way past 128 KiB: code that looks at the buffer's capacity is reached)
        let p: Vec<u8> = if r.below(8) == 0 { vec![b'z'; 3000 + r.below(6000)] } else if r.below(24) == 0 { vec![b'Z'; 70_000 + r.below(140_000)] } else { P[r.below(P.len())].to_vec() };
        out.extend_from_slice(format!("binary: {}\n", p.len()).as_bytes()); out.extend_from_slice(&p); out.push(b'\n');
    }
}
fn gen_stream(r: &mut Rng) -> Vec<u8> {
    let mut s = b"OK MPD 0.23.5\n".to_vec();
    for _ in 0..r.below(4) {
        match r.below(4) {
            0 => { gen_frame(r, &mut s); s.extend_from_slice(b"OK\n"); }
            1 => { for _ in 0..1 + r.below(3) { gen_frame(r, &mut s); s.extend_from_slice(b"list_OK\n"); } if r.below(3) == 0 { gen_frame(r, &mut s); s.extend_from_slice(b"ACK [50@1] {play} No such song\n"); } else { s.extend_from_slice(b"OK\n"); } }
            2 => { gen_frame(r, &mut s); s.extend_from_slice(b"ACK [5@0] {} unknown\n"); }
            _ => { if r.below(4) == 0 { for _ in 0..1 + r.below(3) { s.extend_from_slice(b"Title: "); s.extend_from_slice(&vec![b'y'; 1000 + r.below(2500)]); s.push(b'\n'); } } s.extend_from_slice(b"OK\n"); }
        }
    }
    // absurd declared binary lengths (C09)
    if r.below(12) == 0 {
        const L: [&[u8]; 6] = [b"18446744073709551615", b"9223372036854775807", b"9223372036854775808", b"18446744073709551616", b"99999999999999", b"4294967296"];
        s.extend_from_slice(b"binary: "); s.extend_from_slice(L[r.below(L.len())]); s.extend_from_slice(b"\nabc\nOK\n");
    }
    // truncation / corruption
    match r.below(6) {
        0 => { let n = r.below(s.len() + 1); s.truncate(n); }
        1 => { if !s.is_empty() { let p = r.below(s.len()); s[p] = [b'\n', 0xff, b':', b' ', 0, b'O'][r.below(6)]; } }
        2 => { if !s.is_empty() { let p = r.below(s.len()); s.remove(p); } }
        _ => {}
    }
    s
}
fn main() {
    let a: Vec<String> = std::env::args().collect();
    let seed: u64 = a.get(1).and_then(|x| x.parse().ok()).unwrap_or(1);
    let n: usize = a.get(2).and_then(|x| x.parse().ok()).unwrap_or(2000);
    std::panic::set_hook(Box::new(|_| {}));
    let trace = std::env::var("VX_TRACE").is_ok();
    let mut r = Rng(seed.wrapping_mul(0x9E3779B97F4A7C15) | 1);
    let mut distinct = std::collections::HashSet::new();
    for case in 0..n {
        let s = gen_stream(&mut r);
        let huge = s.len() > 60_000;
        let mut cuts: Vec<usize> = match (if huge { [0usize, 2, 3, 4, 5][r.below(5)] } else { r.below(5) }) {
            0 => vec![],
            1 => (1..s.len()).collect(),                                   // one byte at a time
            2 => vec![r.below(s.len() + 1)],
            3 => (0..r.below(6)).map(|_| r.below(s.len() + 1)).collect(),
            5 => { let k = s.len().saturating_sub(1 + r.below(40)); vec![k] }      // everything but the last few bytes in one segment
            _ => vec![4096usize.min(s.len()), 8192usize.min(s.len())],
        };
        cuts.sort(); cuts.dedup();
        distinct.insert(s.clone());
        if trace { println!("TRY {{\"case\":{},\"stream_hex\":\"{}\",\"cuts\":\"{}\"}}", case, to_hex(&s), cuts.iter().map(|c| c.to_string()).collect::<Vec<_>>().join(",")); use std::io::Write; std::io::stdout().flush().ok(); }
        let expect = ref_outcomes(&s);
        let m = expect.len() + 2;
        let b = real_blocking(&s, &cuts, m);
        let y = if case % 4 == 0 || huge { real_async(&s, &cuts, m) } else { Ok(expect.clone()) };
        if b.as_ref() != Ok(&expect) || y.as_ref() != Ok(&expect) {
            let y = real_async(&s, &cuts, m);
            let (bad, other) = if b.as_ref() != Ok(&expect) { (&b, &y) } else { (&y, &b) };
            let unseg = if b.as_ref() != Ok(&expect) { real_blocking(&s, &[], m) } else { real_async(&s, &[], m) };
            let props = deviation_props(&s, &expect, bad, other, &unseg);
            println!("{{\"props\":{:?},\"case\":{},\"stream_hex\":\"{}\",\"cuts\":\"{}\",\"oracle\":{:?},\"blocking\":{:?},\"async\":{:?}}}", props, case, to_hex(&s),
                     cuts.iter().map(|c| c.to_string()).collect::<Vec<_>>().join(","), format!("{:?}", expect), format!("{:?}", b), format!("{:?}", y));
            std::process::exit(1);
        }
    }
    println!("{{\"cases\":{},\"distinct_streams\":{},\"deviations\":0}}", n, distinct.len());
}

//! Bounded DIFFERENTIAL check of C15 ("predefined commands render to the documented MPD request for all parameters").
//! For every predefined command of `mpd_client::commands` and every constructor / builder path it offers, parameter values
//! are generated (all combinations of boundary values once, then seeded random draws), the REAL `Command::command()` is
//! rendered by the REAL connection (`wire_of_command`), the line is read back with the port of MPD's request tokenizer, and
//! (command word, arguments) are compared SEMANTICALLY with an expectation computed by the oracle in this file, which is
//! written from the MPD protocol reference (request syntax per command), not from the library's code:
//!   string parameters byte-identical as exactly one argument in the documented position, numbers numerically, ranges `a:b`
//!   / `a:` as the (from, to) pair the Rust bounds denote (saturating at usize::MAX), durations within 0.0005 s of the exact
//!   value (crossfade: whole seconds), setvol clamped to 100, enums / tags by MPD's names, filters only as "one argument
//!   starting with `(`" (their content is C11).
//! Not generated (known finding of C06): strings WITHOUT a blank that contain `'`, `"` or `\`; LF and NUL (builder panics).
//! Duration domain: the default paths draw durations MPD itself can represent (<= u32::MAX milliseconds, where f64 keeps
//! sub-nanosecond precision); durations beyond that (up to Duration::MAX) live in the separate `...~huge` paths, which
//! `search` only runs when a 4th argument `huge` is given. FINDING there (real, replay: `cmd_diff case 'Seek(Absolute)~huge' 0`):
//! the time is rendered through f64, which cannot hold millisecond precision for such values, e.g. 2^40 s + 123456789 ns is sent
//! as `1099511627776.124` (0.54 ms off), u64::MAX - 1 s as `18446744073709551616.000` (2 s off). Crossfade (whole seconds) is exact.
//!
//! usage: cmd_diff search <seed> <n> [huge]   all boundary combinations of every path + n random draws per path; the first
//!                                            deviation is printed as one JSON object on the last line, exit 1; else
//!                                            {"cases":..,"paths":..}, exit 0
//!        cmd_diff case <path> <case>         replay of one case (pure function of path and case: case < 10^9 is the index of
//!                                            a boundary combination, otherwise case = seed * 10^9 + number of the random draw)
//!        cmd_diff paths                      list of the paths with their number of boundary combinations
use mpd_client::commands::*;
use mpd_client::filter::{Filter, Operator};
use mpd_client::tag::Tag;
use mpd_protocol::Command as Raw;
use std::ops::Bound;
use std::time::Duration;
use vx_replay::{mpdtok::mpd_tokenize, verdict, wire_of_command};

struct Rng(u64);
impl Rng { fn next(&mut self) -> u64 { self.0 ^= self.0 << 13; self.0 ^= self.0 >> 7; self.0 ^= self.0 << 17; self.0 } fn below(&mut self, n: usize) -> usize { (self.next() % n.max(1) as u64) as usize } }
fn mix(mut x: u64) -> u64 { x ^= x >> 33; x = x.wrapping_mul(0xff51afd7ed558ccd); x ^= x >> 33; x = x.wrapping_mul(0xc4ceb9fe1a85ec53); x ^= x >> 33; x }
fn fnv(s: &str) -> u64 { s.bytes().fold(0xcbf29ce484222325u64, |h, b| (h ^ b as u64).wrapping_mul(0x100000001b3)) }

// ---------------------------------------------------------------------------------------------- parameter generation
const UMAX: usize = usize::MAX;
const USIZE_B: [usize; 5] = [0, 1, 5, UMAX - 1, UMAX];
const U64_B: [u64; 5] = [0, 1, 5, u64::MAX - 1, u64::MAX];
/// (seconds, nanoseconds): zero, sub-millisecond, the rounding ties and their neighbours, carries into the next second, MPD's maximum
const DUR_B: [(u64, u32); 16] = [(0, 0), (0, 1), (0, 499_999), (0, 500_000), (0, 500_001), (0, 999_999), (0, 1_000_000), (0, 1_500_000), (0, 999_499_999),
    (0, 999_500_000), (0, 999_999_999), (1, 0), (1, 1), (59, 999_500_001), (3600, 250_000_000), (4_294_967, 295_000_000)];
const DUR_HUGE: [(u64, u32); 8] = [(1 << 40, 123_456_789), (9_007_199_254_741, 1_000_000), (1 << 53, 500_000_000), (10_000_000_000_000_000, 1), (1 << 63, 250_000_000),
    (u64::MAX - 1, 0), (u64::MAX, 0), (u64::MAX, 999_999_999)];
const NANOS_B: [u32; 10] = [0, 1, 499_999, 500_000, 500_001, 999_999, 1_000_000, 999_499_999, 999_500_000, 999_999_999];
/// every string without a blank is free of quotes and backslashes (see the header); blanks include TAB; non-ASCII included
const STRS: [&str; 14] = ["abc", "two words", " lead", "trail ", "caf\u{e9}", "a/b c.mp3", "x_y", "tab\there", "say \"hi\" it's", "back\\slash dir", "\u{65e5}\u{672c} \u{8a9e}", "(a == 'b') x", "1:2", "+5"];
const STR_CH: [char; 24] = ['a', 'b', 'Z', '0', '9', ' ', ' ', '\t', '\r', '\x1f', '\u{e9}', '/', '.', '_', '-', '\u{65e5}', ':', '=', '(', ')', '"', '\'', '\\', '~'];

#[derive(Clone, Copy, Debug, PartialEq)]
enum B { Unb, Inc(usize), Exc(usize) }
impl B { fn bound<T>(self, w: impl Fn(usize) -> T) -> Bound<T> { match self { B::Unb => Bound::Unbounded, B::Inc(a) => Bound::Included(w(a)), B::Exc(a) => Bound::Excluded(w(a)) } } }
#[derive(Clone, Copy, PartialEq)]
enum Dom { Mpd, Huge, Any }
#[derive(Clone, Copy, PartialEq)]
enum Mode { Count, Boundary, Random }

/// source of parameter values: Count = measure the number of boundary combinations, Boundary = mixed-radix digits of `case`
/// select one boundary value per draw ("light" draws only sweep their values, they do not multiply), Random = seeded draws
struct Gen { mode: Mode, case: u64, digits: u64, product: u64, light_max: u64, picks: u64, light: bool, rng: Rng, desc: Vec<String> }
impl Gen {
    fn new(mode: Mode, case: u64, state: u64) -> Gen { Gen { mode, case, digits: case, product: 1, light_max: 1, picks: 0, light: false, rng: Rng(state | 1), desc: vec![] } }
    fn lite(&mut self) -> &mut Gen { self.light = true; self }
    /// index into a list of n listed values; None = draw a random value outside the list (never for enum-like lists)
    fn idx(&mut self, n: usize, enum_like: bool) -> Option<usize> {
        let light = std::mem::take(&mut self.light);
        self.picks += 1;
        let n64 = n as u64;
        match self.mode {
            Mode::Count => { if light { self.light_max = self.light_max.max(n64) } else { self.product = self.product.saturating_mul(n64) } Some(0) }
            Mode::Boundary => Some(if light { ((self.case + self.case / n64 + self.picks * 3) % n64) as usize } else { let i = self.digits % n64; self.digits /= n64; i as usize }),
            Mode::Random => if enum_like || self.rng.below(4) == 0 { Some(self.rng.below(n)) } else { None },
        }
    }
    fn note<T: std::fmt::Debug>(&mut self, v: T) -> T { self.desc.push(format!("{v:?}")); v }
    fn rand_u64(&mut self) -> u64 {
        match self.rng.below(5) { 0 => self.rng.below(100) as u64, 1 => u64::MAX - self.rng.below(100) as u64, 2 => (1u64 << self.rng.below(64)).wrapping_add(self.rng.below(3) as u64).wrapping_sub(1), 3 => self.rng.below(100_000) as u64, _ => self.rng.next() }
    }
    fn choice(&mut self, n: usize) -> usize { let i = self.idx(n, true).unwrap(); self.note(i) }
    fn boolean(&mut self) -> bool { let i = self.idx(2, true).unwrap(); self.note(i == 1) }
    fn usize(&mut self) -> usize { let v = match self.idx(USIZE_B.len(), false) { Some(i) => USIZE_B[i], None => self.rand_u64() as usize }; self.note(v) }
    fn u64(&mut self) -> u64 { let v = match self.idx(U64_B.len(), false) { Some(i) => U64_B[i], None => self.rand_u64() }; self.note(v) }
    fn u8(&mut self) -> u8 { let v = match self.idx(256, false) { Some(i) => i as u8, None => self.rng.below(256) as u8 }; self.note(v) }
    fn bound_of(&mut self, open_allowed: bool) -> B {
        let k = USIZE_B.len();
        let off = if open_allowed { 1 } else { 0 };
        let b = match self.idx(2 * k + off, false) {
            Some(i) if i < off => B::Unb,
            Some(i) => if (i - off) / k == 0 { B::Inc(USIZE_B[(i - off) % k]) } else { B::Exc(USIZE_B[(i - off) % k]) },
            None => { let v = self.rand_u64() as usize; match self.rng.below(if open_allowed { 5 } else { 4 }) { 0 | 1 => B::Inc(v), 2 | 3 => B::Exc(v), _ => B::Unb } }
        };
        self.note(b)
    }
    /// (start bound, end bound, pass it as a (Bound, Bound) tuple instead of the native range syntax)
    fn range(&mut self) -> (B, B, bool) { let s = self.bound_of(true); let e = self.bound_of(true); (s, e, self.lite().boolean()) }
    fn range_closed(&mut self) -> (B, B, bool) { let s = self.bound_of(true); let e = self.bound_of(false); (s, e, self.lite().boolean()) }
    fn string(&mut self, allow_empty: bool) -> String {
        let n = STRS.len() + allow_empty as usize;
        let v = match self.idx(n, false) {
            Some(i) if i < STRS.len() => STRS[i].to_string(),
            Some(_) => String::new(),
            None => {
                let len = if allow_empty && self.rng.below(8) == 0 { 0 } else { 1 + self.rng.below(10) };
                let mut s: String = (0..len).map(|_| STR_CH[self.rng.below(STR_CH.len())]).collect();
                if !s.chars().any(|c| c <= ' ') { s = s.replace(['"', '\'', '\\'], "~"); }
                s
            }
        };
        self.note(v)
    }
    fn dur(&mut self, dom: Dom) -> Duration {
        let list: Vec<(u64, u32)> = match dom { Dom::Mpd => DUR_B.to_vec(), Dom::Huge => DUR_HUGE.to_vec(), Dom::Any => DUR_B.iter().chain(DUR_HUGE.iter()).copied().collect() };
        let (s, n) = match self.idx(list.len(), false) {
            Some(i) => list[i],
            None => {
                let huge = match dom { Dom::Mpd => false, Dom::Huge => true, Dom::Any => self.rng.below(2) == 0 };
                let secs = if huge {
                    let s = match self.rng.below(3) { 0 => self.rng.next(), 1 => (1u64 << self.rng.below(64)).wrapping_add(self.rng.below(1000) as u64), _ => u64::MAX - self.rng.below(1000) as u64 };
                    if s <= 4_294_967 { s + (1 << 33) } else { s }
                } else { match self.rng.below(4) { 0 => 0, 1 => self.rng.below(100) as u64, 2 => self.rng.below(86_400) as u64, _ => self.rng.below(4_294_967) as u64 } };
                let nanos = match self.rng.below(3) { 0 => NANOS_B[self.rng.below(NANOS_B.len())], 1 => self.rng.below(999) as u32 * 1_000_000 + [0, 499_999, 500_000, 500_001, 999_999][self.rng.below(5)], _ => self.rng.below(1_000_000_000) as u32 };
                (secs, nanos)
            }
        };
        self.note(Duration::new(s, n))
    }
    fn tag(&mut self) -> (Tag, String) { let mut t = tag_table(); let i = self.idx(t.len(), true).unwrap(); let (tag, name) = t.swap_remove(i); self.note(&tag); (tag, name.to_string()) }
    fn tags(&mut self, n: usize) -> (Vec<Tag>, Vec<String>) { let mut a = vec![]; let mut b = vec![]; for _ in 0..n { let (t, s) = self.lite().tag(); a.push(t); b.push(s); } (a, b) }
    fn filter(&mut self) -> Filter {
        let i = self.idx(4, true).unwrap();
        let val = if self.mode == Mode::Random { let mut s = self.string(true); s = s.replace(['"', '\'', '\\'], "~"); s } else { "Foo Bar".to_string() };
        let f = match i {
            0 => Filter::tag(Tag::Artist, val),
            1 => Filter::new(Tag::Album, Operator::Contain, val),
            2 => !Filter::tag_exists(Tag::Title),
            _ => Filter::tag(Tag::Artist, val).and(Filter::tag_absent(Tag::Genre)).and(Filter::new(Tag::any(), Operator::Match, "x.*y").negate()),
        };
        self.note(f)
    }
}

// ---------------------------------------------------------------------------------------------- the oracle
/// MPD's tag names (tag/Names.cxx); the MusicBrainz ones by what the identifiers denote (MUSICBRAINZ_TRACKID is the recording id,
/// MUSICBRAINZ_RELEASETRACKID the track id, ALBUMID the release id, ALBUMARTISTID the release artist id)
fn tag_table() -> Vec<(Tag, &'static str)> {
    vec![(Tag::Album, "Album"), (Tag::AlbumArtist, "AlbumArtist"), (Tag::AlbumArtistSort, "AlbumArtistSort"), (Tag::AlbumSort, "AlbumSort"), (Tag::Artist, "Artist"),
        (Tag::ArtistSort, "ArtistSort"), (Tag::Comment, "Comment"), (Tag::Composer, "Composer"), (Tag::ComposerSort, "ComposerSort"), (Tag::Conductor, "Conductor"),
        (Tag::Date, "Date"), (Tag::Disc, "Disc"), (Tag::Ensemble, "Ensemble"), (Tag::Genre, "Genre"), (Tag::Grouping, "Grouping"), (Tag::Label, "Label"),
        (Tag::Location, "Location"), (Tag::Movement, "Movement"), (Tag::MovementNumber, "MovementNumber"), (Tag::MusicBrainzArtistId, "MUSICBRAINZ_ARTISTID"),
        (Tag::MusicBrainzRecordingId, "MUSICBRAINZ_TRACKID"), (Tag::MusicBrainzReleaseArtistId, "MUSICBRAINZ_ALBUMARTISTID"), (Tag::MusicBrainzReleaseId, "MUSICBRAINZ_ALBUMID"),
        (Tag::MusicBrainzTrackId, "MUSICBRAINZ_RELEASETRACKID"), (Tag::MusicBrainzWorkId, "MUSICBRAINZ_WORKID"), (Tag::Name, "Name"), (Tag::OriginalDate, "OriginalDate"),
        (Tag::Performer, "Performer"), (Tag::Title, "Title"), (Tag::Track, "Track"), (Tag::Work, "Work"),
        (Tag::any(), "any"), (Tag::Other("Mood".into()), "Mood"), (Tag::Other("x-custom_tag".into()), "x-custom_tag")]
}

/// what one argument of the request has to denote
#[derive(Clone, Debug)]
enum Want {
    /// a string parameter (or tag name): byte-identical
    S(String),
    /// a keyword of the request syntax
    K(&'static str),
    /// a number: decimal digits, numerically equal
    N(u128),
    /// `from:to` or `from:`
    R(u128, Option<u128>),
    /// `+n` / `-n` (relative to the current song)
    Rel(u8, u128),
    /// seconds with a fractional part, within half a millisecond of the exact duration
    T(Duration),
    /// the same with a mandatory sign (seekcur)
    ST(u8, Duration),
    /// a filter expression: one argument starting with `(`
    F,
}
fn s(x: &str) -> Want { Want::S(x.to_string()) }
fn k(x: &'static str) -> Want { Want::K(x) }
fn n<T: Into<u128>>(x: T) -> Want { Want::N(x.into()) }
fn nu(x: usize) -> Want { Want::N(x as u128) }
fn bit(b: bool) -> Want { Want::K(if b { "1" } else { "0" }) }
/// the (from, to) pair denoted by Rust range bounds over queue positions; +1 saturates at usize::MAX
fn rw(start: B, end: B) -> Want {
    const M: u128 = usize::MAX as u128;
    let from = match start { B::Inc(a) => a as u128, B::Exc(a) => (a as u128 + 1).min(M), B::Unb => 0 };
    let to = match end { B::Inc(b) => Some((b as u128 + 1).min(M)), B::Exc(b) => Some(b as u128), B::Unb => None };
    Want::R(from, to)
}
/// the one-element range denoting a single position
fn one(p: usize) -> Want { rw(B::Inc(p), B::Inc(p)) }

fn lossy(b: &[u8]) -> String { String::from_utf8_lossy(b).into_owned() }
fn digits(b: &[u8]) -> Result<u128, String> {
    if b.is_empty() || b.len() > 38 || !b.iter().all(|c| c.is_ascii_digit()) { return Err(format!("{:?} is not a decimal number", lossy(b))); }
    Ok(b.iter().fold(0u128, |a, c| a * 10 + (c - b'0') as u128))
}
/// decimal seconds -> nanoseconds (digits beyond the ninth fractional one are cut)
fn secs_to_nanos(b: &[u8]) -> Result<u128, String> {
    let (int, frac) = match b.iter().position(|&c| c == b'.') { Some(i) => (&b[..i], &b[i + 1..]), None => (b, &b[..0]) };
    if int.len() > 25 || !frac.iter().all(|c| c.is_ascii_digit()) { return Err(format!("{:?} is not a decimal number of seconds", lossy(b))); }
    let i = digits(int).map_err(|_| format!("{:?} is not a decimal number of seconds", lossy(b)))?;
    let mut f = 0u128;
    for j in 0..9 { f = f * 10 + frac.get(j).map(|c| (c - b'0') as u128).unwrap_or(0); }
    Ok(i * 1_000_000_000 + f)
}
fn near(b: &[u8], d: Duration) -> Result<(), String> {
    let got = secs_to_nanos(b)?;
    let exact = d.as_secs() as u128 * 1_000_000_000 + d.subsec_nanos() as u128;
    if got.abs_diff(exact) <= 500_000 { Ok(()) } else { Err(format!("{:?} is {} ns away from the exact duration {}.{:09} s (more than half a millisecond)", lossy(b), got.abs_diff(exact), d.as_secs(), d.subsec_nanos())) }
}
fn check_arg(a: &[u8], w: &Want) -> Result<(), String> {
    match w {
        Want::S(x) => if a == x.as_bytes() { Ok(()) } else { Err(format!("string parameter {:?} arrives as {:?}", x, lossy(a))) },
        Want::K(x) => if a == x.as_bytes() { Ok(()) } else { Err(format!("expected the word {:?}, got {:?}", x, lossy(a))) },
        Want::N(x) => { let g = digits(a)?; if g == *x { Ok(()) } else { Err(format!("number {x} sent as {g}")) } }
        Want::R(from, to) => {
            let c = a.iter().position(|&c| c == b':').ok_or(format!("{:?} is not a range", lossy(a)))?;
            let gf = digits(&a[..c])?;
            let gt = if a[c + 1..].is_empty() { None } else { Some(digits(&a[c + 1..])?) };
            if (gf, gt) == (*from, *to) { Ok(()) } else { Err(format!("range sent as {:?} denotes ({gf}, {gt:?}), the Rust value denotes ({from}, {to:?})", lossy(a))) }
        }
        Want::Rel(sign, x) => {
            if a.first() != Some(sign) { return Err(format!("expected a relative position with sign {:?}, got {:?}", *sign as char, lossy(a))); }
            let g = digits(&a[1..])?; if g == *x { Ok(()) } else { Err(format!("relative offset {x} sent as {g}")) }
        }
        Want::T(d) => near(a, *d),
        Want::ST(sign, d) => { if a.first() != Some(sign) { return Err(format!("expected a time with sign {:?}, got {:?}", *sign as char, lossy(a))); } near(&a[1..], *d) }
        Want::F => if a.first() == Some(&b'(') { Ok(()) } else { Err(format!("expected a filter expression, got {:?}", lossy(a))) },
    }
}
fn compare(name: &[u8], args: &[Vec<u8>], want_name: &str, want: &[Want]) -> Result<(), String> {
    if name != want_name.as_bytes() { return Err(format!("command word {:?}, documented {:?}", lossy(name), want_name)); }
    if args.len() != want.len() { return Err(format!("{} arguments {:?}, documented {} {:?}", args.len(), args.iter().map(|a| lossy(a)).collect::<Vec<_>>(), want.len(), want)); }
    for (i, (a, w)) in args.iter().zip(want).enumerate() { check_arg(a, w).map_err(|e| format!("argument {}: {e}", i + 1))?; }
    Ok(())
}

// ---------------------------------------------------------------------------------------------- the paths
struct Trial { name: &'static str, args: Vec<Want>, alt: Option<Vec<Want>>, got: Result<Raw, String> }
type PathFn = fn(&mut Gen) -> Trial;
fn panic_text(e: Box<dyn std::any::Any + Send>) -> String { e.downcast_ref::<String>().cloned().or_else(|| e.downcast_ref::<&str>().map(|s| s.to_string())).unwrap_or_else(|| "?".into()) }
/// documented request (word, arguments) + the real constructor / builder chain and `command()`, run under catch_unwind
fn t(name: &'static str, args: Vec<Want>, f: impl FnOnce() -> Raw) -> Trial {
    Trial { name, args, alt: None, got: std::panic::catch_unwind(std::panic::AssertUnwindSafe(f)).map_err(panic_text) }
}
fn or(mut t: Trial, alt: Vec<Want>) -> Trial { t.alt = Some(alt); t }
fn cat(a: Vec<Want>, b: Vec<Want>) -> Vec<Want> { a.into_iter().chain(b).collect() }
fn groups(names: &[String]) -> Vec<Want> { names.iter().flat_map(|g| [k("group"), s(g)]).collect() }
fn id(x: usize) -> usize { x }

/// run `$body` with `$r` bound to the Rust range value for the bounds: the native syntax where it exists, else a (Bound, Bound) tuple
macro_rules! with_range {
    ($tup:expr, $s:expr, $e:expr, $w:expr, |$r:ident| $body:expr) => {{
        let w = $w;
        let (s0, e0, tup): (B, B, bool) = ($s, $e, $tup);
        match (s0, e0, tup) {
            (B::Inc(a), B::Exc(b), false) => { let $r = w(a)..w(b); $body }
            (B::Inc(a), B::Inc(b), false) => { let $r = w(a)..=w(b); $body }
            (B::Inc(a), B::Unb, false) => { let $r = w(a)..; $body }
            (B::Unb, B::Exc(b), false) => { let $r = ..w(b); $body }
            (B::Unb, B::Inc(b), false) => { let $r = ..=w(b); $body }
            (B::Unb, B::Unb, false) => { let $r = ..; $body }
            _ => { let $r = (s0.bound(w), e0.bound(w)); $body }
        }
    }};
}

fn paths() -> Vec<(&'static str, PathFn)> {
    let mut v: Vec<(&'static str, PathFn)> = vec![];
    fn add(v: &mut Vec<(&'static str, PathFn)>, name: &'static str, f: PathFn) { v.push((name, f)); }
    macro_rules! argless { ($p:literal, $w:literal, $c:expr) => { add(&mut v, $p, |_| t($w, vec![], || $c.command())); }; }
    macro_rules! one_str { ($p:literal, $w:literal, $c:expr) => { add(&mut v, $p, |g| { let a = g.string(false); t($w, vec![s(&a)], || $c(&a).command()) }); }; }
    macro_rules! one_bool { ($p:literal, $w:literal, $c:expr) => { add(&mut v, $p, |g| { let b = g.boolean(); t($w, vec![bit(b)], || $c(b).command()) }); }; }

    argless!("ClearQueue", "clear", ClearQueue);
    argless!("Next", "next", Next);
    argless!("Ping", "ping", Ping);
    argless!("Previous", "previous", Previous);
    argless!("Stop", "stop", Stop);
    argless!("ReplayGainStatus", "replay_gain_status", ReplayGainStatus);
    argless!("Status", "status", Status);
    argless!("Stats", "stats", Stats);
    argless!("CurrentSong", "currentsong", CurrentSong);
    argless!("GetPlaylists", "listplaylists", GetPlaylists);
    argless!("GetEnabledTagTypes", "tagtypes", GetEnabledTagTypes);
    argless!("ReadChannelMessages", "readmessages", ReadChannelMessages);
    argless!("ListChannels", "channels", ListChannels);
    argless!("Queue", "playlistinfo", Queue);
    argless!("Queue::all", "playlistinfo", Queue::all());
    one_str!("ClearPlaylist", "playlistclear", ClearPlaylist);
    one_str!("DeletePlaylist", "rm", DeletePlaylist);
    one_str!("SaveQueueAsPlaylist", "save", SaveQueueAsPlaylist);
    one_str!("SubscribeToChannel", "subscribe", SubscribeToChannel);
    one_str!("UnsubscribeFromChannel", "unsubscribe", UnsubscribeFromChannel);
    one_str!("GetPlaylist", "listplaylistinfo", GetPlaylist);
    one_bool!("SetConsume", "consume", SetConsume);
    one_bool!("SetPause", "pause", SetPause);
    one_bool!("SetRandom", "random", SetRandom);
    one_bool!("SetRepeat", "repeat", SetRepeat);

    // queue inspection: playlistid ID / playlistinfo POS / playlistinfo START:END
    add(&mut v, "QueueRange::song(Id)", |g| { let i = g.u64(); let e = g.lite().boolean(); t("playlistid", vec![n(i)], || (if e { QueueRange::song(Song::Id(SongId::from(i))) } else { QueueRange::song(SongId(i)) }).command()) });
    add(&mut v, "QueueRange::song(Position)", |g| { let p = g.usize(); let e = g.lite().boolean(); t("playlistinfo", vec![nu(p)], || (if e { QueueRange::song(Song::Position(SongPosition::from(p))) } else { QueueRange::song(SongPosition(p)) }).command()) });
    add(&mut v, "QueueRange::range", |g| { let (a, b, tup) = g.range(); t("playlistinfo", vec![rw(a, b)], || with_range!(tup, a, b, SongPosition, |r| QueueRange::range(r).command())) });
    add(&mut v, "Queue::song(Id)", |g| { let i = g.u64(); t("playlistid", vec![n(i)], || Queue::song(SongId(i)).command()) });
    add(&mut v, "Queue::song(Position)", |g| { let p = g.usize(); t("playlistinfo", vec![nu(p)], || Queue::song(SongPosition(p)).command()) });
    add(&mut v, "Queue::range", |g| { let (a, b, tup) = g.range(); t("playlistinfo", vec![rw(a, b)], || with_range!(tup, a, b, SongPosition, |r| Queue::range(r).command())) });

    // playback options
    add(&mut v, "SetVolume", |g| { let x = g.u8(); t("setvol", vec![n(if x > 100 { 100u8 } else { x })], || SetVolume(x).command()) });
    add(&mut v, "SetSingle", |g| { let (m, w) = [(SingleMode::Disabled, "0"), (SingleMode::Enabled, "1"), (SingleMode::Oneshot, "oneshot")][g.choice(3)]; t("single", vec![k(w)], || SetSingle(m).command()) });
    add(&mut v, "SetReplayGainMode", |g| { let (m, w) = [(ReplayGainMode::Off, "off"), (ReplayGainMode::Track, "track"), (ReplayGainMode::Album, "album"), (ReplayGainMode::Auto, "auto")][g.choice(4)]; t("replay_gain_mode", vec![k(w)], || SetReplayGainMode(m).command()) });
    add(&mut v, "Crossfade", |g| { let d = g.dur(Dom::Any); t("crossfade", vec![n(d.as_secs())], || Crossfade(d).command()) });

    // seeking: seek POS TIME / seekid ID TIME / seekcur [+-]TIME
    add(&mut v, "SeekTo(Position)", |g| seek_to_pos(g, Dom::Mpd));
    add(&mut v, "SeekTo(Id)", |g| seek_to_id(g, Dom::Mpd));
    add(&mut v, "Seek(Absolute)", |g| { let d = g.dur(Dom::Mpd); t("seekcur", vec![Want::T(d)], || Seek(SeekMode::Absolute(d)).command()) });
    add(&mut v, "Seek(Forward)", |g| { let d = g.dur(Dom::Mpd); t("seekcur", vec![Want::ST(b'+', d)], || Seek(SeekMode::Forward(d)).command()) });
    add(&mut v, "Seek(Backward)", |g| { let d = g.dur(Dom::Mpd); t("seekcur", vec![Want::ST(b'-', d)], || Seek(SeekMode::Backward(d)).command()) });

    add(&mut v, "Shuffle::all", |_| t("shuffle", vec![], || Shuffle::all().command()));
    add(&mut v, "Shuffle::range", |g| { let (a, b, tup) = g.range(); t("shuffle", vec![rw(a, b)], || with_range!(tup, a, b, SongPosition, |r| Shuffle::range(r).command())) });
    add(&mut v, "Play::current", |_| t("play", vec![], || Play::current().command()));
    add(&mut v, "Play::song(Position)", |g| { let p = g.usize(); let e = g.lite().boolean(); t("play", vec![nu(p)], || (if e { Play::song(Song::Position(SongPosition(p))) } else { Play::song(SongPosition(p)) }).command()) });
    add(&mut v, "Play::song(Id)", |g| { let i = g.u64(); let e = g.lite().boolean(); t("playid", vec![n(i)], || (if e { Play::song(Song::Id(SongId(i))) } else { Play::song(SongId(i)) }).command()) });

    // addid URI [POSITION | +N | -N]
    add(&mut v, "Add::uri", |g| { let u = g.string(false); t("addid", vec![s(&u)], || Add::uri(&u).command()) });
    add(&mut v, "Add::uri.at", |g| { let u = g.string(false); let p = g.usize(); let e = g.lite().boolean(); t("addid", vec![s(&u), nu(p)], || (if e { Add::uri(&u).at(SongPosition(p)) } else { Add::uri(&u).at(p) }).command()) });
    add(&mut v, "Add::uri.before_current", |g| { let u = g.string(false); let d = g.usize(); t("addid", vec![s(&u), Want::Rel(b'-', d as u128)], || Add::uri(&u).before_current(d).command()) });
    add(&mut v, "Add::uri.after_current", |g| { let u = g.string(false); let d = g.usize(); t("addid", vec![s(&u), Want::Rel(b'+', d as u128)], || Add::uri(&u).after_current(d).command()) });
    // not in the given table: repeated builder call, the last one wins
    add(&mut v, "Add::uri.at.before_current", |g| { let u = g.lite().string(false); let p = g.usize(); let d = g.usize(); t("addid", vec![s(&u), Want::Rel(b'-', d as u128)], || Add::uri(&u).at(p).before_current(d).command()) });

    // deleteid ID / delete START:END
    add(&mut v, "Delete::id", |g| { let i = g.u64(); t("deleteid", vec![n(i)], || Delete::id(SongId(i)).command()) });
    add(&mut v, "Delete::position", |g| { let p = g.usize(); t("delete", vec![one(p)], || Delete::position(SongPosition(p)).command()) });
    add(&mut v, "Delete::range", |g| { let (a, b, tup) = g.range(); t("delete", vec![rw(a, b)], || with_range!(tup, a, b, SongPosition, |r| Delete::range(r).command())) });

    // moveid ID TO / move START:END TO, TO = POS | +N | -N
    add(&mut v, "Move::id.to_position", |g| { let i = g.u64(); let p = g.usize(); t("moveid", vec![n(i), nu(p)], || Move::id(SongId(i)).to_position(SongPosition(p)).command()) });
    add(&mut v, "Move::id.after_current", |g| { let i = g.u64(); let d = g.usize(); t("moveid", vec![n(i), Want::Rel(b'+', d as u128)], || Move::id(SongId(i)).after_current(d).command()) });
    add(&mut v, "Move::id.before_current", |g| { let i = g.u64(); let d = g.usize(); t("moveid", vec![n(i), Want::Rel(b'-', d as u128)], || Move::id(SongId(i)).before_current(d).command()) });
    // not in the given table: Move::position, taken as the one-element range like Delete::position (MPD also takes the bare position)
    add(&mut v, "Move::position.to_position", |g| { let f = g.usize(); let p = g.usize(); or(t("move", vec![one(f), nu(p)], || Move::position(SongPosition(f)).to_position(SongPosition(p)).command()), vec![nu(f), nu(p)]) });
    add(&mut v, "Move::position.after_current", |g| { let f = g.usize(); let d = g.usize(); or(t("move", vec![one(f), Want::Rel(b'+', d as u128)], || Move::position(SongPosition(f)).after_current(d).command()), vec![nu(f), Want::Rel(b'+', d as u128)]) });
    add(&mut v, "Move::position.before_current", |g| { let f = g.usize(); let d = g.usize(); or(t("move", vec![one(f), Want::Rel(b'-', d as u128)], || Move::position(SongPosition(f)).before_current(d).command()), vec![nu(f), Want::Rel(b'-', d as u128)]) });
    add(&mut v, "Move::range.to_position", |g| { let (a, b, tup) = g.range_closed(); let p = g.usize(); t("move", vec![rw(a, b), nu(p)], || with_range!(tup, a, b, SongPosition, |r| Move::range(r).to_position(SongPosition(p)).command())) });
    add(&mut v, "Move::range.after_current", |g| { let (a, b, tup) = g.range_closed(); let d = g.usize(); t("move", vec![rw(a, b), Want::Rel(b'+', d as u128)], || with_range!(tup, a, b, SongPosition, |r| Move::range(r).after_current(d).command())) });
    add(&mut v, "Move::range.before_current", |g| { let (a, b, tup) = g.range_closed(); let d = g.usize(); t("move", vec![rw(a, b), Want::Rel(b'-', d as u128)], || with_range!(tup, a, b, SongPosition, |r| Move::range(r).before_current(d).command())) });

    // find FILTER [sort TAG] [window START:END]
    add(&mut v, "Find::new", |g| { let f = g.filter(); t("find", vec![Want::F], || Find::new(f).command()) });
    add(&mut v, "Find::new.sort", |g| { let f = g.filter(); let (tg, tn) = g.tag(); t("find", vec![Want::F, k("sort"), s(&tn)], || Find::new(f).sort(tg).command()) });
    add(&mut v, "Find::new.window", |g| { let f = g.filter(); let (a, b, tup) = g.range(); t("find", vec![Want::F, k("window"), rw(a, b)], || with_range!(tup, a, b, id, |r| Find::new(f).window(r).command())) });
    add(&mut v, "Find::new.sort.window", |g| { let f = g.lite().filter(); let (tg, tn) = g.tag(); let (a, b, tup) = g.range(); t("find", vec![Want::F, k("sort"), s(&tn), k("window"), rw(a, b)], || with_range!(tup, a, b, id, |r| Find::new(f).sort(tg).window(r).command())) });
    add(&mut v, "Find::new.window.sort", |g| { let f = g.lite().filter(); let (a, b, tup) = g.range(); let (tg, tn) = g.lite().tag(); t("find", vec![Want::F, k("sort"), s(&tn), k("window"), rw(a, b)], || with_range!(tup, a, b, id, |r| Find::new(f).window(r).sort(tg).command())) });
    // not in the given table: repeated builder calls, the last one wins
    add(&mut v, "Find::new.sort.sort.window.window", |g| { let f = g.lite().filter(); let (t0, _) = g.lite().tag(); let (tg, tn) = g.lite().tag(); let x = g.lite().usize(); let (a, b, tup) = g.range(); t("find", vec![Want::F, k("sort"), s(&tn), k("window"), rw(a, b)], || with_range!(tup, a, b, id, |r| Find::new(f).sort(t0).sort(tg).window(x..).window(r).command())) });

    // list TYPE [FILTER] [group GROUPTYPE]...
    add(&mut v, "List::new", |g| { let (tg, tn) = g.tag(); t("list", vec![s(&tn)], || List::new(tg).command()) });
    add(&mut v, "List::new.filter", |g| { let (tg, tn) = g.tag(); let f = g.filter(); t("list", vec![s(&tn), Want::F], || List::new(tg).filter(f).command()) });
    add(&mut v, "List::new.group_by[0]", |g| { let (tg, tn) = g.tag(); t("list", vec![s(&tn)], || List::new(tg).group_by([]).command()) });
    add(&mut v, "List::new.group_by[1]", |g| { let (tg, tn) = g.tag(); let (a, an) = g.tag(); t("list", vec![s(&tn), k("group"), s(&an)], || List::new(tg).group_by([a]).command()) });
    add(&mut v, "List::new.group_by[2]", |g| { let (tg, tn) = g.lite().tag(); let (a, an) = g.tag(); let (b, bn) = g.tag(); t("list", cat(vec![s(&tn)], groups(&[an, bn])), || List::new(tg).group_by([a, b]).command()) });
    add(&mut v, "List::new.filter.group_by[1]", |g| { let (tg, tn) = g.tag(); let f = g.filter(); let (a, an) = g.tag(); t("list", cat(vec![s(&tn), Want::F], groups(&[an])), || List::new(tg).filter(f).group_by([a]).command()) });
    add(&mut v, "List::new.filter.group_by[3]", |g| { let (tg, tn) = g.tag(); let f = g.filter(); let (mut ts, ns) = g.tags(3); t("list", cat(vec![s(&tn), Want::F], groups(&ns)), || { let c = ts.pop().unwrap(); let b = ts.pop().unwrap(); let a = ts.pop().unwrap(); List::new(tg).filter(f).group_by([a, b, c]).command() }) });
    add(&mut v, "List::new.group_by[2].filter", |g| { let (tg, tn) = g.tag(); let (mut ts, ns) = g.tags(2); let f = g.filter(); t("list", cat(vec![s(&tn), Want::F], groups(&ns)), || { let b = ts.pop().unwrap(); let a = ts.pop().unwrap(); List::new(tg).group_by([a, b]).filter(f).command() }) });
    add(&mut v, "List::new.filter.filter", |g| { let (tg, tn) = g.tag(); let f0 = g.filter(); let f = g.filter(); t("list", vec![s(&tn), Want::F], || List::new(tg).filter(f0).filter(f).command()) });
    add(&mut v, "List::new.group_by[1].group_by[2]", |g| { let (tg, tn) = g.tag(); let (x, _) = g.lite().tag(); let (mut ts, ns) = g.tags(2); t("list", cat(vec![s(&tn)], groups(&ns)), || { let b = ts.pop().unwrap(); let a = ts.pop().unwrap(); List::new(tg).group_by([x]).group_by([a, b]).command() }) });

    // count FILTER / count [FILTER] group GROUPTYPE
    add(&mut v, "Count::new", |g| { let f = g.filter(); t("count", vec![Want::F], || Count::new(f).command()) });
    add(&mut v, "Count::new.group_by", |g| { let f = g.filter(); let (tg, tn) = g.tag(); t("count", vec![Want::F, k("group"), s(&tn)], || Count::new(f).group_by(tg).command()) });
    add(&mut v, "CountGrouped::new", |g| { let (tg, tn) = g.tag(); t("count", vec![k("group"), s(&tn)], || CountGrouped::new(tg).command()) });
    add(&mut v, "CountGrouped::new.filter", |g| { let (tg, tn) = g.tag(); let f = g.filter(); t("count", vec![Want::F, k("group"), s(&tn)], || CountGrouped::new(tg).filter(f).command()) });

    // stored playlists
    add(&mut v, "RenamePlaylist::new", |g| { let a = g.string(false); let b = g.string(false); t("rename", vec![s(&a), s(&b)], || RenamePlaylist::new(&a, &b).command()) });
    add(&mut v, "LoadPlaylist::name", |g| { let a = g.string(false); t("load", vec![s(&a)], || LoadPlaylist::name(&a).command()) });
    add(&mut v, "LoadPlaylist::name.range", |g| { let p = g.string(false); let (a, b, tup) = g.range(); t("load", vec![s(&p), rw(a, b)], || with_range!(tup, a, b, id, |r| LoadPlaylist::name(&p).range(r).command())) });
    // not in the given table: repeated builder call, the last one wins
    add(&mut v, "LoadPlaylist::name.range.range", |g| { let p = g.lite().string(false); let x = g.lite().usize(); let (a, b, tup) = g.range(); t("load", vec![s(&p), rw(a, b)], || with_range!(tup, a, b, id, |r| LoadPlaylist::name(&p).range(..x).range(r).command())) });
    add(&mut v, "AddToPlaylist::new", |g| { let p = g.string(false); let u = g.string(false); t("playlistadd", vec![s(&p), s(&u)], || AddToPlaylist::new(&p, &u).command()) });
    add(&mut v, "AddToPlaylist::new.at", |g| { let p = g.string(false); let u = g.string(false); let x = g.usize(); let e = g.lite().boolean(); t("playlistadd", vec![s(&p), s(&u), nu(x)], || (if e { AddToPlaylist::new(&p, &u).at(SongPosition(x)) } else { AddToPlaylist::new(&p, &u).at(x) }).command()) });
    add(&mut v, "RemoveFromPlaylist::position", |g| { let p = g.string(false); let x = g.usize(); t("playlistdelete", vec![s(&p), nu(x)], || RemoveFromPlaylist::position(&p, x).command()) });
    add(&mut v, "RemoveFromPlaylist::range", |g| { let p = g.string(false); let (a, b, tup) = g.range(); t("playlistdelete", vec![s(&p), rw(a, b)], || with_range!(tup, a, b, SongPosition, |r| RemoveFromPlaylist::range(&p, r).command())) });
    add(&mut v, "MoveInPlaylist::new", |g| { let p = g.string(false); let a = g.usize(); let b = g.usize(); t("playlistmove", vec![s(&p), nu(a), nu(b)], || MoveInPlaylist::new(&p, a, b).command()) });

    // database
    add(&mut v, "ListAllIn::root", |_| t("listallinfo", vec![], || ListAllIn::root().command()));
    // the empty directory name is the root: with or without an (empty) argument
    add(&mut v, "ListAllIn::directory", |g| { let d = g.string(true); let tr = t("listallinfo", vec![s(&d)], || ListAllIn::directory(&d).command()); if d.is_empty() { or(tr, vec![]) } else { tr } });
    add(&mut v, "Update::new", |_| t("update", vec![], || Update::new().command()));
    add(&mut v, "Update::default", |_| t("update", vec![], || Update::default().command()));
    add(&mut v, "Update::new.uri", |g| { let u = g.string(true); t("update", vec![s(&u)], || Update::new().uri(&u).command()) });
    add(&mut v, "Update::new.uri.uri", |g| { let u0 = g.lite().string(true); let u = g.string(true); t("update", vec![s(&u)], || Update::new().uri(&u0).uri(&u).command()) }); // not in the given table: last one wins
    add(&mut v, "Rescan::new", |_| t("rescan", vec![], || Rescan::new().command()));
    add(&mut v, "Rescan::default", |_| t("rescan", vec![], || Rescan::default().command()));
    add(&mut v, "Rescan::new.uri", |g| { let u = g.string(true); t("rescan", vec![s(&u)], || Rescan::new().uri(&u).command()) });

    // binary responses
    add(&mut v, "SetBinaryLimit", |g| { let x = g.usize(); t("binarylimit", vec![nu(x)], || SetBinaryLimit(x).command()) });
    add(&mut v, "AlbumArt::new", |g| { let u = g.string(false); t("albumart", vec![s(&u), nu(0)], || AlbumArt::new(&u).command()) });
    add(&mut v, "AlbumArt::new.offset", |g| { let u = g.string(false); let o = g.usize(); t("albumart", vec![s(&u), nu(o)], || AlbumArt::new(&u).offset(o).command()) });
    add(&mut v, "AlbumArt::new.offset.offset", |g| { let u = g.lite().string(false); let o0 = g.usize(); let o = g.usize(); t("albumart", vec![s(&u), nu(o)], || AlbumArt::new(&u).offset(o0).offset(o).command()) }); // not in the given table: last one wins
    add(&mut v, "AlbumArtEmbedded::new", |g| { let u = g.string(false); t("readpicture", vec![s(&u), nu(0)], || AlbumArtEmbedded::new(&u).command()) });
    add(&mut v, "AlbumArtEmbedded::new.offset", |g| { let u = g.string(false); let o = g.usize(); t("readpicture", vec![s(&u), nu(o)], || AlbumArtEmbedded::new(&u).offset(o).command()) });

    // tagtypes all | clear | disable NAME... | enable NAME...
    add(&mut v, "TagTypes::enable_all", |_| t("tagtypes", vec![k("all")], || TagTypes::enable_all().command()));
    add(&mut v, "TagTypes::disable_all", |_| t("tagtypes", vec![k("clear")], || TagTypes::disable_all().command()));
    add(&mut v, "TagTypes::disable", |g| { let c = 1 + g.choice(3); let (ts, ns) = g.tags(c); t("tagtypes", cat(vec![k("disable")], ns.iter().map(|x| s(x)).collect()), || TagTypes::disable(&ts).command()) });
    add(&mut v, "TagTypes::enable", |g| { let c = 1 + g.choice(3); let (ts, ns) = g.tags(c); t("tagtypes", cat(vec![k("enable")], ns.iter().map(|x| s(x)).collect()), || TagTypes::enable(&ts).command()) });

    // sticker get|set|delete|list|find song URI ...
    add(&mut v, "StickerGet::new", |g| { let u = g.string(false); let m = g.string(false); t("sticker", vec![k("get"), k("song"), s(&u), s(&m)], || StickerGet::new(&u, &m).command()) });
    add(&mut v, "StickerSet::new", |g| { let u = g.string(false); let m = g.string(false); let x = g.string(true); t("sticker", vec![k("set"), k("song"), s(&u), s(&m), s(&x)], || StickerSet::new(&u, &m, &x).command()) });
    add(&mut v, "StickerDelete::new", |g| { let u = g.string(false); let m = g.string(false); t("sticker", vec![k("delete"), k("song"), s(&u), s(&m)], || StickerDelete::new(&u, &m).command()) });
    add(&mut v, "StickerList::new", |g| { let u = g.string(false); t("sticker", vec![k("list"), k("song"), s(&u)], || StickerList::new(&u).command()) });
    add(&mut v, "StickerFind::new", |g| { let u = g.string(false); let m = g.string(false); t("sticker", vec![k("find"), k("song"), s(&u), s(&m)], || StickerFind::new(&u, &m).command()) });
    add(&mut v, "StickerFind::new.where_eq", |g| { let u = g.string(false); let m = g.string(false); let x = g.string(true); t("sticker", vec![k("find"), k("song"), s(&u), s(&m), k("="), s(&x)], || StickerFind::new(&u, &m).where_eq(&x).command()) });
    add(&mut v, "StickerFind::new.where_gt", |g| { let u = g.string(false); let m = g.string(false); let x = g.string(true); t("sticker", vec![k("find"), k("song"), s(&u), s(&m), k(">"), s(&x)], || StickerFind::new(&u, &m).where_gt(&x).command()) });
    add(&mut v, "StickerFind::new.where_lt", |g| { let u = g.string(false); let m = g.string(false); let x = g.string(true); t("sticker", vec![k("find"), k("song"), s(&u), s(&m), k("<"), s(&x)], || StickerFind::new(&u, &m).where_lt(&x).command()) });
    // not in the given table: repeated builder call, the last one wins
    add(&mut v, "StickerFind::new.where_eq.where_gt", |g| { let u = g.lite().string(false); let m = g.lite().string(false); let x0 = g.string(true); let x = g.string(true); t("sticker", vec![k("find"), k("song"), s(&u), s(&m), k(">"), s(&x)], || StickerFind::new(&u, &m).where_eq(&x0).where_gt(&x).command()) });

    add(&mut v, "SendChannelMessage::new", |g| { let c = g.string(false); let m = g.string(true); t("sendmessage", vec![s(&c), s(&m)], || SendChannelMessage::new(&c, &m).command()) });

    // durations beyond MPD's own domain (see the header); only run by `search .. huge` and by `case`
    add(&mut v, "SeekTo(Position)~huge", |g| seek_to_pos(g, Dom::Huge));
    add(&mut v, "SeekTo(Id)~huge", |g| seek_to_id(g, Dom::Huge));
    add(&mut v, "Seek(Absolute)~huge", |g| { let d = g.dur(Dom::Huge); t("seekcur", vec![Want::T(d)], || Seek(SeekMode::Absolute(d)).command()) });
    add(&mut v, "Seek(Forward)~huge", |g| { let d = g.dur(Dom::Huge); t("seekcur", vec![Want::ST(b'+', d)], || Seek(SeekMode::Forward(d)).command()) });
    add(&mut v, "Seek(Backward)~huge", |g| { let d = g.dur(Dom::Huge); t("seekcur", vec![Want::ST(b'-', d)], || Seek(SeekMode::Backward(d)).command()) });
    v
}
fn seek_to_pos(g: &mut Gen, dom: Dom) -> Trial { let p = g.usize(); let d = g.dur(dom); let e = g.lite().boolean(); t("seek", vec![nu(p), Want::T(d)], || (if e { SeekTo(SongPosition(p).into(), d) } else { SeekTo(Song::Position(SongPosition(p)), d) }).command()) }
fn seek_to_id(g: &mut Gen, dom: Dom) -> Trial { let i = g.u64(); let d = g.dur(dom); let e = g.lite().boolean(); t("seekid", vec![n(i), Want::T(d)], || (if e { SeekTo(SongId(i).into(), d) } else { SeekTo(Song::Id(SongId(i)), d) }).command()) }

// ---------------------------------------------------------------------------------------------- running cases
const RB: u64 = 1_000_000_000;
fn eff_seed(seed: u64) -> u64 { let e = seed % 9_000_000; if e == 0 { 9_000_000 } else { e } }
fn gen_for(path: &str, case: u64) -> Gen {
    if case < RB { Gen::new(Mode::Boundary, case, 1) }
    else { Gen::new(Mode::Random, case, mix(fnv(path) ^ mix((case / RB).wrapping_mul(0x9E3779B97F4A7C15) ^ (case % RB + 1).wrapping_mul(0xD1B54A32D192ED03)))) }
}
/// (number of boundary combinations, number of parameter draws)
fn measure(f: PathFn) -> (u64, u64) { let mut g = Gen::new(Mode::Count, 0, 1); let _ = f(&mut g); (g.product.max(g.light_max), g.picks) }

struct Outcome { params: String, line: String, seen: String, want: String, why: Option<String> }
fn run_case(path: &str, f: PathFn, case: u64) -> Outcome {
    let mut g = gen_for(path, case);
    let tr = f(&mut g);
    let mut o = Outcome { params: g.desc.join(", "), line: String::new(), seen: String::new(), want: format!("{} {:?}{}", tr.name, tr.args, tr.alt.as_ref().map(|a| format!(" or {a:?}")).unwrap_or_default()), why: None };
    let cmd = match tr.got { Ok(c) => c, Err(p) => { o.why = Some(format!("PANIC while building the command for legal parameters: {p}")); return o; } };
    let wire = match std::panic::catch_unwind(move || wire_of_command(cmd)) { Ok(w) => w, Err(p) => { o.why = Some(format!("PANIC while sending the command: {}", panic_text(p))); return o; } };
    o.line = lossy(&wire[..wire.len().saturating_sub(1)]);
    if wire.last() != Some(&b'\n') || wire.iter().filter(|&&b| b == b'\n').count() != 1 { o.line = lossy(&wire); o.why = Some("the request does not occupy exactly one line".into()); return o; }
    let (name, args) = match mpd_tokenize(&wire[..wire.len() - 1]) { Ok(x) => x, Err(e) => { o.why = Some(format!("MPD's tokenizer rejects the line: {e}")); return o; } };
    o.seen = format!("{} {:?}", lossy(&name), args.iter().map(|a| lossy(a)).collect::<Vec<_>>());
    if let Err(e) = compare(&name, &args, tr.name, &tr.args) {
        if !tr.alt.as_ref().is_some_and(|alt| compare(&name, &args, tr.name, alt).is_ok()) { o.why = Some(e); }
    }
    o
}
fn json(x: &str) -> String {
    let mut o = String::from("\"");
    for c in x.chars() { match c { '"' => o.push_str("\\\""), '\\' => o.push_str("\\\\"), '\n' => o.push_str("\\n"), '\r' => o.push_str("\\r"), '\t' => o.push_str("\\t"), c if (c as u32) < 0x20 || c == '\u{7f}' => o.push_str(&format!("\\u{:04x}", c as u32)), c => o.push(c) } }
    o.push('"'); o
}

fn main() {
    let a: Vec<String> = std::env::args().collect();
    std::panic::set_hook(Box::new(|_| {}));
    let paths = paths();
    for (i, (p, _)) in paths.iter().enumerate() { assert!(!paths[..i].iter().any(|(q, _)| q == p), "duplicate path name {p}"); }
    match a.get(1).map(|x| x.as_str()) {
        Some("paths") => { for (p, f) in &paths { let (nb, picks) = measure(*f); println!("{p}\t{nb} boundary combinations, {picks} parameter draws"); } }
        Some("case") if a.len() >= 4 => {
            let Some((p, f)) = paths.iter().find(|(p, _)| *p == a[2]) else { println!("unknown path {:?} (see `cmd_diff paths`)", a[2]); std::process::exit(2) };
            let case: u64 = a[3].parse().unwrap_or_else(|_| { println!("case must be an integer"); std::process::exit(2) });
            let (nb, _) = measure(*f);
            if case < RB && case >= nb { println!("path {p} has only {nb} boundary combinations"); std::process::exit(2); }
            let o = run_case(p, *f, case);
            if case < RB { println!("path {p}, boundary combination {case} of {nb}"); } else { println!("path {p}, random draw {} of seed {}", case % RB, case / RB); }
            println!("parameters: {}\nline:       {:?}\nMPD sees:   {}\ndocumented: {}\nresult:     {}", o.params, o.line, o.seen, o.want, o.why.as_deref().unwrap_or("agrees"));
            verdict(o.why.is_none(), "the request is the documented MPD command with arguments denoting the same values");
        }
        Some("search") => {
            let seed: u64 = a.get(2).and_then(|x| x.parse().ok()).unwrap_or(1);
            let draws: u64 = a.get(3).and_then(|x| x.parse().ok()).unwrap_or(200).min(RB - 1);
            let huge = a.get(4).map(|x| x.as_str()) == Some("huge");
            let (mut total, mut npaths) = (0u64, 0u64);
            for (p, f) in &paths {
                if p.ends_with("~huge") && !huge { continue; }
                npaths += 1;
                let (nb, picks) = measure(*f);
                let random = if picks == 0 { 0 } else { draws };   // nothing to draw for a command without parameters
                for case in (0..nb).chain((0..random).map(|k| eff_seed(seed) * RB + k)) {
                    total += 1;
                    let o = run_case(p, *f, case);
                    if let Some(why) = o.why {
                        println!("{{\"path\":{},\"case\":{},\"line\":{},\"why\":{}}}", json(p), case, json(&o.line), json(&format!("{why} [parameters: {}]", o.params)));
                        std::process::exit(1);
                    }
                }
            }
            println!("{{\"cases\":{total},\"paths\":{npaths}}}");
        }
        _ => { println!("usage: cmd_diff search <seed> <n> [huge] | cmd_diff case <path> <case> | cmd_diff paths"); std::process::exit(2); }
    }
}

//! C06: build a command from a name and string arguments (hex, one per argv) with the real builder, take the bytes the real
//! connection writes, split them with the oracle port of MPD's tokenizer, and compare with what was put in.
//! exit 0: round trip exact (or the builder rejected the input); exit 1: the server would see something else.
use vx_replay::*;
fn main() {
    let a: Vec<Vec<u8>> = std::env::args().skip(1).map(|x| unhex(&x)).collect();
    let name = String::from_utf8(a[0].clone()).unwrap();
    let args: Vec<String> = a[1..].iter().map(|x| String::from_utf8(x.clone()).unwrap()).collect();
    let mut cmd = match mpd_protocol::Command::build(&name) { Ok(c) => c, Err(e) => { println!("name rejected by the builder: {e}"); verdict(true, "rejected input cannot be mis-transmitted") } };
    for x in &args { if let Err(e) = cmd.add_argument(x.as_str()) { println!("argument rejected by the builder: {e}"); verdict(true, "rejected input cannot be mis-transmitted") } }
    let wire = wire_of_command(cmd);
    println!("name {:?} args {:?}", name, args);
    println!("wire   : {:?}", String::from_utf8_lossy(&wire));
    let lines: Vec<&[u8]> = wire.split(|&b| b == b'\n').collect();
    let one_line = lines.len() == 2 && lines[1].is_empty();
    let got = mpdtok::mpd_tokenize(lines[0]);
    println!("server : {:?}", got.as_ref().map(|(c, p)| (String::from_utf8_lossy(c).into_owned(), p.iter().map(|x| String::from_utf8_lossy(x).into_owned()).collect::<Vec<_>>())));
    let want = (name.into_bytes(), args.into_iter().map(|x| x.into_bytes()).collect::<Vec<_>>());
    verdict(one_line && got.as_ref() == Ok(&want), "MPD's tokenizer recovers exactly the command name and arguments");
}

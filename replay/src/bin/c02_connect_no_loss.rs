//! C02: the responses obtained must not depend on whether bytes following the greeting arrive in the same read.
use mpd_protocol::Connection;
use vx_replay::*;
fn run(chunks: &[&[u8]]) -> String {
    let mut c = match Connection::connect(Chunks::new(chunks)) { Ok(c) => c, Err(e) => return format!("connect: {e}") };
    format!("{:?}", c.receive().map_err(|e| e.to_string()))
}
fn main() {
    let one = run(&[b"OK MPD 0.23.5\nfoo: bar\nOK\n"]);
    let two = run(&[b"OK MPD 0.23.5\n", b"foo: bar\nOK\n"]);
    println!("one read : {one}\ntwo reads: {two}");
    verdict(one == two, "blocking connect+receive independent of segmentation at the greeting boundary");
}

//! C09: after `receive` returned InvalidMessage, calling `receive` again must not panic.
use mpd_protocol::Connection;
use vx_replay::*;
fn main() {
    let io = Chunks::new(&[b"OK MPD 0.23.5\n", b"foo: bar\n\xff\xfe: garbage line\n", b"OK\n"]);
    let mut c = Connection::connect(io).expect("connect");
    let first = c.receive();
    println!("first receive: {:?}", first.as_ref().map(|_| ()).map_err(|e| e.to_string()));
    let r = std::panic::catch_unwind(std::panic::AssertUnwindSafe(|| { let _ = c.receive(); }));
    verdict(r.is_ok(), "second receive after InvalidMessage does not panic");
}

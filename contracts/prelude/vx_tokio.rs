//! Stand-in for the `tokio` crate (DESIGN §5): same module paths and item names, SYNCHRONOUS signatures, every body
//! `external_body`. Compiled and exported by Verus, linked as `--extern tokio=` in place of the real crate for the
//! verification runs only (the code that runs links the real tokio). Everything here is an ASSUMED contract.
#![allow(missing_docs, missing_debug_implementations, unused, dead_code)]
use vstd::prelude::*;
verus!{
pub mod io {
    use vstd::prelude::*;
    use vx_base::bm_view;
    pub struct Ready<T>(pub T);
    impl<T> Ready<T> { pub fn vx_await(self) -> (r: T) ensures r == self.0 { self.0 } }
    pub trait AsyncRead {}
    pub trait AsyncWrite {}
    pub trait AsyncReadExt: AsyncRead {
        /// appends the bytes it returns (0 = end of stream)
        fn read_buf(&mut self, buf: &mut bytes::BytesMut) -> (r: Ready<std::io::Result<usize>>)
            ensures match r.0 {
                Ok(n) => bm_view(final(buf)).len() == bm_view(old(buf)).len() + n && bm_view(old(buf)).is_prefix_of(bm_view(final(buf))),
                Err(_) => bm_view(final(buf)) == bm_view(old(buf)) };
    }
    pub trait AsyncWriteExt: AsyncWrite {
        /// writes all of `src` or fails
        fn write_all(&mut self, src: &[u8]) -> Ready<std::io::Result<()>>;
    }
    impl<T: AsyncRead + ?Sized> AsyncReadExt for T {
        #[verifier::external_body]
        fn read_buf(&mut self, buf: &mut bytes::BytesMut) -> (r: Ready<std::io::Result<usize>>) { unimplemented!() }
    }
    impl<T: AsyncWrite + ?Sized> AsyncWriteExt for T {
        #[verifier::external_body]
        fn write_all(&mut self, src: &[u8]) -> Ready<std::io::Result<()>> { unimplemented!() }
    }
}

/// every stand-in future is awaited through this trait (N2 turns `.await` on non-repository futures into `.vx_await()`)
pub trait VxFuture {
    type Output;
    /// what is known about the value the future resolves to
    spec fn resolves_to(&self, out: &Self::Output) -> bool;
    fn vx_await(self) -> (r: Self::Output) ensures self.resolves_to(&r);
}

pub mod sync {
    pub mod mpsc {
        use vstd::prelude::*;
        use crate::VxFuture;
        #[verifier::external_body] #[verifier::reject_recursive_types(T)]
        pub struct UnboundedReceiver<T> { t: core::marker::PhantomData<T> }
        #[verifier::external_body] #[verifier::reject_recursive_types(T)]
        pub struct UnboundedSender<T> { t: core::marker::PhantomData<T> }
        impl<T> core::fmt::Debug for UnboundedReceiver<T> { #[verifier::external_body] fn fmt(&self, f: &mut core::fmt::Formatter<'_>) -> core::fmt::Result { Ok(()) } }
        impl<T> core::fmt::Debug for UnboundedSender<T> { #[verifier::external_body] fn fmt(&self, f: &mut core::fmt::Formatter<'_>) -> core::fmt::Result { Ok(()) } }
        pub mod error { pub struct SendError<T>(pub T); }
        /// what every item travelling through a channel of this item type satisfies (fixed per item type by the crate that
        /// owns the channel; required at every `send`, known at every `recv`)
        pub uninterp spec fn chan_item_ok<T>(t: &T) -> bool;
        #[verifier::reject_recursive_types(T)]
        pub struct RecvFut<'a, T> { pub r: &'a mut UnboundedReceiver<T> }
        /// unbounded FIFO across all sender clones; `None` iff every sender is dropped and the queue is empty; cancel-safe
        impl<'a, T> VxFuture for RecvFut<'a, T> {
            type Output = Option<T>;
            open spec fn resolves_to(&self, out: &Option<T>) -> bool { *out matches Some(t) ==> chan_item_ok(&t) }
            #[verifier::external_body] fn vx_await(self) -> (r: Option<T>) { unimplemented!() }
        }
        impl<T> UnboundedReceiver<T> { pub fn recv(&mut self) -> RecvFut<'_, T> { RecvFut { r: self } } }
        impl<T> UnboundedSender<T> {
            /// `Err` iff the receiver was dropped
            #[verifier::external_body] pub fn send(&self, t: T) -> Result<(), error::SendError<T>> requires chan_item_ok(&t) { unimplemented!() }
            #[verifier::external_body] pub fn is_closed(&self) -> bool { unimplemented!() }
        }
        impl<T> Clone for UnboundedSender<T> { #[verifier::external_body] fn clone(&self) -> Self { unimplemented!() } }
        #[verifier::external_body] pub fn unbounded_channel<T>() -> (UnboundedSender<T>, UnboundedReceiver<T>) { unimplemented!() }
    }
    pub mod oneshot {
        use vstd::prelude::*;
        use crate::VxFuture;
        #[verifier::external_body] #[verifier::reject_recursive_types(T)]
        pub struct Sender<T> { t: core::marker::PhantomData<T> }
        #[verifier::external_body] #[verifier::reject_recursive_types(T)]
        pub struct Receiver<T> { t: core::marker::PhantomData<T> }
        pub mod error { pub struct RecvError; }
        /// identity of the one-shot channel a sender / receiver belongs to (ghost)
        pub uninterp spec fn sender_id<T>(s: &Sender<T>) -> int;
        pub uninterp spec fn receiver_id<T>(r: &Receiver<T>) -> int;
        /// delivers to its paired receiver, or returns the value if that was dropped
        impl<T> Sender<T> {
            #[verifier::external_body] pub fn send(self, t: T) -> Result<(), T> requires crate::sync::mpsc::chan_item_ok(&t) { unimplemented!() }
            /// whether the paired receiver is gone (may change at any time: nothing is known about the answer)
            #[verifier::external_body] pub fn is_closed(&self) -> bool { unimplemented!() }
        }
        /// yields the value sent by the paired sender, `Err` if the sender was dropped without sending
        impl<T> VxFuture for Receiver<T> {
            type Output = Result<T, error::RecvError>;
            open spec fn resolves_to(&self, out: &Result<T, error::RecvError>) -> bool { *out matches Ok(v) ==> crate::sync::mpsc::chan_item_ok(&v) }
            #[verifier::external_body] fn vx_await(self) -> Result<T, error::RecvError> { unimplemented!() }
        }
        #[verifier::external_body] pub fn channel<T>() -> (r: (Sender<T>, Receiver<T>)) ensures sender_id(&r.0) == receiver_id(&r.1) { unimplemented!() }
    }
}
pub mod time {
    use vstd::prelude::*;
    use crate::VxFuture;
    pub mod error { pub struct Elapsed; }
    pub struct Timeout<F> { pub f: F }
    /// Err(Elapsed) leaves the inner future un-run (nothing is consumed)
    impl<F: VxFuture> VxFuture for Timeout<F> {
        type Output = Result<F::Output, error::Elapsed>;
        open spec fn resolves_to(&self, out: &Result<F::Output, error::Elapsed>) -> bool { *out matches Ok(v) ==> self.f.resolves_to(&v) }
        #[verifier::external_body] fn vx_await(self) -> Result<F::Output, error::Elapsed> { unimplemented!() }
    }
    pub fn timeout<F: VxFuture>(d: std::time::Duration, f: F) -> (r: Timeout<F>) ensures r.f == f { Timeout { f } }
}
/// arbitrary choice made by `select!` (N3): any polling order, no fairness
#[verifier::external_body] pub fn vx_select2() -> bool { unimplemented!() }
/// `spawn` of a de-async'ed task: the task has already run to completion as a plain call (N2)
pub fn spawn<T>(t: T) {}
}

//! Stand-in for the part of the `nom` 7.1 API that mpd_protocol/src/parser.rs uses (DESIGN §5): same module paths and item
//! names, input type fixed to `&[u8]`, error type fixed to `nom::error::Error<&[u8]>`, every body `external_body`.
//! Compiled and exported by Verus and linked as `--extern nom=` in place of the real crate for the verification runs only
//! (the code that runs links the real nom). Everything here is an ASSUMED contract, written from nom 7.1.3's
//! `bytes::streaming`, `character::streaming`, `combinator`, `sequence` sources; the bounded conformance run
//! (tools/conformance) exercises the real nom against the same wire grammar.
//!
//! A parser is any `Fn(&[u8]) -> IResult<&[u8], O>` value (closure or fn item); what it does is known through
//! `call_ensures`. A combinator's contract is RELATIONAL: "the result r is one that arises by running the argument parsers
//! in nom's order on the successive remainders" (an `exists` chain over the argument parsers' own `call_ensures`), so the
//! argument parsers need no names at the call site. Leaf parsers are specified through the primitives of
//! `vx_spec::wire` at offset 0 of their own input.
//! `map` and `alt` are used only by `ParsedComponent::parse`, whose last arm captures `&mut` (not verifiable with Verus);
//! they are plain Rust here (no contract) so that that function still compiles.
#![allow(missing_docs, missing_debug_implementations, unused, dead_code)]
use vstd::prelude::*;
verus!{

pub enum Needed { Unknown, Size(usize) }

pub enum Err<E> { Incomplete(Needed), Error(E), Failure(E) }

pub open spec fn nom_incomplete<E>(e: &Err<E>) -> bool { *e is Incomplete }

impl<E> Err<E> {
    pub fn is_incomplete(&self) -> (r: bool)
        ensures r == nom_incomplete(self)
    {
        match self { Err::Incomplete(_) => true, _ => false }
    }
}

pub mod error {
    use vstd::prelude::*;
    /// nom 7.1's error kinds (all of them, so that an edit that names another one still compiles against the stand-in); `Other` is not nom's
    pub enum ErrorKind { Tag, Char, Digit, TakeWhile1, MapRes, Other, MapOpt, Alt, IsNot, IsA, SeparatedList, SeparatedNonEmptyList, Many0, Many1, ManyTill, Count,
        TakeUntil, LengthValue, TagClosure, Alpha, HexDigit, OctDigit, AlphaNumeric, Space, MultiSpace, LengthValueFn, Eof, Switch, TagBits, OneOf, NoneOf, CrLf,
        RegexpMatch, RegexpMatches, RegexpFind, RegexpCapture, RegexpCaptures, Complete, Fix, Escaped, EscapedTransform, NonEmpty, ManyMN, Not, Permutation, Verify,
        TakeTill1, TakeWhileMN, TooLarge, Many0Count, Many1Count, Float, Satisfy, Fail }
    pub struct Error<I> { pub input: I, pub code: ErrorKind }
    impl<I> Error<I> {
        pub fn new(input: I, code: ErrorKind) -> (r: Self) ensures r.input == input, r.code == code { Error { input, code } }
    }
    // nom's ParseError trait: plain Rust, no contract (only what an edit may call to build an error value)
    #[verifier::external]
    pub trait ParseError<I>: Sized {
        fn from_error_kind(input: I, kind: ErrorKind) -> Self;
        fn append(input: I, kind: ErrorKind, other: Self) -> Self;
    }
    #[verifier::external]
    impl<I> ParseError<I> for Error<I> {
        fn from_error_kind(input: I, kind: ErrorKind) -> Self { Error { input, code: kind } }
        fn append(_: I, _: ErrorKind, other: Self) -> Self { other }
    }
    #[verifier::external]
    pub fn make_error<I, E: ParseError<I>>(input: I, kind: ErrorKind) -> E { E::from_error_kind(input, kind) }
}

pub type IResult<I, O, E = error::Error<I>> = Result<(I, O), Err<E>>;

/// the three ways a parser can fail (nom: Incomplete / Error = recoverable / Failure = cut)
pub open spec fn is_inc<'a, O>(r: IResult<&'a [u8], O>) -> bool { r matches Err(Err::Incomplete(_)) }
pub open spec fn is_error<'a, O>(r: IResult<&'a [u8], O>) -> bool { r matches Err(Err::Error(_)) }
pub open spec fn is_failure<'a, O>(r: IResult<&'a [u8], O>) -> bool { r matches Err(Err::Failure(_)) }

/// r1 failed and r fails the same way
pub open spec fn err_as<'a, O1, O2>(r1: IResult<&'a [u8], O1>, r: IResult<&'a [u8], O2>) -> bool {
    (is_inc(r1) && is_inc(r)) || (is_error(r1) && is_error(r)) || (is_failure(r1) && is_failure(r))
}

/// the parser consumed the first n bytes of i and returned them
pub open spec fn took<'a>(i: &'a [u8], n: int, r: IResult<&'a [u8], &'a [u8]>) -> bool {
    0 <= n <= i@.len() && (r matches Ok((rem, out)) && rem@ == i@.skip(n) && out@ == i@.take(n))
}

pub mod bytes { pub mod streaming {
    use vstd::prelude::*;
    use crate::*;
    use vx_spec::wire::*;

    pub open spec fn tag_post<'a>(t: Seq<u8>, i: &'a [u8], r: IResult<&'a [u8], &'a [u8]>) -> bool {
        match p_tag(i@, 0, t) { PR::Good(_, n) => took(i, n, r), PR::Inc => is_inc(r), PR::Bad => is_error(r) }
    }
    /// nom: compare the input with the tag; Incomplete if the input is a proper prefix of the tag
    #[verifier::external_body]
    pub fn tag<'a>(t: &'static str) -> (f: impl Fn(&'a [u8]) -> IResult<&'a [u8], &'a [u8]>)
        ensures
            forall|i: &'a [u8]| #[trigger] call_requires(f, (i,)),
            forall|i: &'a [u8], r: IResult<&'a [u8], &'a [u8]>| #[trigger] call_ensures(f, (i,), r) ==> tag_post(vstd::utf8::encode_utf8(t@), i, r),
    { move |i: &'a [u8]| unimplemented!() }

    /// nom: Incomplete if fewer than `count` bytes are there
    #[verifier::external_body]
    pub fn take<'a>(count: usize) -> (f: impl Fn(&'a [u8]) -> IResult<&'a [u8], &'a [u8]>)
        ensures
            forall|i: &'a [u8]| #[trigger] call_requires(f, (i,)),
            forall|i: &'a [u8], r: IResult<&'a [u8], &'a [u8]>| #[trigger] call_ensures(f, (i,), r) ==> (if i@.len() >= count { took(i, count as int, r) } else { is_inc(r) }),
    { move |i: &'a [u8]| unimplemented!() }

    /// nom: everything before the first occurrence of the tag (not consumed); Incomplete if it does not occur.
    /// Specified for one-byte tags only (the only use).
    #[verifier::external_body]
    pub fn take_until<'a>(t: &'static str) -> (f: impl Fn(&'a [u8]) -> IResult<&'a [u8], &'a [u8]>)
        ensures
            forall|i: &'a [u8]| #[trigger] call_requires(f, (i,)),
            forall|i: &'a [u8], r: IResult<&'a [u8], &'a [u8]>| #[trigger] call_ensures(f, (i,), r) ==> (vstd::utf8::encode_utf8(t@).len() == 1 ==>
                match run_end(i@, 0, |b: u8| b != vstd::utf8::encode_utf8(t@)[0]) { None => is_inc(r), Some(e) => took(i, e, r) }),
    { move |i: &'a [u8]| unimplemented!() }

    /// as take_until, Error if the tag is at the very start
    #[verifier::external_body]
    pub fn take_until1<'a>(t: &'static str) -> (f: impl Fn(&'a [u8]) -> IResult<&'a [u8], &'a [u8]>)
        ensures
            forall|i: &'a [u8]| #[trigger] call_requires(f, (i,)),
            forall|i: &'a [u8], r: IResult<&'a [u8], &'a [u8]>| #[trigger] call_ensures(f, (i,), r) ==> (vstd::utf8::encode_utf8(t@).len() == 1 ==>
                match run_end(i@, 0, |b: u8| b != vstd::utf8::encode_utf8(t@)[0]) { None => is_inc(r), Some(e) => if e == 0 { is_error(r) } else { took(i, e, r) } }),
    { move |i: &'a [u8]| unimplemented!() }

    /// the exec predicate p computes the spec predicate f
    pub open spec fn pred_is<P: Fn(u8) -> bool>(p: P, f: spec_fn(u8) -> bool) -> bool {
        forall|b: u8, o: bool| #[trigger] call_ensures(p, (b,), o) ==> o == f(b)
    }
    pub open spec fn tw_post<'a>(f: spec_fn(u8) -> bool, i: &'a [u8], r: IResult<&'a [u8], &'a [u8]>, min1: bool) -> bool {
        match run_end(i@, 0, f) { None => is_inc(r), Some(e) => if min1 && e == 0 { is_error(r) } else { took(i, e, r) } }
    }
    /// nom: split at the first byte that does not satisfy the predicate; Incomplete if there is none (streaming).
    /// Stated for every spec predicate f that the exec predicate computes; instantiated by mentioning `run_end(input, 0, f)`.
    #[verifier::external_body]
    pub fn take_while<'a, P: Fn(u8) -> bool>(p: P) -> (res: impl Fn(&'a [u8]) -> IResult<&'a [u8], &'a [u8]>)
        requires forall|b: u8| #[trigger] call_requires(p, (b,)),
        ensures
            forall|i: &'a [u8]| #[trigger] call_requires(res, (i,)),
            forall|f: spec_fn(u8) -> bool, i: &'a [u8], r: IResult<&'a [u8], &'a [u8]>| #![trigger call_ensures(res, (i,), r), run_end(i@, 0, f)]
                call_ensures(res, (i,), r) && pred_is(p, f) ==> tw_post(f, i, r, false),
    { move |i: &'a [u8]| unimplemented!() }

    /// as take_while, Error if the first byte already fails the predicate
    #[verifier::external_body]
    pub fn take_while1<'a, P: Fn(u8) -> bool>(p: P) -> (res: impl Fn(&'a [u8]) -> IResult<&'a [u8], &'a [u8]>)
        requires forall|b: u8| #[trigger] call_requires(p, (b,)),
        ensures
            forall|i: &'a [u8]| #[trigger] call_requires(res, (i,)),
            forall|f: spec_fn(u8) -> bool, i: &'a [u8], r: IResult<&'a [u8], &'a [u8]>| #![trigger call_ensures(res, (i,), r), run_end(i@, 0, f)]
                call_ensures(res, (i,), r) && pred_is(p, f) ==> tw_post(f, i, r, true),
    { move |i: &'a [u8]| unimplemented!() }
} }

pub mod character {
    use vstd::prelude::*;
    use vx_spec::wire::*;
    pub open spec fn is_alphabetic_spec(chr: u8) -> bool { is_alpha(chr) }
    #[verifier::when_used_as_spec(is_alphabetic_spec)]
    pub fn is_alphabetic(chr: u8) -> (r: bool)
        ensures r == is_alpha(chr)
    { (chr >= 0x41 && chr <= 0x5A) || (chr >= 0x61 && chr <= 0x7A) }

    pub mod complete { pub use crate::character_complete_impl::*; }
    pub mod streaming {
        use vstd::prelude::*;
        use crate::*;
        use vx_spec::wire::*;
        pub open spec fn chr_post<'a>(c: core::primitive::char, i: &'a [u8], r: IResult<&'a [u8], core::primitive::char>) -> bool {
            match p_chr(i@, 0, c as u8) { PR::Good(_, n) => r matches Ok((rem, o)) && rem@ == i@.skip(1) && o == c, PR::Inc => is_inc(r), PR::Bad => is_error(r) }
        }
        /// one ASCII character
        #[verifier::external_body]
        pub fn char<'a>(c: core::primitive::char) -> (f: impl Fn(&'a [u8]) -> IResult<&'a [u8], core::primitive::char>)
            requires (c as u32) < 128,
            ensures
                forall|i: &'a [u8]| #[trigger] call_requires(f, (i,)),
                forall|i: &'a [u8], r: IResult<&'a [u8], core::primitive::char>| #[trigger] call_ensures(f, (i,), r) ==> chr_post(c, i, r),
        { move |i: &'a [u8]| unimplemented!() }

        #[verifier::external_body]
        pub fn newline<'a>(i: &'a [u8]) -> (r: IResult<&'a [u8], core::primitive::char>)
            ensures chr_post('\n', i, r)
        { unimplemented!() }

        /// one or more ASCII digits, followed by a byte that is not one (streaming)
        #[verifier::external_body]
        pub fn digit1<'a>(i: &'a [u8]) -> (r: IResult<&'a [u8], &'a [u8]>)
            ensures match run_end(i@, 0, |b: u8| is_digit(b)) { None => is_inc(r), Some(e) => if e == 0 { is_error(r) } else { took(i, e, r) } }
        { unimplemented!() }
    }
}

/// the `complete` flavours differ from `streaming` only on exhausted input: a recoverable Error instead of Incomplete
pub mod character_complete_impl {
    use vstd::prelude::*;
    use crate::*;
    use vx_spec::wire::*;
    pub open spec fn chr_post_c<'a>(c: core::primitive::char, i: &'a [u8], r: IResult<&'a [u8], core::primitive::char>) -> bool {
        match p_chr(i@, 0, c as u8) { PR::Good(_, n) => r matches Ok((rem, o)) && rem@ == i@.skip(1) && o == c, PR::Inc => is_error(r), PR::Bad => is_error(r) }
    }
    #[verifier::external_body]
    pub fn char<'a>(c: core::primitive::char) -> (f: impl Fn(&'a [u8]) -> IResult<&'a [u8], core::primitive::char>)
        requires (c as u32) < 128,
        ensures
            forall|i: &'a [u8]| #[trigger] call_requires(f, (i,)),
            forall|i: &'a [u8], r: IResult<&'a [u8], core::primitive::char>| #[trigger] call_ensures(f, (i,), r) ==> chr_post_c(c, i, r),
    { move |i: &'a [u8]| unimplemented!() }
    #[verifier::external_body]
    pub fn newline<'a>(i: &'a [u8]) -> (r: IResult<&'a [u8], core::primitive::char>)
        ensures chr_post_c('\n', i, r)
    { unimplemented!() }
    /// one or more ASCII digits; at the end of the input the run simply ends
    #[verifier::external_body]
    pub fn digit1<'a>(i: &'a [u8]) -> (r: IResult<&'a [u8], &'a [u8]>)
        ensures match run_end(i@, 0, |b: u8| is_digit(b)) { None => if i@.len() == 0 { is_error(r) } else { took(i, i@.len() as int, r) }, Some(e) => if e == 0 { is_error(r) } else { took(i, e, r) } }
    { unimplemented!() }
}

pub mod combinator {
    use vstd::prelude::*;
    use crate::*;

    /// plain Rust, no contract (used by ParsedComponent::parse only, which is outside the verified text)
    #[verifier::external]
    pub fn map<'a, O1, O2, F: FnMut(&'a [u8]) -> IResult<&'a [u8], O1>, G: FnMut(O1) -> O2>(mut first: F, mut g: G) -> impl FnMut(&'a [u8]) -> IResult<&'a [u8], O2> {
        move |i: &'a [u8]| { let (i, o) = first(i)?; Ok((i, g(o))) }
    }

    pub open spec fn map_res_post<'a, O1, O2, E2, F: Fn(&'a [u8]) -> IResult<&'a [u8], O1>, G: Fn(O1) -> Result<O2, E2>>(first: F, g: G, i: &'a [u8], r: IResult<&'a [u8], O2>) -> bool {
        exists|r1: IResult<&'a [u8], O1>| #[trigger] call_ensures(first, (i,), r1) && match r1 {
            Err(_) => err_as(r1, r),
            Ok((i1, o1)) => exists|r2: Result<O2, E2>| #[trigger] call_ensures(g, (o1,), r2) && match r2 {
                Ok(o2) => r == Ok::<(&'a [u8], O2), Err<error::Error<&'a [u8]>>>((i1, o2)),
                Err(_) => is_error(r),
            },
        }
    }
    /// run the parser, then the fallible conversion; a failed conversion is a (recoverable) Error
    #[verifier::external_body]
    pub fn map_res<'a, O1, O2, E2, F: Fn(&'a [u8]) -> IResult<&'a [u8], O1>, G: Fn(O1) -> Result<O2, E2>>(first: F, g: G) -> (f: impl Fn(&'a [u8]) -> IResult<&'a [u8], O2>)
        requires
            forall|i: &'a [u8]| #[trigger] call_requires(first, (i,)),
            forall|o: O1| #[trigger] call_requires(g, (o,)),
        ensures
            forall|i: &'a [u8]| #[trigger] call_requires(f, (i,)),
            forall|i: &'a [u8], r: IResult<&'a [u8], O2>| #[trigger] call_ensures(f, (i,), r) ==> map_res_post(first, g, i, r),
    { move |i: &'a [u8]| unimplemented!() }

    pub open spec fn opt_post<'a, O, F: Fn(&'a [u8]) -> IResult<&'a [u8], O>>(first: F, i: &'a [u8], r: IResult<&'a [u8], Option<O>>) -> bool {
        exists|r1: IResult<&'a [u8], O>| #[trigger] call_ensures(first, (i,), r1) && match r1 {
            Ok((i1, o)) => r == Ok::<(&'a [u8], Option<O>), Err<error::Error<&'a [u8]>>>((i1, Some(o))),
            Err(Err::Error(_)) => r == Ok::<(&'a [u8], Option<O>), Err<error::Error<&'a [u8]>>>((i, None)),
            Err(_) => err_as(r1, r),
        }
    }
    /// a recoverable Error of the parser becomes `None` with nothing consumed
    #[verifier::external_body]
    pub fn opt<'a, O, F: Fn(&'a [u8]) -> IResult<&'a [u8], O>>(first: F) -> (f: impl Fn(&'a [u8]) -> IResult<&'a [u8], Option<O>>)
        requires forall|i: &'a [u8]| #[trigger] call_requires(first, (i,)),
        ensures
            forall|i: &'a [u8]| #[trigger] call_requires(f, (i,)),
            forall|i: &'a [u8], r: IResult<&'a [u8], Option<O>>| #[trigger] call_ensures(f, (i,), r) ==> opt_post(first, i, r),
    { move |i: &'a [u8]| unimplemented!() }

    pub open spec fn cut_post<'a, O, F: Fn(&'a [u8]) -> IResult<&'a [u8], O>>(first: F, i: &'a [u8], r: IResult<&'a [u8], O>) -> bool {
        exists|r1: IResult<&'a [u8], O>| #[trigger] call_ensures(first, (i,), r1) && match r1 {
            Ok(_) => r == r1,
            Err(Err::Error(_)) => is_failure(r),
            Err(_) => err_as(r1, r),
        }
    }
    /// a recoverable Error of the parser becomes a Failure
    #[verifier::external_body]
    pub fn cut<'a, O, F: Fn(&'a [u8]) -> IResult<&'a [u8], O>>(first: F) -> (f: impl Fn(&'a [u8]) -> IResult<&'a [u8], O>)
        requires forall|i: &'a [u8]| #[trigger] call_requires(first, (i,)),
        ensures
            forall|i: &'a [u8]| #[trigger] call_requires(f, (i,)),
            forall|i: &'a [u8], r: IResult<&'a [u8], O>| #[trigger] call_ensures(f, (i,), r) ==> cut_post(first, i, r),
    { move |i: &'a [u8]| unimplemented!() }
}

pub mod sequence {
    use vstd::prelude::*;
    use crate::*;

    /// first, then second on the remainder, then third on the remainder; the first failure is the result
    pub open spec fn seq3<'a, O1, O2, O3, OR, F: Fn(&'a [u8]) -> IResult<&'a [u8], O1>, G: Fn(&'a [u8]) -> IResult<&'a [u8], O2>, H: Fn(&'a [u8]) -> IResult<&'a [u8], O3>>(
        first: F, second: G, third: H, i: &'a [u8], r: IResult<&'a [u8], OR>, pick: spec_fn(O1, O2, O3) -> OR) -> bool
    {
        exists|r1: IResult<&'a [u8], O1>| #[trigger] call_ensures(first, (i,), r1) && match r1 {
            Err(_) => err_as(r1, r),
            Ok((i1, o1)) => exists|r2: IResult<&'a [u8], O2>| #[trigger] call_ensures(second, (i1,), r2) && match r2 {
                Err(_) => err_as(r2, r),
                Ok((i2, o2)) => exists|r3: IResult<&'a [u8], O3>| #[trigger] call_ensures(third, (i2,), r3) && match r3 {
                    Err(_) => err_as(r3, r),
                    Ok((i3, o3)) => r == Ok::<(&'a [u8], OR), Err<error::Error<&'a [u8]>>>((i3, pick(o1, o2, o3))),
                },
            },
        }
    }
    pub open spec fn seq2<'a, O1, O2, OR, F: Fn(&'a [u8]) -> IResult<&'a [u8], O1>, G: Fn(&'a [u8]) -> IResult<&'a [u8], O2>>(
        first: F, second: G, i: &'a [u8], r: IResult<&'a [u8], OR>, pick: spec_fn(O1, O2) -> OR) -> bool
    {
        exists|r1: IResult<&'a [u8], O1>| #[trigger] call_ensures(first, (i,), r1) && match r1 {
            Err(_) => err_as(r1, r),
            Ok((i1, o1)) => exists|r2: IResult<&'a [u8], O2>| #[trigger] call_ensures(second, (i1,), r2) && match r2 {
                Err(_) => err_as(r2, r),
                Ok((i2, o2)) => r == Ok::<(&'a [u8], OR), Err<error::Error<&'a [u8]>>>((i2, pick(o1, o2))),
            },
        }
    }

    #[verifier::external_body]
    pub fn delimited<'a, O1, O2, O3, F: Fn(&'a [u8]) -> IResult<&'a [u8], O1>, G: Fn(&'a [u8]) -> IResult<&'a [u8], O2>, H: Fn(&'a [u8]) -> IResult<&'a [u8], O3>>(first: F, second: G, third: H)
        -> (f: impl Fn(&'a [u8]) -> IResult<&'a [u8], O2>)
        requires
            forall|i: &'a [u8]| #[trigger] call_requires(first, (i,)),
            forall|i: &'a [u8]| #[trigger] call_requires(second, (i,)),
            forall|i: &'a [u8]| #[trigger] call_requires(third, (i,)),
        ensures
            forall|i: &'a [u8]| #[trigger] call_requires(f, (i,)),
            forall|i: &'a [u8], r: IResult<&'a [u8], O2>| #[trigger] call_ensures(f, (i,), r) ==> seq3(first, second, third, i, r, |a: O1, b: O2, c: O3| b),
    { move |i: &'a [u8]| unimplemented!() }

    #[verifier::external_body]
    pub fn separated_pair<'a, O1, O2, O3, F: Fn(&'a [u8]) -> IResult<&'a [u8], O1>, G: Fn(&'a [u8]) -> IResult<&'a [u8], O2>, H: Fn(&'a [u8]) -> IResult<&'a [u8], O3>>(first: F, sep: G, second: H)
        -> (f: impl Fn(&'a [u8]) -> IResult<&'a [u8], (O1, O3)>)
        requires
            forall|i: &'a [u8]| #[trigger] call_requires(first, (i,)),
            forall|i: &'a [u8]| #[trigger] call_requires(sep, (i,)),
            forall|i: &'a [u8]| #[trigger] call_requires(second, (i,)),
        ensures
            forall|i: &'a [u8]| #[trigger] call_requires(f, (i,)),
            forall|i: &'a [u8], r: IResult<&'a [u8], (O1, O3)>| #[trigger] call_ensures(f, (i,), r) ==> seq3(first, sep, second, i, r, |a: O1, b: O2, c: O3| (a, c)),
    { move |i: &'a [u8]| unimplemented!() }

    #[verifier::external_body]
    pub fn terminated<'a, O1, O2, F: Fn(&'a [u8]) -> IResult<&'a [u8], O1>, G: Fn(&'a [u8]) -> IResult<&'a [u8], O2>>(first: F, second: G)
        -> (f: impl Fn(&'a [u8]) -> IResult<&'a [u8], O1>)
        requires
            forall|i: &'a [u8]| #[trigger] call_requires(first, (i,)),
            forall|i: &'a [u8]| #[trigger] call_requires(second, (i,)),
        ensures
            forall|i: &'a [u8]| #[trigger] call_requires(f, (i,)),
            forall|i: &'a [u8], r: IResult<&'a [u8], O1>| #[trigger] call_ensures(f, (i,), r) ==> seq2(first, second, i, r, |a: O1, b: O2| a),
    { move |i: &'a [u8]| unimplemented!() }

    #[verifier::external_body]
    pub fn preceded<'a, O1, O2, F: Fn(&'a [u8]) -> IResult<&'a [u8], O1>, G: Fn(&'a [u8]) -> IResult<&'a [u8], O2>>(first: F, second: G)
        -> (f: impl Fn(&'a [u8]) -> IResult<&'a [u8], O2>)
        requires
            forall|i: &'a [u8]| #[trigger] call_requires(first, (i,)),
            forall|i: &'a [u8]| #[trigger] call_requires(second, (i,)),
        ensures
            forall|i: &'a [u8]| #[trigger] call_requires(f, (i,)),
            forall|i: &'a [u8], r: IResult<&'a [u8], O2>| #[trigger] call_ensures(f, (i,), r) ==> seq2(first, second, i, r, |a: O1, b: O2| b),
    { move |i: &'a [u8]| unimplemented!() }

    #[verifier::external_body]
    pub fn pair<'a, O1, O2, F: Fn(&'a [u8]) -> IResult<&'a [u8], O1>, G: Fn(&'a [u8]) -> IResult<&'a [u8], O2>>(first: F, second: G)
        -> (f: impl Fn(&'a [u8]) -> IResult<&'a [u8], (O1, O2)>)
        requires
            forall|i: &'a [u8]| #[trigger] call_requires(first, (i,)),
            forall|i: &'a [u8]| #[trigger] call_requires(second, (i,)),
        ensures
            forall|i: &'a [u8]| #[trigger] call_requires(f, (i,)),
            forall|i: &'a [u8], r: IResult<&'a [u8], (O1, O2)>| #[trigger] call_ensures(f, (i,), r) ==> seq2(first, second, i, r, |a: O1, b: O2| (a, b)),
    { move |i: &'a [u8]| unimplemented!() }

    /// specified for 3-tuples (the only use)
    #[verifier::external_body]
    pub fn tuple<'a, O1, O2, O3, F: Fn(&'a [u8]) -> IResult<&'a [u8], O1>, G: Fn(&'a [u8]) -> IResult<&'a [u8], O2>, H: Fn(&'a [u8]) -> IResult<&'a [u8], O3>>(l: (F, G, H))
        -> (f: impl Fn(&'a [u8]) -> IResult<&'a [u8], (O1, O2, O3)>)
        requires
            forall|i: &'a [u8]| #[trigger] call_requires(l.0, (i,)),
            forall|i: &'a [u8]| #[trigger] call_requires(l.1, (i,)),
            forall|i: &'a [u8]| #[trigger] call_requires(l.2, (i,)),
        ensures
            forall|i: &'a [u8]| #[trigger] call_requires(f, (i,)),
            forall|i: &'a [u8], r: IResult<&'a [u8], (O1, O2, O3)>| #[trigger] call_ensures(f, (i,), r) ==> seq3(l.0, l.1, l.2, i, r, |a: O1, b: O2, c: O3| (a, b, c)),
    { move |i: &'a [u8]| unimplemented!() }
}

pub mod branch {
    use vstd::prelude::*;
    use crate::*;
    /// plain Rust, no contract (5 alternatives; used by ParsedComponent::parse only, which is outside the verified text):
    /// the first alternative that does not return a recoverable Error decides
    #[verifier::external]
    pub fn alt<'a, O, A: FnMut(&'a [u8]) -> IResult<&'a [u8], O>, B: FnMut(&'a [u8]) -> IResult<&'a [u8], O>, C: FnMut(&'a [u8]) -> IResult<&'a [u8], O>, D: FnMut(&'a [u8]) -> IResult<&'a [u8], O>, E: FnMut(&'a [u8]) -> IResult<&'a [u8], O>>(
        mut l: (A, B, C, D, E)) -> impl FnMut(&'a [u8]) -> IResult<&'a [u8], O>
    {
        move |i: &'a [u8]| {
            match (l.0)(i) { Err(Err::Error(_)) => {}, r => return r }
            match (l.1)(i) { Err(Err::Error(_)) => {}, r => return r }
            match (l.2)(i) { Err(Err::Error(_)) => {}, r => return r }
            match (l.3)(i) { Err(Err::Error(_)) => {}, r => return r }
            (l.4)(i)
        }
    }
}

} // verus!

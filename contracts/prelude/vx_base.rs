//! vx_base — ASSUMED contracts on third-party and std code (trusted base, DESIGN §5).
//! Everything in this crate is an assumption: `assume_specification`, `external_body`, `axiom`.
//! Compiled and exported by Verus; imported by the spliced `mpd_protocol` and `mpd_client`.
#![allow(unused_imports, dead_code, missing_docs, missing_debug_implementations)]
use vstd::prelude::*;
use bytes::{Buf, BufMut, BytesMut};
use std::io::Read;
verus!{
#[verifier::external_type_specification]
#[verifier::external_body]
pub struct ExBytesMut(BytesMut);

#[verifier::external_type_specification]
#[verifier::external_body]
pub struct ExIoError(std::io::Error);

#[verifier::external_type_specification]
pub struct ExIoErrorKind(std::io::ErrorKind);

/// abstract content of a BytesMut
pub uninterp spec fn bm_view(b: &BytesMut) -> Seq<u8>;
/// text of an `Arc<str>` / `Box<str>` (Verus sees through the smart pointer)
pub open spec fn arc_str_view(a: std::sync::Arc<str>) -> Seq<char> { (*a)@ }
pub open spec fn box_str_view(a: Box<str>) -> Seq<char> { (*a)@ }

pub assume_specification<'a> [<Box<str> as From<&'a str>>::from] (s: &str) -> (r: Box<str>)
    ensures box_str_view(r) == s@;
pub assume_specification<T> [std::mem::replace] (dest: &mut T, src: T) -> (r: T)
    ensures r == *old(dest), *final(dest) == src;

pub assume_specification [BytesMut::len] (b: &BytesMut) -> (r: usize)
    ensures r == bm_view(b).len();
pub assume_specification [BytesMut::is_empty] (b: &BytesMut) -> (r: bool)
    ensures r == (bm_view(b).len() == 0);
pub assume_specification [BytesMut::new] () -> (r: BytesMut)
    ensures bm_view(&r).len() == 0;
pub assume_specification [BytesMut::zeroed] (len: usize) -> (r: BytesMut)
    ensures bm_view(&r).len() == len;
pub assume_specification [BytesMut::with_capacity] (cap: usize) -> (r: BytesMut)
    ensures bm_view(&r).len() == 0;
pub assume_specification [BytesMut::clear] (b: &mut BytesMut)
    ensures bm_view(final(b)).len() == 0;
pub assume_specification [BytesMut::reserve] (b: &mut BytesMut, additional: usize)
    ensures bm_view(final(b)) == bm_view(old(b));
pub assume_specification [BytesMut::split_to] (b: &mut BytesMut, at: usize) -> (r: BytesMut)
    requires at <= bm_view(old(b)).len()     // bytes panics otherwise
    ensures bm_view(&r) == bm_view(old(b)).subrange(0, at as int),
            bm_view(final(b)) == bm_view(old(b)).subrange(at as int, bm_view(old(b)).len() as int);
pub assume_specification [BytesMut::split_off] (b: &mut BytesMut, at: usize) -> (r: BytesMut)
    requires at <= bm_view(old(b)).len()     // bytes panics otherwise ("split_off out of bounds")
    ensures bm_view(final(b)) == bm_view(old(b)).subrange(0, at as int),
            bm_view(&r) == bm_view(old(b)).subrange(at as int, bm_view(old(b)).len() as int);
pub assume_specification [BytesMut::unsplit] (b: &mut BytesMut, other: BytesMut)
    ensures bm_view(final(b)) == bm_view(old(b)) + bm_view(&other);
pub assume_specification [BytesMut::resize] (b: &mut BytesMut, new_len: usize, value: u8)
    ensures bm_view(final(b)).len() == new_len,
        new_len <= bm_view(old(b)).len() ==> bm_view(final(b)) == bm_view(old(b)).subrange(0, new_len as int),
        new_len >= bm_view(old(b)).len() ==> bm_view(final(b)).subrange(0, bm_view(old(b)).len() as int) == bm_view(old(b));
pub assume_specification [BytesMut::truncate] (b: &mut BytesMut, len: usize)
    ensures bm_view(final(b)) == if len <= bm_view(old(b)).len() { bm_view(old(b)).subrange(0, len as int) } else { bm_view(old(b)) };
pub assume_specification [<BytesMut as Buf>::advance] (b: &mut BytesMut, cnt: usize)
    requires cnt <= bm_view(old(b)).len()    // bytes panics otherwise
    ensures bm_view(final(b)) == bm_view(old(b)).subrange(cnt as int, bm_view(old(b)).len() as int);
pub assume_specification [<BytesMut as core::ops::Deref>::deref] (b: &BytesMut) -> (r: &[u8])
    ensures r@ == bm_view(b);
pub assume_specification [<BytesMut as core::ops::DerefMut>::deref_mut] (b: &mut BytesMut) -> (r: &mut [u8])
    ensures r@ == bm_view(old(b)), final(r)@.len() == r@.len(), bm_view(final(b)) == final(r)@;
pub assume_specification [BytesMut::extend_from_slice] (b: &mut BytesMut, extend: &[u8])
    ensures bm_view(final(b)) == bm_view(old(b)) + extend@;

/// a BytesMut never holds more than isize::MAX bytes (allocation limit)
pub broadcast axiom fn bm_len_bound(b: &BytesMut)
    ensures #[trigger] bm_view(b).len() <= isize::MAX as nat;

/// N10 wrappers: provided trait methods of `BufMut` cannot carry an assume_specification
#[verifier::external_body]
pub fn vx_put_u8(b: &mut BytesMut, v: u8)
    ensures bm_view(final(b)) == bm_view(old(b)).push(v)
{ b.put_u8(v) }
#[verifier::external_body]
pub fn vx_put_slice(b: &mut BytesMut, s: &[u8])
    ensures bm_view(final(b)) == bm_view(old(b)) + s@
{ b.put_slice(s) }

pub uninterp spec fn io_err_kind(e: &std::io::Error) -> std::io::ErrorKind;
/// N10 wrapper: `io::Error::new` takes `impl Into<Box<dyn Error + Send + Sync>>`
#[verifier::external_body]
pub fn io_error_new(kind: std::io::ErrorKind, error: &'static str) -> (r: std::io::Error)
    ensures io_err_kind(&r) == kind
{ std::io::Error::new(kind, error) }

// ---- blocking reader: `read` writes into the slice and reports how much (at most its length)
#[verifier::external_trait_specification]
pub trait ExRead {
    type ExternalTraitSpecificationFor: std::io::Read;
    fn read(&mut self, buf: &mut [u8]) -> (r: std::io::Result<usize>)
        ensures
            final(buf)@.len() == old(buf)@.len(),
            match r {
                Ok(n) => n <= old(buf)@.len(),
                Err(_) => true,
            };
}
#[verifier::external_trait_specification]
pub trait ExWrite {
    type ExternalTraitSpecificationFor: std::io::Write;
    fn write(&mut self, buf: &[u8]) -> (r: std::io::Result<usize>);
    fn flush(&mut self) -> (r: std::io::Result<()>);
}

/// ghost receive log (N15 ghost field; erased at run time): .0 = every byte a read ever delivered into the receive
/// buffer, .1 = "a read delivered 0 bytes into a non-empty window" (end of stream observed)
pub struct GhostLog(pub Ghost<Seq<u8>>, pub Ghost<bool>);
impl std::fmt::Debug for GhostLog { #[verifier::external_body] fn fmt(&self, f: &mut std::fmt::Formatter<'_>) -> std::fmt::Result { Ok(()) } }
impl GhostLog {
    pub fn empty() -> (r: GhostLog) ensures r.0@ == Seq::<u8>::empty(), r.1@ == false { GhostLog(Ghost(Seq::empty()), Ghost(false)) }
    pub fn of(rx: Ghost<Seq<u8>>, eof: Ghost<bool>) -> (r: GhostLog) ensures r.0@ == rx@, r.1@ == eof@ { GhostLog(rx, eof) }
}

pub broadcast proof fn lemma_sub_sub(s: Seq<u8>, a: int, b: int, c: int, d: int)
    requires 0 <= a <= b <= s.len(), 0 <= c <= d <= b - a
    ensures #[trigger] s.subrange(a, b).subrange(c, d) == s.subrange(a + c, a + d)
{ assert(s.subrange(a, b).subrange(c, d) =~= s.subrange(a + c, a + d)); }
}

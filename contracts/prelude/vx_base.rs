//! vx_base — ASSUMED contracts on third-party and std code (trusted base, DESIGN §5).
//! Everything in this crate is an assumption: `assume_specification`, `external_body`, `axiom`.
//! Compiled and exported by Verus; imported by the spliced `mpd_protocol` and `mpd_client`.
#![feature(allocator_api)]
#![feature(sized_hierarchy)]
#![allow(unused_imports, dead_code, missing_docs, missing_debug_implementations)]
use vstd::prelude::*;
use bytes::{Buf, BufMut, BytesMut};
use std::io::Read;
use std::borrow::Cow;
use vstd::std_specs::iter::IteratorSpec;
verus!{
/// usize is 64 bit on the targets this is verified for
global size_of usize == 8;

#[verifier::external_type_specification]
#[verifier::external_body]
pub struct ExBytesMut(BytesMut);

#[verifier::external_type_specification]
#[verifier::external_body]
pub struct ExIoError(std::io::Error);

#[verifier::external_type_specification]
pub struct ExIoErrorKind(std::io::ErrorKind);

/// abstract content of a BytesMut
pub uninterp spec fn bm_view(b: &BytesMut) -> Seq<u8>;
/// text of an `Arc<str>` / `Box<str>` (Verus sees through the smart pointer)
pub open spec fn arc_str_view(a: std::sync::Arc<str>) -> Seq<char> { (*a)@ }
pub open spec fn box_str_view(a: Box<str>) -> Seq<char> { (*a)@ }

pub assume_specification<'a> [<Box<str> as From<&'a str>>::from] (s: &str) -> (r: Box<str>)
    ensures box_str_view(r) == s@;
pub assume_specification<'a> [<std::sync::Arc<str> as From<&'a str>>::from] (s: &str) -> (r: std::sync::Arc<str>)
    ensures arc_str_view(r) == s@;
pub assume_specification<'a> [<String as From<&'a str>>::from] (s: &str) -> (r: String)
    ensures r@ == s@;
pub assume_specification [<Box<str> as From<String>>::from] (s: String) -> (r: Box<str>)
    ensures box_str_view(r) == s@;
pub assume_specification<T> [std::mem::replace] (dest: &mut T, src: T) -> (r: T)
    ensures r == *old(dest), *final(dest) == src;

pub assume_specification [BytesMut::len] (b: &BytesMut) -> (r: usize)
    ensures r == bm_view(b).len();
pub assume_specification [BytesMut::is_empty] (b: &BytesMut) -> (r: bool)
    ensures r == (bm_view(b).len() == 0);
pub assume_specification [BytesMut::new] () -> (r: BytesMut)
    ensures bm_view(&r).len() == 0;
pub assume_specification [BytesMut::zeroed] (len: usize) -> (r: BytesMut)
    ensures bm_view(&r).len() == len;
pub assume_specification [BytesMut::with_capacity] (cap: usize) -> (r: BytesMut)
    ensures bm_view(&r).len() == 0;
pub assume_specification [BytesMut::clear] (b: &mut BytesMut)
    ensures bm_view(final(b)).len() == 0;
pub assume_specification [BytesMut::reserve] (b: &mut BytesMut, additional: usize)
    ensures bm_view(final(b)) == bm_view(old(b));
pub assume_specification [BytesMut::split_to] (b: &mut BytesMut, at: usize) -> (r: BytesMut)
    requires at <= bm_view(old(b)).len()     // bytes panics otherwise
    ensures bm_view(&r) == bm_view(old(b)).subrange(0, at as int),
            bm_view(final(b)) == bm_view(old(b)).subrange(at as int, bm_view(old(b)).len() as int);
pub assume_specification [BytesMut::split_off] (b: &mut BytesMut, at: usize) -> (r: BytesMut)
    requires at <= bm_view(old(b)).len()     // bytes panics otherwise ("split_off out of bounds")
    ensures bm_view(final(b)) == bm_view(old(b)).subrange(0, at as int),
            bm_view(&r) == bm_view(old(b)).subrange(at as int, bm_view(old(b)).len() as int);
pub assume_specification [BytesMut::unsplit] (b: &mut BytesMut, other: BytesMut)
    ensures bm_view(final(b)) == bm_view(old(b)) + bm_view(&other);
pub assume_specification [BytesMut::resize] (b: &mut BytesMut, new_len: usize, value: u8)
    ensures bm_view(final(b)).len() == new_len,
        new_len <= bm_view(old(b)).len() ==> bm_view(final(b)) == bm_view(old(b)).subrange(0, new_len as int),
        new_len >= bm_view(old(b)).len() ==> bm_view(final(b)).subrange(0, bm_view(old(b)).len() as int) == bm_view(old(b));
pub assume_specification [BytesMut::truncate] (b: &mut BytesMut, len: usize)
    ensures bm_view(final(b)) == if len <= bm_view(old(b)).len() { bm_view(old(b)).subrange(0, len as int) } else { bm_view(old(b)) };
pub assume_specification [<BytesMut as Buf>::advance] (b: &mut BytesMut, cnt: usize)
    requires cnt <= bm_view(old(b)).len()    // bytes panics otherwise
    ensures bm_view(final(b)) == bm_view(old(b)).subrange(cnt as int, bm_view(old(b)).len() as int);
pub assume_specification [<BytesMut as core::ops::Deref>::deref] (b: &BytesMut) -> (r: &[u8])
    ensures r@ == bm_view(b);
pub assume_specification [<BytesMut as core::ops::DerefMut>::deref_mut] (b: &mut BytesMut) -> (r: &mut [u8])
    ensures r@ == bm_view(old(b)), final(r)@.len() == r@.len(), bm_view(final(b)) == final(r)@;
pub assume_specification [BytesMut::extend_from_slice] (b: &mut BytesMut, extend: &[u8])
    ensures bm_view(final(b)) == bm_view(old(b)) + extend@;

/// a BytesMut never holds more than isize::MAX bytes (allocation limit)
pub broadcast axiom fn bm_len_bound(b: &BytesMut)
    ensures #[trigger] bm_view(b).len() <= isize::MAX as nat;

/// N10 wrappers: provided trait methods of `BufMut` cannot carry an assume_specification
#[verifier::external_body]
pub fn vx_put_u8(b: &mut BytesMut, v: u8)
    ensures bm_view(final(b)) == bm_view(old(b)).push(v)
{ b.put_u8(v) }
#[verifier::external_body]
pub fn vx_put_slice(b: &mut BytesMut, s: &[u8])
    ensures bm_view(final(b)) == bm_view(old(b)) + s@
{ b.put_slice(s) }

pub uninterp spec fn io_err_kind(e: &std::io::Error) -> std::io::ErrorKind;
/// N10 wrapper: `io::Error::new` takes `impl Into<Box<dyn Error + Send + Sync>>`
#[verifier::external_body]
pub fn io_error_new(kind: std::io::ErrorKind, error: &'static str) -> (r: std::io::Error)
    ensures io_err_kind(&r) == kind
{ std::io::Error::new(kind, error) }

// ---- blocking reader: `read` writes into the slice and reports how much (at most its length)
#[verifier::external_trait_specification]
pub trait ExRead {
    type ExternalTraitSpecificationFor: std::io::Read;
    fn read(&mut self, buf: &mut [u8]) -> (r: std::io::Result<usize>)
        ensures
            final(buf)@.len() == old(buf)@.len(),
            match r {
                Ok(n) => n <= old(buf)@.len(),
                Err(_) => true,
            };
}
#[verifier::external_trait_specification]
pub trait ExWrite {
    type ExternalTraitSpecificationFor: std::io::Write;
    fn write(&mut self, buf: &[u8]) -> (r: std::io::Result<usize>);
    fn flush(&mut self) -> (r: std::io::Result<()>);
}

/// ghost connection log (N15 ghost field; erased at run time): .0 = every byte a read ever delivered into the receive
/// buffer, .1 = "the last read of the most recent receive delivered 0 bytes into a non-empty window" (end of stream
/// observed), .2 = every byte a successful write_all handed to the transport, .3 = number of successful send / send_list
/// calls, .4 = number of complete responses `receive` returned
pub struct GhostLog(pub Ghost<Seq<u8>>, pub Ghost<bool>, pub Ghost<Seq<u8>>, pub Ghost<nat>, pub Ghost<nat>);
impl std::fmt::Debug for GhostLog { #[verifier::external_body] fn fmt(&self, f: &mut std::fmt::Formatter<'_>) -> std::fmt::Result { Ok(()) } }
impl GhostLog {
    pub fn empty() -> (r: GhostLog) ensures r.0@ == Seq::<u8>::empty(), r.1@ == false, r.2@ == Seq::<u8>::empty(), r.3@ == 0, r.4@ == 0 { GhostLog(Ghost(Seq::empty()), Ghost(false), Ghost(Seq::empty()), Ghost(0), Ghost(0)) }
    pub fn of(rx: Ghost<Seq<u8>>, eof: Ghost<bool>) -> (r: GhostLog) ensures r.0@ == rx@, r.1@ == eof@, r.2@ == Seq::<u8>::empty(), r.3@ == 0, r.4@ == 0 { GhostLog(rx, eof, Ghost(Seq::empty()), Ghost(0), Ghost(0)) }
}
pub assume_specification<T, E> [Result::<Option<T>, E>::transpose] (r: Result<Option<T>, E>) -> (o: Option<Result<T, E>>)
    ensures o == match r { Ok(Some(x)) => Some(Ok::<T, E>(x)), Ok(None) => None::<Result<T, E>>, Err(e) => Some(Err::<T, E>(e)) };
// ---- str::parse / f64 / Duration
#[verifier::external_trait_specification]
pub trait ExFromStr: Sized {
    type ExternalTraitSpecificationFor: std::str::FromStr;
    type Err;
    fn from_str(s: &str) -> Result<Self, Self::Err>;
}
/// the value a text parses to with `str::parse::<I>` (std's own grammar per type), None = parse error
pub uninterp spec fn parse_spec<I>(s: Seq<char>) -> Option<I>;
pub assume_specification<F: std::str::FromStr> [str::parse::<F>] (s: &str) -> (r: Result<F, F::Err>)
    ensures match parse_spec::<F>(s@) { Some(v) => r == Ok::<F, F::Err>(v), None => r is Err };
/// ASCII decimal digits, and their value (the grammar `u64::from_str` / `usize::from_str` accept without a sign)
pub open spec fn ascii_digits(b: Seq<u8>) -> bool { b.len() > 0 && forall|k: int| 0 <= k < b.len() ==> 0x30 <= #[trigger] b[k] <= 0x39 }
pub open spec fn ascii_dec_value(b: Seq<u8>, e: int) -> nat
    decreases e
{
    if e <= 0 { 0 } else { ascii_dec_value(b, e - 1) * 10 + (b[e - 1] - 0x30) as nat }
}
/// ASSUMED about `u64::from_str`: a non-empty string of ASCII digits parses to its decimal value, and fails iff that exceeds u64::MAX
#[verifier::external_body]
pub broadcast proof fn axiom_parse_u64_digits(t: Seq<char>)
    requires ascii_digits(vstd::utf8::encode_utf8(t))
    ensures #[trigger] parse_spec::<u64>(t) == (if ascii_dec_value(vstd::utf8::encode_utf8(t), vstd::utf8::encode_utf8(t).len() as int) <= u64::MAX { Some(ascii_dec_value(vstd::utf8::encode_utf8(t), vstd::utf8::encode_utf8(t).len() as int) as u64) } else { None })
{}
/// ASSUMED about `usize::from_str` (usize is 64 bits here): as for u64
#[verifier::external_body]
pub broadcast proof fn axiom_parse_usize_digits(t: Seq<char>)
    requires ascii_digits(vstd::utf8::encode_utf8(t))
    ensures #[trigger] parse_spec::<usize>(t) == (if ascii_dec_value(vstd::utf8::encode_utf8(t), vstd::utf8::encode_utf8(t).len() as int) <= usize::MAX { Some(ascii_dec_value(vstd::utf8::encode_utf8(t), vstd::utf8::encode_utf8(t).len() as int) as usize) } else { None })
{}
#[verifier::external_type_specification] #[verifier::external_body] pub struct ExUtf8Error(core::str::Utf8Error);
/// ASSUMED about `core::str::from_utf8`: succeeds exactly on valid UTF-8 (vstd's definition) and returns the text with these bytes
pub assume_specification<'a> [core::str::from_utf8] (b: &'a [u8]) -> (r: Result<&'a str, core::str::Utf8Error>)
    ensures
        vstd::utf8::valid_utf8(b@) ==> (r matches Ok(s) && vstd::utf8::encode_utf8(s@) == b@),
        !vstd::utf8::valid_utf8(b@) ==> r is Err;
/// "v is representable as a Duration": finite, >= 0, below 2^64 seconds — exactly what Duration::try_from_secs_f64 accepts
pub uninterp spec fn f64_repr_ok(v: f64) -> bool;
pub uninterp spec fn dur_of_f64(v: f64) -> std::time::Duration;
pub assume_specification [std::time::Duration::as_secs_f64] (d: &std::time::Duration) -> f64;
pub assume_specification [f64::is_finite] (v: f64) -> bool;
pub assume_specification [std::time::Duration::from_secs_f64] (v: f64) -> (r: std::time::Duration)
    requires f64_repr_ok(v)            // the std function PANICS otherwise
    ensures r == dur_of_f64(v);
#[verifier::external_type_specification] #[verifier::external_body] pub struct ExTryFromFloatSecsError(std::time::TryFromFloatSecsError);
pub assume_specification [std::time::Duration::try_from_secs_f64] (v: f64) -> (r: Result<std::time::Duration, std::time::TryFromFloatSecsError>)
    ensures match r { Ok(d) => f64_repr_ok(v) && d == dur_of_f64(v), Err(_) => !f64_repr_ok(v) };
pub uninterp spec fn dur_millis(d: std::time::Duration) -> nat;
pub assume_specification [std::time::Duration::from_millis] (m: u64) -> (r: std::time::Duration)
    ensures dur_millis(r) == m;
/// N21: `panic!(..)` / `unreachable!(..)` in lifted code become a call of this function: reaching it is an obligation
/// (`requires false`); the message formatting is dropped
#[verifier::external_body]
pub fn vx_panic<T>() -> (r: T)
    requires false
{ panic!("vx_panic") }
/// N21: `assert!(c)` / `assert_eq!(a, b)` in lifted code: the condition is an obligation
#[verifier::external_body]
pub fn vx_assert(c: bool)
    requires c
{ assert!(c) }

/// N10 wrapper for the provided method `io::Write::write_all`
#[verifier::external_body]
pub fn vx_write_all<W: std::io::Write>(w: &mut W, buf: &[u8]) -> (r: std::io::Result<()>)
{ w.write_all(buf) }

pub broadcast proof fn lemma_sub_sub(s: Seq<u8>, a: int, b: int, c: int, d: int)
    requires 0 <= a <= b <= s.len(), 0 <= c <= d <= b - a
    ensures #[trigger] s.subrange(a, b).subrange(c, d) == s.subrange(a + c, a + d)
{ assert(s.subrange(a, b).subrange(c, d) =~= s.subrange(a + c, a + d)); }

// ------------------------------------------------------------------------------------------ str / String / iterators
/// result of asking pattern `p` about one char (closures: the call's postcondition; char slices: membership; a str: n/a)
pub uninterp spec fn pat_result<P>(p: P, c: char, b: bool) -> bool;
pub broadcast axiom fn pat_result_fn<F: FnMut(char) -> bool>(p: F, c: char, b: bool)
    ensures #[trigger] pat_result::<F>(p, c, b) == call_ensures(p, (c,), b);
pub broadcast axiom fn pat_result_slice(p: &[char], c: char, b: bool)
    ensures #[trigger] pat_result::<&[char]>(p, c, b) == (b == p@.contains(c));
#[verifier::allow(undeclared_external_trait)]
pub assume_specification<P: std::str::pattern::Pattern> [str::contains] (s: &str, p: P) -> (r: bool)
    ensures r ==> exists|i: int| 0 <= i < s@.len() && pat_result(p, #[trigger] s@[i], true),
            !r ==> forall|i: int| 0 <= i < s@.len() ==> pat_result(p, #[trigger] s@[i], false);
/// prefix test for a `&str` pattern
pub uninterp spec fn pat_prefix<P>(p: P, s: Seq<char>) -> bool;
pub broadcast axiom fn pat_prefix_str(p: &str, s: Seq<char>)
    ensures #[trigger] pat_prefix::<&str>(p, s) == (p@.len() <= s.len() && s.subrange(0, p@.len() as int) == p@);
#[verifier::allow(undeclared_external_trait)]
pub assume_specification<P: std::str::pattern::Pattern> [str::starts_with] (s: &str, p: P) -> (r: bool)
    ensures r == pat_prefix(p, s@);
pub assume_specification [std::string::String::with_capacity] (n: usize) -> (r: std::string::String)
    ensures r@ == Seq::<char>::empty();
pub uninterp spec fn unicode_alphabetic(c: char) -> bool;
pub uninterp spec fn unicode_alphanumeric(c: char) -> bool;
pub uninterp spec fn unicode_control(c: char) -> bool;
pub assume_specification [char::is_alphabetic] (c: char) -> (r: bool) ensures r == unicode_alphabetic(c);
pub assume_specification [char::is_alphanumeric] (c: char) -> (r: bool) ensures r == unicode_alphanumeric(c);
pub assume_specification [char::is_control] (c: char) -> (r: bool) ensures r == unicode_control(c);
pub assume_specification [char::is_ascii_alphanumeric] (c: &char) -> (r: bool)
    ensures r == (('a' <= *c && *c <= 'z') || ('A' <= *c && *c <= 'Z') || ('0' <= *c && *c <= '9'));
pub assume_specification [char::is_ascii_digit] (c: &char) -> (r: bool) ensures r == ('0' <= *c && *c <= '9');
pub assume_specification [char::is_ascii_whitespace] (c: &char) -> (r: bool)
    ensures r == (*c == ' ' || *c == '\t' || *c == '\n' || *c == '\x0c' || *c == '\r');
pub assume_specification [char::is_ascii_control] (c: &char) -> (r: bool) ensures r == ((*c as u32) < 0x20 || *c == '\x7f');
pub assume_specification [char::is_ascii] (c: &char) -> (r: bool) ensures r == ((*c as u32) < 0x80);
pub assume_specification [char::is_ascii_alphabetic] (c: &char) -> (r: bool)
    ensures r == (('a' <= *c && *c <= 'z') || ('A' <= *c && *c <= 'Z'));

pub assume_specification<T: ?Sized, A: std::alloc::Allocator> [<std::sync::Arc<T, A> as AsRef<T>>::as_ref] (a: &std::sync::Arc<T, A>) -> (r: &T)
    ensures r == &**a;
pub assume_specification [<String as AsRef<str>>::as_ref] (s: &String) -> (r: &str)
    ensures r@ == s@;
/// a slice / Vec of elements of non-zero size has at most isize::MAX elements (allocation limit); used for `len() + 1`
pub broadcast axiom fn slice_iter_len_bound<'a, T>(it: &std::slice::Iter<'a, T>)
    ensures #[trigger] it.remaining().len() <= isize::MAX as nat;
pub broadcast axiom fn vec_into_iter_len_bound<T>(it: &std::vec::IntoIter<T>)
    ensures #[trigger] it.remaining().len() <= isize::MAX as nat;
/// `AsRef<str>`: the text a key argument stands for (uninterpreted per type; instantiated for &str / String)
#[verifier::external_trait_specification]
pub trait ExAsRef<T: std::marker::PointeeSized>: std::marker::PointeeSized {
    type ExternalTraitSpecificationFor: AsRef<T> + std::marker::PointeeSized;
    fn as_ref(&self) -> (r: &T) ensures r == as_ref_img::<Self, T>(self);
}
pub uninterp spec fn as_ref_img<S: std::marker::PointeeSized, T: std::marker::PointeeSized>(s: &S) -> &T;
pub open spec fn as_ref_str<K: ?Sized>(k: &K) -> Seq<char> { as_ref_img::<K, str>(k)@ }
pub broadcast axiom fn as_ref_str_str(k: &&str) ensures #[trigger] as_ref_img::<&str, str>(k)@ == (*k)@;
pub broadcast axiom fn as_ref_str_string(k: &String) ensures #[trigger] as_ref_img::<String, str>(k)@ == k@;
/// `Option::as_deref` through an uninterpreted Deref image (instantiated for BytesMut below)
pub uninterp spec fn deref_image<'a, T: core::ops::Deref>(t: &'a T) -> &'a T::Target;
pub broadcast axiom fn deref_image_bytesmut<'a>(b: &'a BytesMut) ensures #[trigger] deref_image::<BytesMut>(b)@ == bm_view(b);
pub assume_specification<T: core::ops::Deref> [Option::<T>::as_deref] (o: &Option<T>) -> (r: Option<&T::Target>)
    ensures match *o { Some(t) => r == Some(deref_image(&t)), None => r is None };
pub open spec fn cow_view(c: Cow<'_, str>) -> Seq<char> { match c { Cow::Borrowed(s) => s@, Cow::Owned(s) => s@ } }
pub uninterp spec fn cow_ref<'a, 'b, B: ?Sized + ToOwned>(c: &'b Cow<'a, B>) -> &'b B;
pub broadcast axiom fn cow_ref_str<'a, 'b>(c: &'b Cow<'a, str>) ensures #[trigger] cow_ref::<str>(c)@ == cow_view(*c);
pub assume_specification<'a, 'b, B: ?Sized + ToOwned> [<Cow<'a, B> as core::ops::Deref>::deref] (c: &'b Cow<'a, B>) -> (r: &'b B)
    ensures r == cow_ref(c);

/// N10 wrapper for `str::len` (vstd's own specification says nothing about the value): byte length; a `str` in memory is
/// shorter than 2^62 bytes (address-space bound of 64-bit targets) and has at most one char per byte
#[verifier::external_body]
pub fn vx_str_len(s: &str) -> (r: usize)
    ensures (r as int) < 0x4000_0000_0000_0000, s@.len() <= r, r == vstd::utf8::encode_utf8(s@).len()
{ s.len() }

/// `Filter::count`: at most the number of inner elements; 0 iff the predicate said `false` for every element
pub assume_specification<I: Iterator, P: FnMut(&I::Item) -> bool> [<std::iter::Filter<I, P> as Iterator>::count] (it: std::iter::Filter<I, P>) -> (r: usize)
    ensures
        r <= vstd::std_specs::iter::filter_iter(it).remaining().len(),
        r == 0 ==> forall|i: int| 0 <= i < vstd::std_specs::iter::filter_iter(it).remaining().len() ==> call_ensures(vstd::std_specs::iter::filter_fun(it), (&#[trigger] vstd::std_specs::iter::filter_iter(it).remaining()[i],), false),
        r > 0 ==> exists|i: int| 0 <= i < vstd::std_specs::iter::filter_iter(it).remaining().len() && call_ensures(vstd::std_specs::iter::filter_fun(it), (&#[trigger] vstd::std_specs::iter::filter_iter(it).remaining()[i],), true);

/// `slice::Iter::position`: index of the first element the predicate accepts
pub assume_specification<'a, T, P: FnMut(&'a T) -> bool> [<std::slice::Iter<'a, T> as Iterator>::position::<P>] (it: &mut std::slice::Iter<'a, T>, p: P) -> (r: Option<usize>)
    where std::slice::Iter<'a, T>: Sized,
    ensures
        match r {
            Some(i) => i < old(it).remaining().len() && call_ensures(p, (old(it).remaining()[i as int],), true)
                 && forall|j: int| 0 <= j < i ==> call_ensures(p, (#[trigger] old(it).remaining()[j],), false),
            None => forall|j: int| 0 <= j < old(it).remaining().len() ==> call_ensures(p, (#[trigger] old(it).remaining()[j],), false),
        };

#[verifier::external_type_specification]
#[verifier::external_body]
pub struct ExCharIndices<'a>(std::str::CharIndices<'a>);
/// the (byte index, char) pairs a CharIndices iterator still has to yield
pub uninterp spec fn ci_seq<'a>(it: &std::str::CharIndices<'a>) -> Seq<(usize, char)>;
pub assume_specification<'a> [str::char_indices] (s: &'a str) -> (r: std::str::CharIndices<'a>)
    ensures ci_seq(&r).len() == s@.len(), forall|k: int| 0 <= k < s@.len() ==> (#[trigger] ci_seq(&r)[k]).1 == s@[k],
            s@.len() > 0 ==> ci_seq(&r)[0].0 == 0,
            forall|k: int| 1 <= k < s@.len() ==> (#[trigger] ci_seq(&r)[k]).0 > 0,
            forall|k: int| 0 <= k < s@.len() && (forall|j: int| 0 <= j < k ==> (s@[j] as u32) < 128) ==> (#[trigger] ci_seq(&r)[k]).0 == k;
/// N10 wrapper for the provided method `Iterator::find` on CharIndices: first pair the predicate accepts
#[verifier::external_body]
pub fn vx_ci_find<'a, P: FnMut(&(usize, char)) -> bool>(it: std::str::CharIndices<'a>, p: P) -> (r: Option<(usize, char)>)
    ensures
        match r {
            Some(x) => exists|k: int| 0 <= k < ci_seq(&it).len() && ci_seq(&it)[k] == x && call_ensures(p, (&ci_seq(&it)[k],), true)
                 && forall|j: int| 0 <= j < k ==> call_ensures(p, (&#[trigger] ci_seq(&it)[j],), false),
            None => forall|j: int| 0 <= j < ci_seq(&it).len() ==> call_ensures(p, (&#[trigger] ci_seq(&it)[j],), false),
        }
{ let mut it = it; it.find(p) }

/// N10 wrapper for the provided method `Iterator::sum` (value only used as a capacity hint; the sum of the lengths of
/// buffers that exist in memory at the same time cannot overflow usize)
#[verifier::external_body]
pub fn vx_sum_usize<I: Iterator<Item = usize>>(it: I) -> (r: usize)
    ensures (r as int) < 0x4000_0000_0000_0000
{ it.sum::<usize>() }

// ------------------------------------------------------------------------------------------ bytes::Bytes / conversions
#[verifier::external_type_specification]
#[verifier::external_body]
pub struct ExBytes(bytes::Bytes);
pub assume_specification [bytes::Bytes::copy_from_slice] (data: &[u8]) -> bytes::Bytes;
pub assume_specification [BytesMut::freeze] (b: BytesMut) -> bytes::Bytes;
pub assume_specification<'a> [<BytesMut as From<&'a str>>::from] (s: &'a str) -> (r: BytesMut)
    ensures bm_view(&r) == vstd::utf8::encode_utf8(s@);

// ---- helpers for the typed decoders of mpd_client
/// index of the first occurrence of a char
pub open spec fn char_first(s: Seq<char>, c: char) -> Option<int>
    decreases s.len()
{ if s.len() == 0 { None } else if s[0] == c { Some(0int) } else { match char_first(s.skip(1), c) { Some(i) => Some(i + 1), None => None } } }
pub proof fn lemma_char_first(s: Seq<char>, c: char)
    ensures match char_first(s, c) { Some(i) => 0 <= i < s.len() && s[i] == c && forall|j: int| 0 <= j < i ==> s[j] != c, None => forall|j: int| 0 <= j < s.len() ==> s[j] != c }
    decreases s.len()
{
    if s.len() > 0 && s[0] != c {
        lemma_char_first(s.skip(1), c);
        match char_first(s.skip(1), c) {
            Some(i) => { assert forall|j: int| 0 <= j < i + 1 implies s[j] != c by { if j > 0 { assert(s.skip(1)[j - 1] == s[j]); } } assert(s.skip(1)[i] == s[i + 1]); }
            None => { assert forall|j: int| 0 <= j < s.len() implies s[j] != c by { if j > 0 { assert(s.skip(1)[j - 1] == s[j]); } } }
        }
    }
}
/// N10 wrapper for `str::split_once` with a char delimiter (generic `Pattern`): splits at the FIRST occurrence
#[verifier::external_body]
pub fn vx_split_once_char<'a>(s: &'a String, c: char) -> (r: Option<(&'a str, &'a str)>)
    ensures match char_first(s@, c) {
        Some(i) => r matches Some((a, b)) && a@ == s@.subrange(0, i) && b@ == s@.subrange(i + 1, s@.len() as int),
        None => r is None }
{ s.split_once(c) }
#[verifier::external_body]
pub fn vx_str_split_once_char<'a>(s: &'a str, c: char) -> (r: Option<(&'a str, &'a str)>)
    ensures match char_first(s@, c) {
        Some(i) => r matches Some((a, b)) && a@ == s@.subrange(0, i) && b@ == s@.subrange(i + 1, s@.len() as int),
        None => r is None }
{ s.split_once(c) }
/// `Duration::ZERO` (an associated const of an external type)
pub uninterp spec fn dur_zero() -> std::time::Duration;
#[verifier::external_body]
pub fn vx_duration_zero() -> (r: std::time::Duration) ensures r == dur_zero() { std::time::Duration::ZERO }

// ---- ASCII case-insensitive comparison (str::eq_ignore_ascii_case)
pub open spec fn ascii_lower(c: char) -> char { if 'A' <= c && c <= 'Z' { ((c as u8) + 32) as char } else { c } }
pub open spec fn eq_ic(a: Seq<char>, b: Seq<char>) -> bool { a.len() == b.len() && forall|i: int| 0 <= i < a.len() ==> ascii_lower(#[trigger] a[i]) == ascii_lower(b[i]) }
pub assume_specification [str::eq_ignore_ascii_case] (a: &str, b: &str) -> (r: bool) ensures r == eq_ic(a@, b@);
/// N10 wrappers for comparisons / hashing / printing through `Cow<str>` and `Box<str>` (generic std impls)
#[verifier::external_body]
pub fn vx_cow_eq(a: &Cow<'_, str>, b: &Cow<'_, str>) -> (r: bool) ensures r == (cow_view(*a) == cow_view(*b)) { a == b }
#[verifier::external_body]
pub fn vx_cow_eq_str(a: &Cow<'_, str>, b: &str) -> (r: bool) ensures r == (cow_view(*a) == b@) { a == b }
/// the total order of `str` (byte-wise lexicographic); uninterpreted here
pub uninterp spec fn str_cmp(a: Seq<char>, b: Seq<char>) -> core::cmp::Ordering;
#[verifier::external_body]
pub fn vx_cow_cmp(a: &Cow<'_, str>, b: &Cow<'_, str>) -> (r: core::cmp::Ordering) ensures r == str_cmp(cow_view(*a), cow_view(*b)) { a.cmp(b) }
/// feeding a str to a hasher: the new hasher state is a function of the old state and the text
pub uninterp spec fn hash_str<H>(h: H, s: Seq<char>) -> H;
#[verifier::external_body]
pub fn vx_cow_hash<H: core::hash::Hasher>(a: &Cow<'_, str>, state: &mut H) ensures *final(state) == hash_str(*old(state), cow_view(*a)) { core::hash::Hash::hash(a, state) }
#[verifier::external_body]
pub fn vx_str_hash<H: core::hash::Hasher>(a: &str, state: &mut H) ensures *final(state) == hash_str(*old(state), a@) { core::hash::Hash::hash(a, state) }
#[verifier::external_body]
pub fn vx_box_str_to_string(b: &Box<str>) -> (r: String) ensures r@ == box_str_view(*b) { b.to_string() }

/// `String::truncate(n)`: cuts at byte offset n, which must lie on a char boundary (otherwise it panics); a no-op for n >= len
pub assume_specification [std::string::String::truncate] (s: &mut String, n: usize)
    requires n >= vstd::utf8::encode_utf8(old(s)@).len() || exists|i: int| 0 <= i <= old(s)@.len() && vstd::utf8::encode_utf8(#[trigger] old(s)@.subrange(0, i)).len() == n,
    ensures n >= vstd::utf8::encode_utf8(old(s)@).len() ==> final(s)@ == old(s)@,
            forall|i: int| 0 <= i <= old(s)@.len() && vstd::utf8::encode_utf8(#[trigger] old(s)@.subrange(0, i)).len() == n ==> final(s)@ == old(s)@.subrange(0, i);

// ---- N9: `write!(buf, "lit{}lit..", args..)` into a BytesMut with plain `{}` placeholders only
pub broadcast axiom fn as_ref_str_cow<'a>(k: &Cow<'a, str>) ensures #[trigger] as_ref_img::<Cow<'a, str>, str>(k)@ == cow_view(*k);
/// one piece of formatted output whose Display is its text (str, String, Cow<str>): BytesMut's fmt::Write appends the UTF-8 bytes
/// (it fails only when the buffer would exceed usize::MAX bytes)
#[verifier::external_body]
pub fn vx_put_str<S: AsRef<str>>(b: &mut BytesMut, s: S)
    ensures bm_view(final(b)) == bm_view(old(b)) + vstd::utf8::encode_utf8(as_ref_str(&s))
{ b.put_slice(s.as_ref().as_bytes()) }
/// decimal digits of an unsigned integer (what Display writes), uninterpreted except through dec_digits_spec
pub uninterp spec fn dec_text(n: nat) -> Seq<char>;
#[verifier::external_body]
pub fn vx_put_u64(b: &mut BytesMut, n: &u64)
    ensures bm_view(final(b)) == bm_view(old(b)) + vstd::utf8::encode_utf8(dec_text(*n as nat))
{ use std::fmt::Write; write!(b, "{}", n).unwrap() }
#[verifier::external_body]
pub fn vx_put_usize(b: &mut BytesMut, n: &usize)
    ensures bm_view(final(b)) == bm_view(old(b)) + vstd::utf8::encode_utf8(dec_text(*n as nat))
{ use std::fmt::Write; write!(b, "{}", n).unwrap() }
pub fn vx_fmt_ok() -> (r: Result<(), std::fmt::Error>) ensures r is Ok { Ok(()) }
/// N10 wrapper for `str::replace` with a char pattern: every occurrence of `c` becomes `to`
pub open spec fn replace_char(s: Seq<char>, c: char, to: Seq<char>) -> Seq<char>
    decreases s.len()
{ if s.len() == 0 { seq![] } else if s[0] == c { to + replace_char(s.skip(1), c, to) } else { seq![s[0]] + replace_char(s.skip(1), c, to) } }
#[verifier::external_body]
pub fn vx_str_replace_char(s: &str, c: char, to: &str) -> (r: String) ensures r@ == replace_char(s@, c, to@) { s.replace(c, to) }
#[verifier::external_body]
pub fn vx_string_replace_char(s: String, c: char, to: &str) -> (r: String) ensures r@ == replace_char(s@, c, to@) { s.replace(c, to) }
/// `str::contains` with a char pattern
#[verifier::external_body]
pub fn vx_str_contains_char(s: &str, c: char) -> (r: bool) ensures r == (exists|i: int| 0 <= i < s@.len() && s@[i] == c) { s.contains(c) }

/// `Into<String>` of a generic value: the text it converts to (fixed for &str and String below)
pub uninterp spec fn into_string_view<V>(v: V) -> Seq<char>;
pub broadcast axiom fn into_string_view_str(v: &str) ensures #[trigger] into_string_view::<&str>(v) == v@;
pub broadcast axiom fn into_string_view_string(v: String) ensures #[trigger] into_string_view::<String>(v) == v@;
#[verifier::external_body]
pub fn vx_into_string<V: Into<String>>(v: V) -> (r: String) ensures r@ == into_string_view(v) { v.into() }


/// N10 wrappers tying `RangeBounds::{start_bound,end_bound}` of a GENERIC range to vstd's spec functions (vstd states this only for
/// the concrete std range types; for any other implementor the spec functions are uninterpreted, so this is their definition)
#[verifier::external_body]
pub fn vx_start_bound<'a, T, R: core::ops::RangeBounds<T>>(r: &'a R) -> (b: core::ops::Bound<&'a T>)
    ensures b == vstd::std_specs::range::RangeBoundsSpec::spec_start_bound(r)
{ r.start_bound() }
#[verifier::external_body]
pub fn vx_end_bound<'a, T, R: core::ops::RangeBounds<T>>(r: &'a R) -> (b: core::ops::Bound<&'a T>)
    ensures b == vstd::std_specs::range::RangeBoundsSpec::spec_end_bound(r)
{ r.end_bound() }

/// Display of the narrower unsigned integers (same uninterpreted decimal text)
#[verifier::external_body]
pub fn vx_put_u8d(b: &mut BytesMut, n: &u8) ensures bm_view(final(b)) == bm_view(old(b)) + vstd::utf8::encode_utf8(dec_text(*n as nat)) { use std::fmt::Write; write!(b, "{}", n).unwrap() }
#[verifier::external_body]
pub fn vx_put_u16(b: &mut BytesMut, n: &u16) ensures bm_view(final(b)) == bm_view(old(b)) + vstd::utf8::encode_utf8(dec_text(*n as nat)) { use std::fmt::Write; write!(b, "{}", n).unwrap() }
#[verifier::external_body]
pub fn vx_put_u32(b: &mut BytesMut, n: &u32) ensures bm_view(final(b)) == bm_view(old(b)) + vstd::utf8::encode_utf8(dec_text(*n as nat)) { use std::fmt::Write; write!(b, "{}", n).unwrap() }
/// ASSUMED about Display of unsigned integers: a non-empty string of ASCII digits (so never a blank, LF, NUL, quote or backslash)
pub broadcast axiom fn dec_text_digits(n: nat)
    ensures (#[trigger] dec_text(n)).len() > 0, forall|i: int| 0 <= i < dec_text(n).len() ==> '0' <= #[trigger] dec_text(n)[i] && dec_text(n)[i] <= '9';

/// N10 wrapper for `std::cmp::min` on u8 (generic over Ord in std)
#[verifier::external_body]
pub fn vx_min_u8(a: u8, b: u8) -> (r: u8) ensures r == (if a <= b { a } else { b }) { std::cmp::min(a, b) }

/// whole seconds of a duration (floor); uninterpreted
pub uninterp spec fn dur_secs(d: std::time::Duration) -> u64;
pub assume_specification [std::time::Duration::as_secs] (d: &std::time::Duration) -> (r: u64) ensures r == dur_secs(*d);

/// nanoseconds of a duration; uninterpreted. ASSUMED: what `as_nanos` returns, at most u64::MAX seconds + 999_999_999 ns
pub uninterp spec fn dur_nanos(d: std::time::Duration) -> nat;
pub assume_specification [std::time::Duration::as_nanos] (d: &std::time::Duration) -> (r: u128)
    ensures r == dur_nanos(*d), r <= 18_446_744_073_709_551_615u128 * 1_000_000_000 + 999_999_999;
pub open spec fn digit_char(n: nat) -> char { if n == 0 { '0' } else if n == 1 { '1' } else if n == 2 { '2' } else if n == 3 { '3' } else if n == 4 { '4' } else if n == 5 { '5' } else if n == 6 { '6' } else if n == 7 { '7' } else if n == 8 { '8' } else { '9' } }
/// `{:03}` of a number below 1000: exactly three digits
pub open spec fn pad3(n: nat) -> Seq<char> { seq![digit_char(n / 100 % 10), digit_char(n / 10 % 10), digit_char(n % 10)] }
/// [C15 oracle] the text a Duration argument is written as: seconds with three decimals, rounded half-up to the millisecond
pub open spec fn dur_arg_text(d: std::time::Duration) -> Seq<char> {
    let m = (dur_nanos(d) + 500_000) / 1_000_000;
    dec_text(m / 1000) + seq!['.'] + pad3(m % 1000)
}
/// digits and one dot only (proved from the assumption on Display of integers)
pub broadcast proof fn dur_arg_text_chars(d: std::time::Duration)
    ensures (#[trigger] dur_arg_text(d)).len() > 0, forall|i: int| 0 <= i < dur_arg_text(d).len() ==> ('0' <= #[trigger] dur_arg_text(d)[i] && dur_arg_text(d)[i] <= '9') || dur_arg_text(d)[i] == '.'
{
    broadcast use dec_text_digits;
    let m = (dur_nanos(d) + 500_000) / 1_000_000;
    let a = dec_text(m / 1000); let t = dur_arg_text(d);
    assert forall|i: int| 0 <= i < t.len() implies ('0' <= #[trigger] t[i] && t[i] <= '9') || t[i] == '.' by {
        if i < a.len() { assert(t[i] == a[i]); } else if i == a.len() { assert(t[i] == '.'); } else { assert(t[i] == pad3(m % 1000)[i - a.len() - 1]); }
    }
}
/// N9 putters for u128 (`{}` and `{:03}`) and for `format!` (a String as the sink). ASSUMED about Display as for the other integers;
/// `{:03}` is specified for numbers below 1000 only (three digits, zero padded)
#[verifier::external_body]
pub fn vx_put_u128(b: &mut BytesMut, n: &u128)
    ensures bm_view(final(b)) == bm_view(old(b)) + vstd::utf8::encode_utf8(dec_text(*n as nat))
{ use std::fmt::Write; write!(b, "{}", n).unwrap() }
#[verifier::external_body]
pub fn vx_put_u128_pad3(b: &mut BytesMut, n: &u128)
    ensures *n < 1000 ==> bm_view(final(b)) == bm_view(old(b)) + vstd::utf8::encode_utf8(pad3(*n as nat))
{ use std::fmt::Write; write!(b, "{:03}", n).unwrap() }
#[verifier::external_body]
pub fn vx_sput_str<S: AsRef<str>>(b: &mut String, s: S)
    ensures final(b)@ == old(b)@ + as_ref_str(&s)
{ b.push_str(s.as_ref()) }
#[verifier::external_body]
pub fn vx_sput_u128(b: &mut String, n: &u128)
    ensures final(b)@ == old(b)@ + dec_text(*n as nat)
{ use std::fmt::Write; write!(b, "{}", n).unwrap() }
#[verifier::external_body]
pub fn vx_sput_u128_pad3(b: &mut String, n: &u128)
    ensures *n < 1000 ==> final(b)@ == old(b)@ + pad3(*n as nat)
{ use std::fmt::Write; write!(b, "{:03}", n).unwrap() }
#[verifier::external_body]
pub fn vx_string_new() -> (r: String) ensures r@ == Seq::<char>::empty() { String::new() }
}

//! vx_spec — proved specification vocabulary (no assumptions): wire grammar, MPD tokenizer, MPD filter grammar.
#![allow(unused_imports, dead_code, missing_docs, missing_debug_implementations, unused_variables)]
pub mod wire;
pub mod fold;
pub mod tok;
pub mod sess;
pub mod filt;
pub mod sub;

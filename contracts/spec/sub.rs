//! Sub-parser level view of the wire grammar: what each nom sub-parser of mpd_protocol/src/parser.rs returns for ITS input
//! (a suffix of the connection buffer, offsets local), and the shift lemmas that carry the primitives of `wire` from a
//! suffix `s.skip(k)` at offset 0 to the whole input `s` at offset `k`. Pure specification + proofs, no assumption.
#[allow(unused_imports)]
use vstd::prelude::*;
use crate::wire::*;
verus! {

pub open spec fn shift<T>(p: PR<T>, k: int) -> PR<T> { match p { PR::Good(v, n) => PR::Good(v, n + k), PR::Inc => PR::Inc, PR::Bad => PR::Bad } }
pub open spec fn shift_o(e: Option<int>, k: int) -> Option<int> { match e { Some(n) => Some(n + k), None => None } }

pub proof fn lemma_run_end_shift_at(s: Seq<u8>, k: int, j: int, f: spec_fn(u8) -> bool)
    requires 0 <= k <= s.len(), 0 <= j
    ensures run_end(s.skip(k), j, f) == shift_o(run_end(s, k + j, f), -k)
    decreases s.len() - (k + j)
{
    if k + j < s.len() {
        assert(s.skip(k)[j] == s[k + j]);
        if f(s[k + j]) { lemma_run_end_shift_at(s, k, j + 1, f); }
    }
}
/// run_end on a suffix
pub proof fn lemma_run_end_shift(s: Seq<u8>, k: int, f: spec_fn(u8) -> bool)
    requires 0 <= k <= s.len()
    ensures run_end(s.skip(k), 0, f) == shift_o(run_end(s, k, f), -k)
{ lemma_run_end_shift_at(s, k, 0, f); }

/// two predicates that agree on every byte give the same run
pub proof fn lemma_run_end_same(s: Seq<u8>, at: int, f: spec_fn(u8) -> bool, g: spec_fn(u8) -> bool)
    requires 0 <= at, forall|b: u8| #[trigger] f(b) == g(b)
    ensures run_end(s, at, f) == run_end(s, at, g)
    decreases s.len() - at
{
    if at < s.len() && f(s[at]) { lemma_run_end_same(s, at + 1, f, g); }
}

pub proof fn lemma_tag_shift(s: Seq<u8>, k: int, t: Seq<u8>)
    requires 0 <= k <= s.len()
    ensures p_tag(s.skip(k), 0, t) == shift(p_tag(s, k, t), -k)
{
    let x = s.skip(k);
    assert forall|j: int| 0 <= j < x.len() implies #[trigger] x[0 + j] == s[k + j] by {}
    if exists|j: int| 0 <= j < t.len() && 0 + j < x.len() && #[trigger] x[0 + j] != t[j] {
        let j = choose|j: int| 0 <= j < t.len() && 0 + j < x.len() && #[trigger] x[0 + j] != t[j];
        assert(s[k + j] != t[j]);
    }
    if exists|j: int| 0 <= j < t.len() && k + j < s.len() && #[trigger] s[k + j] != t[j] {
        let j = choose|j: int| 0 <= j < t.len() && k + j < s.len() && #[trigger] s[k + j] != t[j];
        assert(x[0 + j] != t[j]);
    }
}

pub proof fn lemma_chr_shift(s: Seq<u8>, k: int, c: u8)
    requires 0 <= k <= s.len()
    ensures p_chr(s.skip(k), 0, c) == shift(p_chr(s, k, c), -k)
{}

pub proof fn lemma_dec_val_shift(s: Seq<u8>, k: int, e: int)
    requires 0 <= k, 0 <= e, k + e <= s.len()
    ensures dec_val(s.skip(k), 0, e) == dec_val(s, k, k + e)
    decreases e
{
    if e > 0 { lemma_dec_val_shift(s, k, e - 1); assert(s.skip(k)[e - 1] == s[k + e - 1]); }
}

pub proof fn lemma_number_shift(s: Seq<u8>, k: int, max: nat)
    requires 0 <= k <= s.len()
    ensures p_number(s.skip(k), 0, max) == shift(p_number(s, k, max), -k)
{
    let f = |b: u8| is_digit(b);
    lemma_run_end_shift(s, k, f);
    lemma_run_end_props(s, k, f);
    match run_end(s, k, f) { Some(e) => { lemma_dec_val_shift(s, k, e - k); }, None => {} }
}

/// the bytes between two offsets of the whole input, seen from a suffix
pub proof fn lemma_sub_shift(s: Seq<u8>, k: int, a: int, b: int)
    requires 0 <= k, 0 <= a <= b, k + b <= s.len()
    ensures s.skip(k).subrange(a, b) =~= s.subrange(k + a, k + b), s.skip(k).take(b) =~= s.subrange(k, k + b), s.skip(k).skip(a) =~= s.skip(k + a)
{}

// ---------------- local views of the composite parsers ----------------

/// `[code@index]` at the start of x
#[verifier::opaque]
pub open spec fn p_code_index(x: Seq<u8>) -> PR<(nat, nat)> {
    match p_chr(x, 0, 0x5B) { PR::Inc => PR::Inc, PR::Bad => PR::Bad, PR::Good(_, a1) =>
    match p_number(x, a1, u64_max()) { PR::Inc => PR::Inc, PR::Bad => PR::Bad, PR::Good(code, a2) =>
    match p_chr(x, a2, 0x40) { PR::Inc => PR::Inc, PR::Bad => PR::Bad, PR::Good(_, a3) =>
    match p_number(x, a3, u64_max()) { PR::Inc => PR::Inc, PR::Bad => PR::Bad, PR::Good(index, a4) =>
    match p_chr(x, a4, 0x5D) { PR::Inc => PR::Inc, PR::Bad => PR::Bad, PR::Good(_, a5) => PR::Good((code, index), a5) }}}}}
}

/// `{command}` at the start of x, the command possibly empty
#[verifier::opaque]
pub open spec fn p_cur_command(x: Seq<u8>) -> PR<Option<Seq<u8>>> {
    match p_chr(x, 0, 0x7B) { PR::Inc => PR::Inc, PR::Bad => PR::Bad, PR::Good(_, a1) =>
    match run_end(x, a1, |b: u8| is_cmd_byte(b)) { None => PR::Inc, Some(ce) =>
    match p_chr(x, ce, 0x7D) { PR::Inc => PR::Inc, PR::Bad => PR::Bad, PR::Good(_, a2) =>
        PR::Good(if ce == a1 { None } else { Some(x.subrange(a1, ce)) }, a2) }}}
}

/// a field value: everything up to the first LF, the LF consumed
pub open spec fn p_value(x: Seq<u8>) -> PR<Seq<u8>> {
    match run_end(x, 0, |b: u8| not_lf(b)) { None => PR::Inc, Some(e) => PR::Good(x.subrange(0, e), e + 1) }
}

/// `binary: N\n`
pub open spec fn p_binary_prefix(x: Seq<u8>) -> PR<nat> {
    match p_tag(x, 0, t_binary()) { PR::Inc => PR::Inc, PR::Bad => PR::Bad, PR::Good(_, a0) =>
    match p_number(x, a0, u64_max()) { PR::Inc => PR::Inc, PR::Bad => PR::Bad, PR::Good(len, a1) =>
    match p_chr(x, a1, 0x0A) { PR::Inc => PR::Inc, PR::Bad => PR::Bad, PR::Good(_, a2) => PR::Good(len, a2) }}}
}


/// the ACK line the way the nom parser walks it: every sub-parser on the remainder left by the previous one
pub open spec fn p_error_l(x: Seq<u8>) -> PR<Comp> {
    match p_tag(x, 0, t_ack()) { PR::Inc => PR::Inc, PR::Bad => PR::Bad, PR::Good(_, a0) => { let x1 = x.skip(a0);
    match p_code_index(x1) { PR::Inc => PR::Inc, PR::Bad => PR::Bad, PR::Good(ci, b1) =>
    match p_chr(x1, b1, 0x20) { PR::Inc => PR::Inc, PR::Bad => PR::Bad, PR::Good(_, b2) => { let x2 = x1.skip(b2);
    match p_cur_command(x2) { PR::Inc => PR::Inc, PR::Bad => PR::Bad, PR::Good(command, c1) =>
    match p_chr(x2, c1, 0x20) { PR::Inc => PR::Inc, PR::Bad => PR::Bad, PR::Good(_, c2) => { let x3 = x2.skip(c2);
    match p_message_at(x3, 0) { PR::Inc => PR::Inc, PR::Bad => PR::Bad, PR::Good(message, e) =>
        PR::Good(Comp::Error(ErrV { code: ci.0, index: ci.1, command, message }), a0 + b2 + c2 + e) }
    }}}}}}}}
}

pub proof fn lemma_code_index_bounds(x: Seq<u8>)
    ensures p_code_index(x) matches PR::Good(_, n) ==> 0 < n <= x.len()
{ reveal(p_code_index);
    if let PR::Good(_, a1) = p_chr(x, 0, 0x5B) {
        lemma_number_bounds(x, a1, u64_max());
        if let PR::Good(_, a2) = p_number(x, a1, u64_max()) { if let PR::Good(_, a3) = p_chr(x, a2, 0x40) { lemma_number_bounds(x, a3, u64_max()); } }
    }
}

// absolute-offset forms of the pieces of the ACK line
#[verifier::opaque]
pub open spec fn p_code_index_at(s: Seq<u8>, at: int) -> PR<(nat, nat)> {
    match p_chr(s, at, 0x5B) { PR::Inc => PR::Inc, PR::Bad => PR::Bad, PR::Good(_, a1) =>
    match p_number(s, a1, u64_max()) { PR::Inc => PR::Inc, PR::Bad => PR::Bad, PR::Good(code, a2) =>
    match p_chr(s, a2, 0x40) { PR::Inc => PR::Inc, PR::Bad => PR::Bad, PR::Good(_, a3) =>
    match p_number(s, a3, u64_max()) { PR::Inc => PR::Inc, PR::Bad => PR::Bad, PR::Good(index, a4) =>
    match p_chr(s, a4, 0x5D) { PR::Inc => PR::Inc, PR::Bad => PR::Bad, PR::Good(_, a5) => PR::Good((code, index), a5) }}}}}
}
#[verifier::opaque]
pub open spec fn p_cur_command_at(s: Seq<u8>, at: int) -> PR<Option<Seq<u8>>> {
    match p_chr(s, at, 0x7B) { PR::Inc => PR::Inc, PR::Bad => PR::Bad, PR::Good(_, a1) =>
    match run_end(s, a1, |b: u8| is_cmd_byte(b)) { None => PR::Inc, Some(ce) =>
    match p_chr(s, ce, 0x7D) { PR::Inc => PR::Inc, PR::Bad => PR::Bad, PR::Good(_, a2) =>
        PR::Good(if ce == a1 { None } else { Some(s.subrange(a1, ce)) }, a2) }}}
}
#[verifier::opaque]
pub open spec fn p_message_at(s: Seq<u8>, at: int) -> PR<Seq<u8>> {
    match run_end(s, at, |b: u8| not_lf(b)) { None => PR::Inc, Some(me) =>
        if !utf8_valid(s.subrange(at, me)) { PR::Bad } else { PR::Good(s.subrange(at, me), me + 1) } }
}
/// `wire::p_error` regrouped into its pieces (same offsets)
pub open spec fn p_error_at(s: Seq<u8>) -> PR<Comp> {
    match p_tag(s, 0, t_ack()) { PR::Inc => PR::Inc, PR::Bad => PR::Bad, PR::Good(_, a0) =>
    match p_code_index_at(s, a0) { PR::Inc => PR::Inc, PR::Bad => PR::Bad, PR::Good(ci, a5) =>
    match p_chr(s, a5, 0x20) { PR::Inc => PR::Inc, PR::Bad => PR::Bad, PR::Good(_, a6) =>
    match p_cur_command_at(s, a6) { PR::Inc => PR::Inc, PR::Bad => PR::Bad, PR::Good(command, b1) =>
    match p_chr(s, b1, 0x20) { PR::Inc => PR::Inc, PR::Bad => PR::Bad, PR::Good(_, b2) =>
    match p_message_at(s, b2) { PR::Inc => PR::Inc, PR::Bad => PR::Bad, PR::Good(message, e) =>
        PR::Good(Comp::Error(ErrV { code: ci.0, index: ci.1, command, message }), e) }}}}}}
}
pub proof fn lemma_error_at(s: Seq<u8>)
    ensures p_error_at(s) == p_error(s)
{ reveal(p_code_index_at); reveal(p_cur_command_at); reveal(p_message_at);}

pub proof fn lemma_code_index_shift(s: Seq<u8>, k: int)
    requires 0 <= k <= s.len()
    ensures p_code_index(s.skip(k)) == shift(p_code_index_at(s, k), -k)
{ reveal(p_code_index); reveal(p_code_index_at);
    let x = s.skip(k);
    lemma_chr_shift(s, k, 0x5B);
    if let PR::Good(_, a1) = p_chr(s, k, 0x5B) {
        lemma_number_shift(s, a1, u64_max()); lemma_number_bounds(s, a1, u64_max());
        assert(x.skip(a1 - k) =~= s.skip(a1)); lemma_number_shift(x, a1 - k, u64_max());
        if let PR::Good(code, a2) = p_number(s, a1, u64_max()) {
            lemma_chr_shift(s, a2, 0x40); lemma_chr_shift(x, a2 - k, 0x40); assert(x.skip(a2 - k) =~= s.skip(a2));
            if let PR::Good(_, a3) = p_chr(s, a2, 0x40) {
                lemma_number_shift(s, a3, u64_max()); lemma_number_bounds(s, a3, u64_max());
                assert(x.skip(a3 - k) =~= s.skip(a3)); lemma_number_shift(x, a3 - k, u64_max());
                if let PR::Good(index, a4) = p_number(s, a3, u64_max()) {
                    lemma_chr_shift(s, a4, 0x5D); lemma_chr_shift(x, a4 - k, 0x5D); assert(x.skip(a4 - k) =~= s.skip(a4));
                }
            }
        }
    }
}
pub proof fn lemma_cur_command_shift(s: Seq<u8>, k: int)
    requires 0 <= k <= s.len()
    ensures p_cur_command(s.skip(k)) == shift(p_cur_command_at(s, k), -k)
{ reveal(p_cur_command); reveal(p_cur_command_at);
    let x = s.skip(k); let fc = |b: u8| is_cmd_byte(b);
    lemma_chr_shift(s, k, 0x7B);
    if let PR::Good(_, a1) = p_chr(s, k, 0x7B) {
        lemma_run_end_shift_at(s, k, 1, fc); lemma_run_end_props(s, a1, fc);
        if let Some(ce) = run_end(s, a1, fc) {
            lemma_chr_shift(s, ce, 0x7D); lemma_chr_shift(x, ce - k, 0x7D); assert(x.skip(ce - k) =~= s.skip(ce));
            lemma_sub_shift(s, k, 1, ce - k);
        }
    }
}
pub proof fn lemma_message_shift(s: Seq<u8>, k: int)
    requires 0 <= k <= s.len()
    ensures p_message_at(s.skip(k), 0) == shift(p_message_at(s, k), -k)
{ reveal(p_message_at);
    let fm = |b: u8| not_lf(b);
    lemma_run_end_shift(s, k, fm); lemma_run_end_props(s, k, fm);
    if let Some(me) = run_end(s, k, fm) { lemma_sub_shift(s, k, 0, me - k); }
}

/// the walk over remainders is the ACK grammar of `wire::p_error` (absolute offsets)
pub proof fn lemma_error_l(x: Seq<u8>)
    ensures p_error_l(x) == p_error(x)
{
    lemma_error_at(x);
    if let PR::Good(_, a0) = p_tag(x, 0, t_ack()) {
        let x1 = x.skip(a0);
        lemma_code_index_shift(x, a0);
        lemma_code_index_bounds(x1);
        if let PR::Good(ci, a5) = p_code_index_at(x, a0) {
            lemma_chr_shift(x, a5, 0x20); lemma_chr_shift(x1, a5 - a0, 0x20); assert(x1.skip(a5 - a0) =~= x.skip(a5));
            if let PR::Good(_, a6) = p_chr(x, a5, 0x20) {
                let x2 = x1.skip(a6 - a0);
                assert(x2 =~= x.skip(a6));
                lemma_cur_command_shift(x, a6);
                lemma_cur_command_bounds(x2);
                if let PR::Good(command, b1) = p_cur_command_at(x, a6) {
                    lemma_chr_shift(x, b1, 0x20); lemma_chr_shift(x2, b1 - a6, 0x20); assert(x2.skip(b1 - a6) =~= x.skip(b1));
                    if let PR::Good(_, b2) = p_chr(x, b1, 0x20) {
                        let x3 = x2.skip(b2 - a6);
                        assert(x3 =~= x.skip(b2));
                        lemma_message_shift(x, b2);
                    }
                }
            }
        }
    }
}
pub proof fn lemma_cur_command_bounds(x: Seq<u8>)
    ensures p_cur_command(x) matches PR::Good(_, n) ==> 0 < n <= x.len()
{ reveal(p_cur_command);
    if let PR::Good(_, a1) = p_chr(x, 0, 0x7B) { lemma_run_end_props(x, a1, |b: u8| is_cmd_byte(b)); }
}
} // verus!

//! Spec port of MPD's SongFilter::ParseExpression / ExpectQuoted (the filter-expression grammar applied to ONE tokenized argument)
//! and the C11 round trip: the expression text E(t) of a filter tree t parses back to t, for ALL value strings (values are
//! written between double quotes with `"` and `\\` escaped by a backslash). Transcribed from the MPD sources from memory (oracle).
use vstd::prelude::*;
verus! {

pub open spec fn ws(c: char) -> bool { (c as u32) <= 0x20 }
pub open spec fn strip_left(s: Seq<char>, at: int) -> int
    decreases s.len() - at
{ if at < 0 || at >= s.len() { at } else if ws(s[at]) { strip_left(s, at + 1) } else { at } }

pub open spec fn word_char(c: char) -> bool {   // IsTagNameChar: alnum, '_' , '-'
    ('a' <= c <= 'z') || ('A' <= c <= 'Z') || ('0' <= c <= '9') || c == '_' || c == '-'
}
pub open spec fn word_end(s: Seq<char>, i: int) -> int
    decreases s.len() - i
{ if i < 0 || i >= s.len() { i } else if word_char(s[i]) { word_end(s, i + 1) } else { i } }

/// ExpectWord: (word, index after StripLeft)
pub open spec fn expect_word(s: Seq<char>, at: int) -> Option<(Seq<char>, int)> {
    if at >= s.len() || !word_char(s[at]) { None } else { let e = word_end(s, at + 1); Some((s.subrange(at, e), strip_left(s, e))) }
}

pub open spec fn starts_at(s: Seq<char>, at: int, t: Seq<char>) -> bool { at + t.len() <= s.len() && s.subrange(at, at + t.len()) == t }

pub open spec fn op_eq() -> Seq<char> { seq!['=', '='] }
pub open spec fn op_ne() -> Seq<char> { seq!['!', '='] }
pub open spec fn op_contains() -> Seq<char> { seq!['c','o','n','t','a','i','n','s'] }
pub open spec fn op_match() -> Seq<char> { seq!['=', '~'] }
pub open spec fn op_nmatch() -> Seq<char> { seq!['!', '~'] }
pub open spec fn is_op(o: Seq<char>) -> bool { o == op_eq() || o == op_ne() || o == op_contains() || o == op_match() || o == op_nmatch() }

/// operator recognition in MPD's ParseStringFilter order: contains, !contains(n/a), starts_with(n/a), =~, !~, ==, !=
pub open spec fn parse_op(s: Seq<char>, at: int) -> Option<(Seq<char>, int)> {
    if starts_at(s, at, op_contains()) { Some((op_contains(), strip_left(s, at + 8))) }
    else if starts_at(s, at, op_match()) { Some((op_match(), strip_left(s, at + 2))) }
    else if starts_at(s, at, op_nmatch()) { Some((op_nmatch(), strip_left(s, at + 2))) }
    else if starts_at(s, at, op_eq()) { Some((op_eq(), strip_left(s, at + 2))) }
    else if starts_at(s, at, op_ne()) { Some((op_ne(), strip_left(s, at + 2))) }
    else { None }
}

/// ExpectQuoted body: scan from i with quote char q
pub open spec fn qscan(s: Seq<char>, i: int, q: char, acc: Seq<char>) -> Option<(Seq<char>, int)>
    decreases s.len() - i
{
    if i < 0 || i >= s.len() { None }
    else if s[i] == q { Some((acc, i)) }
    else if s[i] == '\\' { if i + 1 >= s.len() { None } else { qscan(s, i + 2, q, acc.push(s[i + 1])) } }
    else { qscan(s, i + 1, q, acc.push(s[i])) }
}
pub open spec fn expect_quoted(s: Seq<char>, at: int) -> Option<(Seq<char>, int)> {
    if at >= s.len() || (s[at] != '"' && s[at] != '\'') { None } else {
        match qscan(s, at + 1, s[at], Seq::empty()) { None => None, Some((v, e)) => Some((v, strip_left(s, e + 1))) }
    }
}

pub enum T { Tag(Seq<char>, Seq<char>, Seq<char>), Not(Box<T>), And(Seq<T>) }

pub open spec fn t_and() -> Seq<char> { seq!['A', 'N', 'D'] }

/// ParseExpression at s[at] == '(' ; result index is after the closing ')' and StripLeft
#[verifier::opaque]
pub open spec fn parse_expr(s: Seq<char>, at: int, fuel: nat) -> Option<(T, int)>
    decreases fuel, 1nat
{
    if fuel == 0 || at >= s.len() || s[at] != '(' { None } else {
        let i = strip_left(s, at + 1);
        if i < s.len() && s[i] == '(' {
            match parse_expr(s, i, (fuel - 1) as nat) {
                None => None,
                Some((first, j)) =>
                    if j < s.len() && s[j] == ')' { Some((first, j + 1)) }
                    else { match expect_word(s, j) {
                        Some((w, k)) => if w == t_and() { parse_and_rest(s, k, seq![first], (fuel - 1) as nat) } else { None },
                        None => None } },
            }
        } else if i < s.len() && s[i] == '!' {
            let i2 = strip_left(s, i + 1);
            if !(i2 < s.len() && s[i2] == '(') { None } else {
                match parse_expr(s, i2, (fuel - 1) as nat) {
                    None => None,
                    Some((inner, j)) => if j < s.len() && s[j] == ')' { Some((T::Not(Box::new(inner)), strip_left(s, j + 1))) } else { None },
                }
            }
        } else {
            match expect_word(s, i) { None => None, Some((tag, k)) =>
            match parse_op(s, k) { None => None, Some((op, k2)) =>
            match expect_quoted(s, k2) { None => None, Some((val, k3)) =>
                if k3 < s.len() && s[k3] == ')' { Some((T::Tag(tag, op, val), strip_left(s, k3 + 1))) } else { None } }}}
        }
    }
}
/// the loop after the first "AND": parse an item, then ')' or another "AND"
#[verifier::opaque]
pub open spec fn parse_and_rest(s: Seq<char>, at: int, items: Seq<T>, fuel: nat) -> Option<(T, int)>
    decreases fuel, 0nat
{
    if fuel == 0 { None } else {
        match parse_expr(s, at, (fuel - 1) as nat) {
            None => None,
            Some((t, j)) => {
                let items2 = items.push(t);
                if j < s.len() && s[j] == ')' { Some((T::And(items2), strip_left(s, j + 1))) }
                else { match expect_word(s, j) {
                    Some((w, k)) => if w == t_and() { parse_and_rest(s, k, items2, (fuel - 1) as nat) } else { None },
                    None => None } }
            }
        }
    }
}

// ---------------- expression text the client means (after the tokenizer's un-escaping) ----------------
pub open spec fn plain_value(v: Seq<char>) -> bool { forall|i: int| 0 <= i < v.len() ==> #[trigger] v[i] != '"' && v[i] != '\\' }
pub open spec fn tag_word(w: Seq<char>) -> bool { w.len() > 0 && forall|i: int| 0 <= i < w.len() ==> word_char(#[trigger] w[i]) }

/// quoting of a string for a backslash-escaping scanner that ends at `"`: `"` and `\` get a backslash
pub open spec fn esc_q(a: Seq<char>) -> Seq<char>
    decreases a.len()
{
    if a.len() == 0 { seq![] } else if a[0] == '"' || a[0] == '\\' { seq!['\\', a[0]] + esc_q(a.skip(1)) } else { seq![a[0]] + esc_q(a.skip(1)) }
}
pub proof fn lemma_esc_q_concat(a: Seq<char>, b: Seq<char>)
    ensures esc_q(a + b) == esc_q(a) + esc_q(b)
    decreases a.len()
{
    if a.len() == 0 { assert(a + b =~= b); assert(esc_q(a) =~= seq![]); assert(esc_q(a) + esc_q(b) =~= esc_q(b)); }
    else {
        assert((a + b).skip(1) =~= a.skip(1) + b); assert((a + b)[0] == a[0]);
        lemma_esc_q_concat(a.skip(1), b);
        if a[0] == '"' || a[0] == '\\' { assert(seq!['\\', a[0]] + (esc_q(a.skip(1)) + esc_q(b)) =~= (seq!['\\', a[0]] + esc_q(a.skip(1))) + esc_q(b)); }
        else { assert(seq![a[0]] + (esc_q(a.skip(1)) + esc_q(b)) =~= (seq![a[0]] + esc_q(a.skip(1))) + esc_q(b)); }
    }
}
pub proof fn lemma_esc_q_plain(a: Seq<char>)
    requires plain_value(a)
    ensures esc_q(a) == a
    decreases a.len()
{
    if a.len() == 0 { assert(a =~= seq![]); } else {
        assert(plain_value(a.skip(1))) by { assert forall|k: int| 0 <= k < a.skip(1).len() implies #[trigger] a.skip(1)[k] != '"' && a.skip(1)[k] != '\\' by { assert(a.skip(1)[k] == a[k + 1]); } }
        lemma_esc_q_plain(a.skip(1)); assert(a[0] != '"' && a[0] != '\\'); assert(seq![a[0]] + a.skip(1) =~= a);
    }
}
/// scanning the escaped text of `v` followed by the closing quote yields `v`
pub proof fn lemma_qscan_esc(s: Seq<char>, i: int, v: Seq<char>, acc: Seq<char>)
    requires 0 <= i, i + esc_q(v).len() < s.len(), s.subrange(i, i + esc_q(v).len()) == esc_q(v), s[i + esc_q(v).len()] == '"'
    ensures qscan(s, i, '"', acc) == Some((acc + v, i + esc_q(v).len()))
    decreases v.len()
{
    let w = esc_q(v);
    if v.len() == 0 { assert(w =~= seq![]); assert(acc + v =~= acc); }
    else {
        let c = v[0]; let tl = v.skip(1); let wt = esc_q(tl);
        if c == '"' || c == '\\' {
            assert(w =~= seq!['\\', c] + wt);
            assert(s[i] == '\\') by { assert(s.subrange(i, i + w.len())[0] == s[i]); }
            assert(s[i + 1] == c) by { assert(s.subrange(i, i + w.len())[1] == s[i + 1]); }
            assert(s.subrange(i + 2, i + 2 + wt.len()) =~= wt) by {
                assert forall|k: int| 0 <= k < wt.len() implies s.subrange(i + 2, i + 2 + wt.len())[k] == wt[k] by { assert(s.subrange(i, i + w.len())[k + 2] == s[i + k + 2]); }
            }
            lemma_qscan_esc(s, i + 2, tl, acc.push(c));
        } else {
            assert(w =~= seq![c] + wt);
            assert(s[i] == c) by { assert(s.subrange(i, i + w.len())[0] == s[i]); }
            assert(s.subrange(i + 1, i + 1 + wt.len()) =~= wt) by {
                assert forall|k: int| 0 <= k < wt.len() implies s.subrange(i + 1, i + 1 + wt.len())[k] == wt[k] by { assert(s.subrange(i, i + w.len())[k + 1] == s[i + k + 1]); }
            }
            lemma_qscan_esc(s, i + 1, tl, acc.push(c));
        }
        assert(acc.push(c) + tl =~= acc + v);
    }
}
/// the text of a leaf: ( TAG OP "VALUE" ) with the value escaped for ExpectQuoted
pub open spec fn e_tag(tag: Seq<char>, op: Seq<char>, v: Seq<char>) -> Seq<char> {
    seq!['('] + tag + seq![' '] + op + seq![' ', '"'] + esc_q(v) + seq!['"', ')']
}

pub proof fn lemma_word_end_block(s: Seq<char>, i: int, e: int)
    requires 0 <= i <= e <= s.len(), forall|k: int| i <= k < e ==> word_char(#[trigger] s[k]), e == s.len() || !word_char(s[e])
    ensures word_end(s, i) == e
    decreases e - i
{ if i < e { lemma_word_end_block(s, i + 1, e); } }

pub proof fn lemma_qscan_plain(s: Seq<char>, i: int, v: Seq<char>, acc: Seq<char>)
    requires 0 <= i, i + v.len() < s.len(), s.subrange(i, i + v.len()) == v, plain_value(v), s[i + v.len()] == '"'
    ensures qscan(s, i, '"', acc) == Some((acc + v, i + v.len()))
    decreases v.len()
{
    if v.len() == 0 { assert(acc + v =~= acc); }
    else {
        assert(s[i] == v[0]) by { assert(s.subrange(i, i + v.len())[0] == s[i]); }
        let tl = v.skip(1);
        assert(s.subrange(i + 1, i + 1 + tl.len()) =~= tl) by {
            assert forall|k: int| 0 <= k < tl.len() implies s.subrange(i + 1, i + 1 + tl.len())[k] == tl[k] by {
                assert(s.subrange(i, i + v.len())[k + 1] == s[i + k + 1]);
            }
        }
        assert(plain_value(tl)) by { assert forall|k: int| 0 <= k < tl.len() implies #[trigger] tl[k] != '"' && tl[k] != '\\' by { assert(tl[k] == v[k + 1]); } }
        lemma_qscan_plain(s, i + 1, tl, acc.push(v[0]));
        assert(acc.push(v[0]) + tl =~= acc + v);
    }
}

pub proof fn lemma_expect_word(s: Seq<char>, i: int, w: Seq<char>)
    requires 0 <= i, tag_word(w), i + w.len() + 1 < s.len(), s.subrange(i, i + w.len()) == w, s[i + w.len()] == ' ', !ws(s[i + w.len() + 1])
    ensures expect_word(s, i) == Some((w, i + w.len() + 1))
{
    let e = i + w.len();
    assert forall|k: int| i <= k < e implies word_char(#[trigger] s[k]) by { assert(s.subrange(i, e)[k - i] == s[k]); }
    assert(s[i] == w[0]) by { assert(s.subrange(i, e)[0] == s[i]); }
    lemma_word_end_block(s, i + 1, e);
    assert(strip_left(s, e) == e + 1) by { assert(ws(s[e])); assert(strip_left(s, e + 1) == e + 1); }
}

pub proof fn lemma_parse_op(s: Seq<char>, k: int, op: Seq<char>)
    requires 0 <= k, is_op(op), k + op.len() + 1 < s.len(), s.subrange(k, k + op.len()) == op, s[k + op.len()] == ' ', !ws(s[k + op.len() + 1])
    ensures parse_op(s, k) == Some((op, k + op.len() + 1))
{
    let k1 = k + op.len();
    assert(strip_left(s, k1) == k1 + 1) by { assert(ws(s[k1])); assert(strip_left(s, k1 + 1) == k1 + 1); }
    assert(s[k] == op[0]) by { assert(s.subrange(k, k + op.len())[0] == s[k]); }
    assert(s[k + 1] == op[1]) by { assert(s.subrange(k, k + op.len())[1] == s[k + 1]); }
    if op == op_contains() { assert(op.len() == 8); }
    else {
        assert(op.len() == 2);
        assert(!starts_at(s, k, op_contains())) by { if starts_at(s, k, op_contains()) { assert(s.subrange(k, k + 8)[0] == s[k]); assert(op_contains()[0] == 'c'); } }
        if op != op_match() {
            assert(!starts_at(s, k, op_match())) by { if starts_at(s, k, op_match()) { assert(s.subrange(k, k + 2)[0] == s[k]); assert(s.subrange(k, k + 2)[1] == s[k + 1]); } }
            if op != op_nmatch() {
                assert(!starts_at(s, k, op_nmatch())) by { if starts_at(s, k, op_nmatch()) { assert(s.subrange(k, k + 2)[0] == s[k]); assert(s.subrange(k, k + 2)[1] == s[k + 1]); } }
                if op != op_eq() {
                    assert(!starts_at(s, k, op_eq())) by { if starts_at(s, k, op_eq()) { assert(s.subrange(k, k + 2)[0] == s[k]); assert(s.subrange(k, k + 2)[1] == s[k + 1]); } }
                }
            }
        }
    }
}

pub proof fn lemma_expect_quoted(s: Seq<char>, k2: int, v: Seq<char>)
    requires 0 <= k2, k2 + esc_q(v).len() + 2 < s.len() + 0, s[k2] == '"', s.subrange(k2 + 1, k2 + 1 + esc_q(v).len()) == esc_q(v), s[k2 + 1 + esc_q(v).len()] == '"', !ws(s[k2 + 2 + esc_q(v).len()])
    ensures expect_quoted(s, k2) == Some((v, k2 + esc_q(v).len() + 2))
{
    lemma_qscan_esc(s, k2 + 1, v, Seq::empty());
    assert(Seq::<char>::empty() + v =~= v);
    let q = k2 + 1 + esc_q(v).len();
    assert(strip_left(s, q + 1) == q + 1);
}

/// leaf: "(Tag op "value")" parses to the same tag, operator and value
#[verifier::rlimit(30)]
pub proof fn lemma_parse_tag(pre: Seq<char>, tag: Seq<char>, op: Seq<char>, v: Seq<char>, post: Seq<char>, fuel: nat)
    requires tag_word(tag), is_op(op), fuel >= 1
    ensures parse_expr(pre + e_tag(tag, op, v) + post, pre.len() as int, fuel)
            == Some((T::Tag(tag, op, v), strip_left(pre + e_tag(tag, op, v) + post, (pre.len() + e_tag(tag, op, v).len()) as int)))
{
    reveal_with_fuel(parse_expr, 1);
    let s = pre + e_tag(tag, op, v) + post;
    let at = pre.len() as int;
    let i = at + 1;
    let e = i + tag.len();
    let k = e + 1;
    let k2 = k + op.len() + 1;
    let q = k2 + 1 + esc_q(v).len();
    assert(s[at] == '(');
    assert(s[i] == tag[0]); assert(word_char(tag[0])); assert(!ws(s[i]));
    assert(strip_left(s, i) == i);
    assert(s.subrange(i, e) =~= tag);
    assert(s[e] == ' ');
    assert(s[k] == op[0]);
    assert(!ws(s[k])) by { assert(op[0] == '=' || op[0] == '!' || op[0] == 'c'); }
    lemma_expect_word(s, i, tag);
    assert(s.subrange(k, k + op.len()) =~= op);
    assert(s[k + op.len()] == ' ');
    assert(s[k2] == '"');
    lemma_parse_op(s, k, op);
    assert(s.subrange(k2 + 1, k2 + 1 + esc_q(v).len()) =~= esc_q(v));
    assert(s[q] == '"');
    assert(s[q + 1] == ')');
    lemma_expect_quoted(s, k2, v);
    assert(q + 2 == at + e_tag(tag, op, v).len());
    assert(s[i] != '(' && s[i] != '!') by { assert(word_char(s[i])); }
}

// ---------------- whole trees ----------------
pub open spec fn sep_and() -> Seq<char> { seq![' ', 'A', 'N', 'D', ' '] }

pub open spec fn e_of(t: T) -> Seq<char>
    decreases t, 2nat, 0int
{
    match t {
        T::Tag(tag, op, v) => e_tag(tag, op, v),
        T::Not(x) => seq!['(', '!'] + e_of(*x) + seq![')'],
        T::And(xs) => seq!['('] + e_join(t, 0) + seq![')'],
    }
}
/// E(xs[from]) " AND " E(xs[from+1]) ...  for the children of an And node
pub open spec fn e_join(t: T, from: int) -> Seq<char>
    decreases t, 1nat, (match t { T::And(xs) => xs.len() - from, _ => 0int })
    when t is And && from >= 0
{
    let xs = t->And_0;
    if from >= xs.len() { Seq::empty() }
    else if from == xs.len() - 1 { e_of(xs[from]) }
    else { e_of(xs[from]) + sep_and() + e_join(t, from + 1) }
}


pub open spec fn wf(t: T) -> bool
    decreases t
{
    match t {
        T::Tag(tag, op, v) => tag_word(tag) && is_op(op),
        T::Not(x) => wf(*x),
        T::And(xs) => xs.len() >= 2 && forall|i: int| 0 <= i < xs.len() ==> wf(#[trigger] xs[i]),
    }
}
/// fuel that certainly suffices
pub open spec fn need(t: T) -> nat
    decreases t, 2nat, 0int
{
    match t { T::Tag(_, _, _) => 1, T::Not(x) => 1 + need(*x), T::And(xs) => 1 + need_from(t, 0) }
}
pub open spec fn need_from(t: T, from: int) -> nat
    decreases t, 1nat, (match t { T::And(xs) => xs.len() - from, _ => 0int })
    when t is And && from >= 0
{
    let xs = t->And_0;
    if from >= xs.len() { 0 } else { need(xs[from]) + 1 + need_from(t, from + 1) }
}

pub proof fn lemma_e_of_shape(t: T)
    requires wf(t)
    ensures e_of(t).len() >= 2, e_of(t)[0] == '(', e_of(t).last() == ')'
    decreases t
{
    match t {
        T::Tag(tag, op, v) => {}
        T::Not(x) => {}
        T::And(xs) => {}
    }
}

/// one unfolding of parse_expr for the three shapes, as separate small facts
pub proof fn lemma_unfold_not(s: Seq<char>, at: int, fuel: nat)
    requires fuel >= 1, 0 <= at, at + 2 < s.len(), s[at] == '(', s[at + 1] == '!', s[at + 2] == '('
    ensures parse_expr(s, at, fuel) == (match parse_expr(s, at + 2, (fuel - 1) as nat) {
        None => None::<(T, int)>,
        Some((inner, j)) => if j < s.len() && s[j] == ')' { Some((T::Not(Box::new(inner)), strip_left(s, j + 1))) } else { None } })
{
    reveal_with_fuel(parse_expr, 1);
    assert(strip_left(s, at + 1) == at + 1) by { assert(!ws(s[at + 1])); }
    assert(strip_left(s, at + 2) == at + 2) by { assert(!ws(s[at + 2])); }
}
pub proof fn lemma_unfold_and(s: Seq<char>, at: int, fuel: nat)
    requires fuel >= 1, 0 <= at, at + 1 < s.len(), s[at] == '(', s[at + 1] == '('
    ensures parse_expr(s, at, fuel) == (match parse_expr(s, at + 1, (fuel - 1) as nat) {
        None => None::<(T, int)>,
        Some((first, j)) =>
            if j < s.len() && s[j] == ')' { Some((first, j + 1)) }
            else { match expect_word(s, j) {
                Some((w, k)) => if w == t_and() { parse_and_rest(s, k, seq![first], (fuel - 1) as nat) } else { None },
                None => None } } })
{
    assert(strip_left(s, at + 1) == at + 1) by { assert(!ws(s[at + 1])); }
    let i = at + 1;
    assert(i < s.len() && s[i] == '(');
    reveal_with_fuel(parse_expr, 1);
    reveal_with_fuel(parse_and_rest, 1);
    match parse_expr(s, at + 1, (fuel - 1) as nat) {
        None => { assert(parse_expr(s, at, fuel) is None); }
        Some((first, j)) => {
            if j < s.len() && s[j] == ')' { assert(parse_expr(s, at, fuel) == Some((first, j + 1))); }
            else { match expect_word(s, j) {
                Some((w, k)) => { if w == t_and() { assert(parse_expr(s, at, fuel) == parse_and_rest(s, k, seq![first], (fuel - 1) as nat)); } else { assert(parse_expr(s, at, fuel) is None); } }
                None => { assert(parse_expr(s, at, fuel) is None); } } }
        }
    }
}

pub proof fn lemma_parse_tree(pre: Seq<char>, t: T, post: Seq<char>, fuel: nat)
    requires wf(t), fuel >= need(t)
    ensures parse_expr(pre + e_of(t) + post, pre.len() as int, fuel)
            == Some((t, strip_left(pre + e_of(t) + post, (pre.len() + e_of(t).len()) as int)))
    decreases t, 2nat, 0int
{
    match t {
        T::Tag(tag, op, v) => { lemma_parse_tag(pre, tag, op, v, post, fuel); }
        T::Not(x) => { lemma_parse_not(pre, t, post, fuel); }
        T::And(xs) => { lemma_parse_and(pre, t, post, fuel); }
    }
}

pub proof fn lemma_parse_not(pre: Seq<char>, t: T, post: Seq<char>, fuel: nat)
    requires wf(t), t is Not, fuel >= need(t)
    ensures parse_expr(pre + e_of(t) + post, pre.len() as int, fuel)
            == Some((t, strip_left(pre + e_of(t) + post, (pre.len() + e_of(t).len()) as int)))
    decreases t, 1nat, 0int
{
    let s = pre + e_of(t) + post;
    let at = pre.len() as int;
    let inner = *(t->Not_0);
    lemma_e_of_shape(inner);
    let pre2 = pre + seq!['(', '!'];
    let post2 = seq![')'] + post;
    assert(s =~= pre2 + e_of(inner) + post2);
    assert(s[at] == '(');
    assert(s[at + 1] == '!');
    assert(s[at + 2] == e_of(inner)[0]);
    lemma_parse_tree(pre2, inner, post2, (fuel - 1) as nat);
    lemma_unfold_not(s, at, fuel);
    let j0 = (pre2.len() + e_of(inner).len()) as int;
    assert(s[j0] == ')');
    assert(strip_left(s, j0) == j0) by { assert(!ws(s[j0])); }
    assert(j0 + 1 == at + e_of(t).len());
    assert(Box::new(inner) == t->Not_0);
}

pub proof fn lemma_parse_and(pre: Seq<char>, t: T, post: Seq<char>, fuel: nat)
    requires wf(t), t is And, fuel >= need(t)
    ensures parse_expr(pre + e_of(t) + post, pre.len() as int, fuel)
            == Some((t, strip_left(pre + e_of(t) + post, (pre.len() + e_of(t).len()) as int)))
    decreases t, 1nat, 0int
{
    let xs = t->And_0;
    let s = pre + e_of(t) + post;
    let at = pre.len() as int;
    lemma_e_of_shape(xs[0]);
    lemma_e_of_shape(xs[1]);
    let pre2 = pre + seq!['('];
    let after_first = sep_and() + e_join(t, 1) + seq![')'] + post;
    assert(e_join(t, 0) == e_of(xs[0]) + sep_and() + e_join(t, 1));
    assert(s =~= pre2 + e_of(xs[0]) + after_first);
    assert(s[at] == '(');
    assert(s[at + 1] == e_of(xs[0])[0]);
    assert(need_from(t, 0) == need(xs[0]) + 1 + need_from(t, 1));
    lemma_parse_tree(pre2, xs[0], after_first, (fuel - 1) as nat);
    lemma_unfold_and(s, at, fuel);
    let j0 = (pre2.len() + e_of(xs[0]).len()) as int;          // index of the blank before AND
    assert(e_join(t, 1).len() >= 1 && e_join(t, 1)[0] == '(') by {
        if 1 == xs.len() - 1 { } else { assert(e_join(t, 1) == e_of(xs[1]) + sep_and() + e_join(t, 2)); }
    }
    assert(s.subrange(j0, j0 + 5) =~= sep_and());
    assert(s[j0 + 5] == e_join(t, 1)[0]);
    lemma_and_sep(s, j0);
    assert(xs.take(1) =~= seq![xs[0]]);
    lemma_parse_and_rest(pre, t, post, 1, seq![xs[0]], (fuel - 1) as nat);
    // the '(' of item 1 sits at j0 + 5
    assert(j0 + 5 == pre.len() + e_of(t).len() - 1 - e_join(t, 1).len());
}

/// " AND (" at j0 : the parser skips the blank, reads the word AND and lands on the next '('
pub proof fn lemma_and_sep(s: Seq<char>, j0: int)
    requires 0 <= j0, j0 + 5 < s.len(), s.subrange(j0, j0 + 5) == sep_and(), s[j0 + 5] == '('
    ensures strip_left(s, j0) == j0 + 1, !(s[j0 + 1] == ')'), expect_word(s, j0 + 1) == Some((t_and(), j0 + 5))
{
    assert(s[j0] == ' ') by { assert(s.subrange(j0, j0 + 5)[0] == s[j0]); }
    assert(s[j0 + 1] == 'A') by { assert(s.subrange(j0, j0 + 5)[1] == s[j0 + 1]); }
    assert(s[j0 + 2] == 'N') by { assert(s.subrange(j0, j0 + 5)[2] == s[j0 + 2]); }
    assert(s[j0 + 3] == 'D') by { assert(s.subrange(j0, j0 + 5)[3] == s[j0 + 3]); }
    assert(s[j0 + 4] == ' ') by { assert(s.subrange(j0, j0 + 5)[4] == s[j0 + 4]); }
    assert(strip_left(s, j0 + 1) == j0 + 1);
    assert(word_char('A') && word_char('N') && word_char('D'));
    assert(s.subrange(j0 + 1, j0 + 4) =~= t_and());
    lemma_expect_word(s, j0 + 1, t_and());
}

/// e_join(t, from) is a suffix of e_join(t, 0)
pub proof fn lemma_join_suffix(t: T, from: int)
    requires t is And, 0 <= from <= t->And_0.len()
    ensures
        e_join(t, from).len() <= e_join(t, 0).len(),
        e_join(t, 0) == e_join(t, 0).take(e_join(t, 0).len() - e_join(t, from).len()) + e_join(t, from),
    decreases from
{
    let xs = t->And_0;
    if from == 0 {
        assert(e_join(t, 0).take(0) + e_join(t, 0) =~= e_join(t, 0));
    } else {
        lemma_join_suffix(t, from - 1);
        let a = e_join(t, from - 1); let b = e_join(t, from); let z = e_join(t, 0);
        // a == E(x_{from-1}) [+ sep + b]
        if from - 1 == xs.len() - 1 { assert(b =~= Seq::<char>::empty()); assert(z.take(z.len() as int) + b =~= z); }
        else {
            assert(a == e_of(xs[from - 1]) + sep_and() + b);
            let p = z.take(z.len() - a.len());
            assert(z == p + a);
            assert(z =~= (p + e_of(xs[from - 1]) + sep_and()) + b);
            assert(z.take(z.len() - b.len()) =~= p + e_of(xs[from - 1]) + sep_and());
        }
    }
}

/// the loop: items `from..` of And node t, having already collected items xs[..from]
pub proof fn lemma_parse_and_rest(pre: Seq<char>, t: T, post: Seq<char>, from: int, items: Seq<T>, fuel: nat)
    requires wf(t), t is And, 1 <= from < t->And_0.len(), items == t->And_0.take(from), fuel >= need_from(t, from)
    ensures ({
        let s = pre + e_of(t) + post;
        let at = pre.len() + e_of(t).len() - 1 - e_join(t, from).len();
        parse_and_rest(s, at, items, fuel) == Some((t, strip_left(s, (pre.len() + e_of(t).len()) as int)))
    })
    decreases t, 0nat, t->And_0.len() - from
{
    let xs = t->And_0;
    let s = pre + e_of(t) + post;
    let z = e_join(t, 0);
    let jf = e_join(t, from);
    lemma_join_suffix(t, from);
    let p = z.take(z.len() - jf.len());
    let at = (pre.len() + e_of(t).len() - 1 - jf.len()) as int;
    let x = xs[from];
    lemma_e_of_shape(x);
    let pre_i = pre + seq!['('] + p;
    assert(pre_i.len() == at);
    reveal_with_fuel(parse_and_rest, 1);
    reveal_with_fuel(parse_expr, 1);
    assert(need_from(t, from) == need(x) + 1 + need_from(t, from + 1));
    if from == xs.len() - 1 {
        assert(jf == e_of(x));
        let after_i = seq![')'] + post;
        assert(s =~= pre_i + e_of(x) + after_i);
        lemma_parse_tree(pre_i, x, after_i, (fuel - 1) as nat);
        let j0 = (at + e_of(x).len()) as int;
        assert(s[j0] == ')');
        assert(strip_left(s, j0) == j0) by { assert(!ws(s[j0])); }
        assert(items.push(x) =~= xs);
        assert(j0 + 1 == pre.len() + e_of(t).len());
        assert(T::And(xs) == t);
    } else {
        lemma_e_of_shape(xs[from + 1]);
        let jn = e_join(t, from + 1);
        assert(jf == e_of(x) + sep_and() + jn);
        let after_i = sep_and() + jn + seq![')'] + post;
        assert(s =~= pre_i + e_of(x) + after_i);
        lemma_parse_tree(pre_i, x, after_i, (fuel - 1) as nat);
        let j0 = (at + e_of(x).len()) as int;
        assert(jn.len() >= 1 && jn[0] == '(') by {
            if from + 1 == xs.len() - 1 { } else { assert(jn == e_of(xs[from + 1]) + sep_and() + e_join(t, from + 2)); }
        }
        assert(s.subrange(j0, j0 + 5) =~= sep_and());
        assert(s[j0 + 5] == jn[0]);
        lemma_and_sep(s, j0);
        assert(items.push(x) =~= xs.take(from + 1));
        lemma_parse_and_rest(pre, t, post, from + 1, items.push(x), (fuel - 1) as nat);
        assert(j0 + 5 == pre.len() + e_of(t).len() - 1 - jn.len());
    }
}

// ---------------- both layers: the argument on the command line ----------------
/// the filter argument as it must appear on the command line: the expression text, quoted for MPD's request tokenizer
pub open spec fn arg_of(t: T) -> Seq<char> { seq!['"'] + esc_q(e_of(t)) + seq!['"'] }

/// MPD's tokenizer scan (tok::scan) over an esc_q-quoted text followed by the closing quote returns the text
pub proof fn lemma_tok_scan_esc_q(pre: Seq<char>, a: Seq<char>, post: Seq<char>, acc: Seq<char>)
    ensures crate::tok::scan(pre + esc_q(a) + seq!['"'] + post, pre.len() as int, acc) == crate::tok::Scan::Closed(acc + a, (pre.len() + esc_q(a).len()) as int)
    decreases a.len()
{
    let s = pre + esc_q(a) + seq!['"'] + post;
    let i = pre.len() as int;
    if a.len() == 0 {
        assert(esc_q(a) =~= seq![]); assert(s[i] == '"'); assert(acc + a =~= acc);
    } else {
        let c = a[0]; let rest = a.skip(1);
        if c == '"' || c == '\\' {
            assert(esc_q(a) =~= seq!['\\', c] + esc_q(rest));
            let pre2 = pre + seq!['\\', c];
            assert(s =~= pre2 + esc_q(rest) + seq!['"'] + post);
            assert(s[i] == '\\'); assert(s[i + 1] == c);
            lemma_tok_scan_esc_q(pre2, rest, post, acc.push(c));
            assert(acc.push(c) + rest =~= acc + a);
        } else {
            assert(esc_q(a) =~= seq![c] + esc_q(rest));
            let pre2 = pre + seq![c];
            assert(s =~= pre2 + esc_q(rest) + seq!['"'] + post);
            assert(s[i] == c);
            lemma_tok_scan_esc_q(pre2, rest, post, acc.push(c));
            assert(acc.push(c) + rest =~= acc + a);
        }
    }
}

/// C11 round trip: on a command line, MPD's tokenizer turns arg_of(t) back into the expression text, and the filter grammar turns
/// that text back into the tree t — same tags, operators, nesting, byte-identical values — for EVERY well-formed tree and value
pub proof fn theorem_filter_roundtrip(pre: Seq<char>, t: T, post: Seq<char>)
    requires wf(t), post.len() == 0 || (post[0] == ' ' && post.len() >= 2 && !crate::tok::ws(post[1]))
    ensures
        crate::tok::next_param(pre + arg_of(t) + post, pre.len() as int) matches crate::tok::Tok::Word(e, _) && e == e_of(t),
        parse_expr(e_of(t), 0, need(t)) == Some((t, e_of(t).len() as int)),
{
    let s = pre + arg_of(t) + post;
    let at = pre.len() as int;
    let pre2 = pre + seq!['"'];
    assert(s =~= pre2 + esc_q(e_of(t)) + seq!['"'] + post);
    assert(s[at] == '"');
    lemma_tok_scan_esc_q(pre2, e_of(t), post, Seq::empty());
    assert(Seq::<char>::empty() + e_of(t) =~= e_of(t));
    let q = at + 1 + esc_q(e_of(t)).len();
    if post.len() > 0 { assert(s[q + 1] == post[0]); } else { assert(s.len() == q + 1); }
    lemma_parse_tree(Seq::empty(), t, Seq::empty(), need(t));
    assert(Seq::<char>::empty() + e_of(t) + Seq::<char>::empty() =~= e_of(t));
    assert(strip_left(e_of(t), e_of(t).len() as int) == e_of(t).len());
}
// ---------------- a rendering with an arbitrary value-escaping function (what a client writes) ----------------
/// text written between the outer quotes when values are escaped by `ve` and wrapped in `\"` (backslash, quote)
pub open spec fn r_of(t: T, ve: spec_fn(Seq<char>) -> Seq<char>) -> Seq<char>
    decreases t, 2nat, 0int
{
    match t {
        T::Tag(tag, op, v) => seq!['('] + tag + seq![' '] + op + seq![' ', '\\', '"'] + ve(v) + seq!['\\', '"', ')'],
        T::Not(x) => seq!['(', '!'] + r_of(*x, ve) + seq![')'],
        T::And(xs) => seq!['('] + r_join_of(t, 0, ve) + seq![')'],
    }
}
pub open spec fn r_join_of(t: T, from: int, ve: spec_fn(Seq<char>) -> Seq<char>) -> Seq<char>
    decreases t, 1nat, (match t { T::And(xs) => xs.len() - from, _ => 0int })
    when t is And && from >= 0
{
    let xs = t->And_0;
    if from >= xs.len() { Seq::empty() }
    else if from == xs.len() - 1 { r_of(xs[from], ve) }
    else { r_of(xs[from], ve) + sep_and() + r_join_of(t, from + 1, ve) }
}
/// every value of the tree is written the way both scanners need it: escaped for ExpectQuoted, then for the tokenizer
pub open spec fn values_ok(t: T, ve: spec_fn(Seq<char>) -> Seq<char>) -> bool
    decreases t
{
    match t {
        T::Tag(_, _, v) => ve(v) == esc_q(esc_q(v)),
        T::Not(x) => values_ok(*x, ve),
        T::And(xs) => forall|i: int| 0 <= i < xs.len() ==> values_ok(#[trigger] xs[i], ve),
    }
}
pub proof fn lemma_word_plain(w: Seq<char>)
    requires forall|i: int| 0 <= i < w.len() ==> word_char(#[trigger] w[i])
    ensures esc_q(w) == w
{ assert(plain_value(w)); lemma_esc_q_plain(w); }
pub proof fn lemma_op_plain(op: Seq<char>)
    requires is_op(op)
    ensures esc_q(op) == op
{
    assert(plain_value(op)) by {
        assert forall|i: int| 0 <= i < op.len() implies #[trigger] op[i] != '"' && op[i] != '\\' by {
            if op == op_eq() {} else if op == op_ne() {} else if op == op_contains() {} else if op == op_match() {} else {}
        }
    }
    lemma_esc_q_plain(op);
}
pub proof fn lemma_esc_q_lits()
    ensures esc_q(seq!['(']) == seq!['('], esc_q(seq![' ']) == seq![' '], esc_q(seq![')']) == seq![')'], esc_q(seq!['(', '!']) == seq!['(', '!'],
            esc_q(seq![' ', '"']) == seq![' ', '\\', '"'], esc_q(seq!['"', ')']) == seq!['\\', '"', ')'], esc_q(sep_and()) == sep_and()
{
    reveal_with_fuel(esc_q, 8);
    assert(esc_q(seq!['(']) =~= seq!['(']) by { assert(seq!['('].skip(1) =~= seq![]); }
    assert(esc_q(seq![' ']) =~= seq![' ']) by { assert(seq![' '].skip(1) =~= seq![]); }
    assert(esc_q(seq![')']) =~= seq![')']) by { assert(seq![')'].skip(1) =~= seq![]); }
    assert(esc_q(seq!['(', '!']) =~= seq!['(', '!']) by { assert(seq!['(', '!'].skip(1) =~= seq!['!']); assert(seq!['!'].skip(1) =~= seq![]); }
    assert(esc_q(seq![' ', '"']) =~= seq![' ', '\\', '"']) by { assert(seq![' ', '"'].skip(1) =~= seq!['"']); assert(seq!['"'].skip(1) =~= seq![]); }
    assert(esc_q(seq!['"', ')']) =~= seq!['\\', '"', ')']) by { assert(seq!['"', ')'].skip(1) =~= seq![')']); assert(seq![')'].skip(1) =~= seq![]); }
    assert(plain_value(sep_and())); lemma_esc_q_plain(sep_and());
}
/// with every value written as esc_q(esc_q(v)), the text written is exactly the tokenizer-quoted expression text
pub proof fn lemma_r_of_ok(t: T, ve: spec_fn(Seq<char>) -> Seq<char>)
    requires wf(t), values_ok(t, ve)
    ensures r_of(t, ve) == esc_q(e_of(t))
    decreases t, 2nat, 0int
{
    lemma_esc_q_lits();
    match t {
        T::Tag(tag, op, v) => {
            lemma_word_plain(tag); lemma_op_plain(op);
            let a = seq!['(']; let c = seq![' ']; let e = seq![' ', '"']; let g = seq!['"', ')'];
            lemma_esc_q_concat(a, tag); lemma_esc_q_concat(a + tag, c); lemma_esc_q_concat(a + tag + c, op);
            lemma_esc_q_concat(a + tag + c + op, e); lemma_esc_q_concat(a + tag + c + op + e, esc_q(v)); lemma_esc_q_concat(a + tag + c + op + e + esc_q(v), g);
        }
        T::Not(x) => {
            lemma_r_of_ok(*x, ve);
            lemma_esc_q_concat(seq!['(', '!'], e_of(*x)); lemma_esc_q_concat(seq!['(', '!'] + e_of(*x), seq![')']);
        }
        T::And(xs) => {
            lemma_r_join_ok(t, 0, ve);
            lemma_esc_q_concat(seq!['('], e_join(t, 0)); lemma_esc_q_concat(seq!['('] + e_join(t, 0), seq![')']);
        }
    }
}
pub proof fn lemma_r_join_ok(t: T, from: int, ve: spec_fn(Seq<char>) -> Seq<char>)
    requires wf(t), values_ok(t, ve), t is And, 0 <= from
    ensures r_join_of(t, from, ve) == esc_q(e_join(t, from))
    decreases t, 1nat, (match t { T::And(xs) => xs.len() - from, _ => 0int })
{
    lemma_esc_q_lits();
    let xs = t->And_0;
    if from >= xs.len() { assert(esc_q(Seq::<char>::empty()) =~= seq![]); }
    else {
        lemma_r_of_ok(xs[from], ve);
        if from < xs.len() - 1 {
            lemma_r_join_ok(t, from + 1, ve);
            lemma_esc_q_concat(e_of(xs[from]), sep_and()); lemma_esc_q_concat(e_of(xs[from]) + sep_and(), e_join(t, from + 1));
        }
    }
}
/// C11 for a client that writes `"` + r_of(t, ve) + `"`: both MPD layers give back the tree
pub proof fn theorem_written_filter_roundtrip(pre: Seq<char>, t: T, post: Seq<char>, ve: spec_fn(Seq<char>) -> Seq<char>)
    requires wf(t), values_ok(t, ve), post.len() == 0 || (post[0] == ' ' && post.len() >= 2 && !crate::tok::ws(post[1]))
    ensures
        crate::tok::next_param(pre + (seq!['"'] + r_of(t, ve) + seq!['"']) + post, pre.len() as int) matches crate::tok::Tok::Word(e, _) && e == e_of(t),
        parse_expr(e_of(t), 0, need(t)) == Some((t, e_of(t).len() as int)),
{
    lemma_r_of_ok(t, ve);
    theorem_filter_roundtrip(pre, t, post);
}
} // verus!

//! Wire grammar of MPD server output (DESIGN §8.1): operational streaming spec of one protocol item,
//! the response builder as a pure fold, the declarative encoder, and the lemmas mono / roundtrip / fold_ext / cut.
//! Pure specification + proofs: no assumption, no exec code.
#[allow(unused_imports)]
use vstd::prelude::*;
verus! {


pub enum PR<T> { Inc, Bad, Good(T, int) }     // Good(value, absolute end offset)

pub open spec fn ext_ok<T>(a: PR<T>, b: PR<T>) -> bool {
    match a { PR::Inc => true, PR::Bad => b is Bad, PR::Good(v, n) => b == PR::Good(v, n) }
}

pub open spec fn is_alpha(b: u8) -> bool { (0x41 <= b <= 0x5A) || (0x61 <= b <= 0x7A) }
pub open spec fn is_digit(b: u8) -> bool { 0x30 <= b <= 0x39 }
pub open spec fn is_key_byte(b: u8) -> bool { is_alpha(b) || b == 0x5F || b == 0x2D }
pub open spec fn is_cmd_byte(b: u8) -> bool { is_alpha(b) || b == 0x5F }
pub open spec fn not_lf(b: u8) -> bool { b != 0x0A }

// ---------------- primitives (all take the whole input and an absolute offset) ----------------

/// number of leading positions k < t.len() with at+k < s.len() that match; streaming tag
pub open spec fn p_tag(s: Seq<u8>, at: int, t: Seq<u8>) -> PR<()> {
    if exists|k: int| 0 <= k < t.len() && at + k < s.len() && #[trigger] s[at + k] != t[k] { PR::Bad }
    else if s.len() - at >= t.len() { PR::Good((), at + t.len()) }
    else { PR::Inc }
}

pub open spec fn p_chr(s: Seq<u8>, at: int, c: u8) -> PR<()> {
    if at >= s.len() { PR::Inc } else if s[at] == c { PR::Good((), at + 1) } else { PR::Bad }
}

/// first index >= at whose byte does not satisfy f; None if the run reaches the end of the input
pub open spec fn run_end(s: Seq<u8>, at: int, f: spec_fn(u8) -> bool) -> Option<int>
    decreases s.len() - at
{
    if at < 0 || at >= s.len() { None } else if !f(s[at]) { Some(at) } else { run_end(s, at + 1, f) }
}

pub open spec fn dec_val(s: Seq<u8>, at: int, e: int) -> nat
    decreases e - at
{
    if e <= at { 0 } else { dec_val(s, at, e - 1) * 10 + (s[e - 1] - 0x30) as nat }
}

pub open spec fn p_number(s: Seq<u8>, at: int, max: nat) -> PR<nat> {
    match run_end(s, at, |b: u8| is_digit(b)) {
        None => PR::Inc,
        Some(e) => if e == at { PR::Bad } else if dec_val(s, at, e) > max { PR::Bad } else { PR::Good(dec_val(s, at, e), e) },
    }
}

/// UTF-8 validity is vstd's definition (the one `str` carries)
pub open spec fn utf8_valid(b: Seq<u8>) -> bool { vstd::utf8::valid_utf8(b) }

// ---------------- lemmas on primitives ----------------

pub proof fn lemma_run_end_props(s: Seq<u8>, at: int, f: spec_fn(u8) -> bool)
    requires 0 <= at
    ensures
        match run_end(s, at, f) {
            Some(e) => at <= e < s.len() && !f(s[e]) && forall|k: int| at <= k < e ==> f(#[trigger] s[k]),
            None => forall|k: int| at <= k < s.len() ==> f(#[trigger] s[k]),
        }
    decreases s.len() - at
{
    if at < s.len() && f(s[at]) { lemma_run_end_props(s, at + 1, f); }
}

pub proof fn lemma_run_end_ext(s: Seq<u8>, x: Seq<u8>, at: int, f: spec_fn(u8) -> bool)
    requires 0 <= at, run_end(s, at, f) is Some
    ensures run_end(s + x, at, f) == run_end(s, at, f)
    decreases s.len() - at
{
    assert((s + x)[at] == s[at]);
    if f(s[at]) { lemma_run_end_ext(s, x, at + 1, f); }
}

pub proof fn lemma_dec_val_ext(s: Seq<u8>, x: Seq<u8>, at: int, e: int)
    requires 0 <= at, e <= s.len()
    ensures dec_val(s + x, at, e) == dec_val(s, at, e)
    decreases e - at
{
    if e > at { lemma_dec_val_ext(s, x, at, e - 1); assert((s + x)[e - 1] == s[e - 1]); }
}

pub proof fn lemma_tag_mono(s: Seq<u8>, x: Seq<u8>, at: int, t: Seq<u8>)
    requires 0 <= at <= s.len()
    ensures ext_ok(p_tag(s, at, t), p_tag(s + x, at, t))
{
    let sx = s + x;
    match p_tag(s, at, t) {
        PR::Bad => {
            let k = choose|k: int| 0 <= k < t.len() && at + k < s.len() && #[trigger] s[at + k] != t[k];
            assert(sx[at + k] != t[k]);
        }
        PR::Good(_, _) => {
            if exists|k: int| 0 <= k < t.len() && at + k < sx.len() && #[trigger] sx[at + k] != t[k] {
                let k = choose|k: int| 0 <= k < t.len() && at + k < sx.len() && #[trigger] sx[at + k] != t[k];
                assert(at + k < s.len());
                assert(s[at + k] != t[k]);
            }
        }
        PR::Inc => {}
    }
}

pub proof fn lemma_chr_mono(s: Seq<u8>, x: Seq<u8>, at: int, c: u8)
    requires 0 <= at <= s.len()
    ensures ext_ok(p_chr(s, at, c), p_chr(s + x, at, c))
{
    if at < s.len() { assert((s + x)[at] == s[at]); }
}

pub proof fn lemma_number_mono(s: Seq<u8>, x: Seq<u8>, at: int, max: nat)
    requires 0 <= at <= s.len()
    ensures ext_ok(p_number(s, at, max), p_number(s + x, at, max))
{
    let f = |b: u8| is_digit(b);
    if run_end(s, at, f) is Some {
        lemma_run_end_ext(s, x, at, f);
        lemma_run_end_props(s, at, f);
        lemma_dec_val_ext(s, x, at, run_end(s, at, f).unwrap());
    }
}


// ---------------- composite parsers ----------------
pub struct ErrV { pub code: nat, pub index: nat, pub command: Option<Seq<u8>>, pub message: Seq<u8> }
pub enum Comp { EndOfFrame, EndOfResponse, Error(ErrV), Field(Seq<u8>, Seq<u8>), Binary(nat) }

pub open spec fn t_ack() -> Seq<u8> { seq![0x41u8, 0x43, 0x4B, 0x20] }                      // "ACK "
pub open spec fn t_ok() -> Seq<u8> { seq![0x4Fu8, 0x4B, 0x0A] }                              // "OK\n"
pub open spec fn t_list_ok() -> Seq<u8> { seq![0x6Cu8, 0x69, 0x73, 0x74, 0x5F, 0x4F, 0x4B, 0x0A] }   // "list_OK\n"
pub open spec fn t_binary() -> Seq<u8> { seq![0x62u8, 0x69, 0x6E, 0x61, 0x72, 0x79, 0x3A, 0x20] }    // "binary: "
pub open spec fn t_colon_sp() -> Seq<u8> { seq![0x3Au8, 0x20] }                              // ": "
pub open spec fn t_greet() -> Seq<u8> { seq![0x4Fu8, 0x4B, 0x20, 0x4D, 0x50, 0x44, 0x20] }   // "OK MPD "
pub open spec fn u64_max() -> nat { 0xFFFF_FFFF_FFFF_FFFF }

/// tail of the ACK line after "{" : optional command, "} ", message, LF
pub open spec fn p_error_tail(s: Seq<u8>, at: int, code: nat, index: nat) -> PR<Comp> {
    match run_end(s, at, |b: u8| is_cmd_byte(b)) {
        None => PR::Inc,
        Some(ce) => {
            let command = if ce == at { None } else { Some(s.subrange(at, ce)) };
            match p_chr(s, ce, 0x7D) { PR::Inc => PR::Inc, PR::Bad => PR::Bad, PR::Good(_, a1) =>
            match p_chr(s, a1, 0x20) { PR::Inc => PR::Inc, PR::Bad => PR::Bad, PR::Good(_, a2) =>
            match run_end(s, a2, |b: u8| not_lf(b)) {
                None => PR::Inc,
                Some(me) => if !utf8_valid(s.subrange(a2, me)) { PR::Bad }
                            else { PR::Good(Comp::Error(ErrV { code, index, command, message: s.subrange(a2, me) }), me + 1) },
            }}}
        }
    }
}

pub open spec fn p_error(s: Seq<u8>) -> PR<Comp> {
    match p_tag(s, 0, t_ack()) { PR::Inc => PR::Inc, PR::Bad => PR::Bad, PR::Good(_, a0) =>
    match p_chr(s, a0, 0x5B) { PR::Inc => PR::Inc, PR::Bad => PR::Bad, PR::Good(_, a1) =>
    match p_number(s, a1, u64_max()) { PR::Inc => PR::Inc, PR::Bad => PR::Bad, PR::Good(code, a2) =>
    match p_chr(s, a2, 0x40) { PR::Inc => PR::Inc, PR::Bad => PR::Bad, PR::Good(_, a3) =>
    match p_number(s, a3, u64_max()) { PR::Inc => PR::Inc, PR::Bad => PR::Bad, PR::Good(index, a4) =>
    match p_chr(s, a4, 0x5D) { PR::Inc => PR::Inc, PR::Bad => PR::Bad, PR::Good(_, a5) =>
    match p_chr(s, a5, 0x20) { PR::Inc => PR::Inc, PR::Bad => PR::Bad, PR::Good(_, a6) =>
    match p_chr(s, a6, 0x7B) { PR::Inc => PR::Inc, PR::Bad => PR::Bad, PR::Good(_, a7) =>
        p_error_tail(s, a7, code, index)
    }}}}}}}}
}

/// Bad = nom Error (alt continues), Fail = nom Failure (cut)
pub enum BR { Inc, Bad, Fail, Good(nat, int) }
pub open spec fn p_binary(s: Seq<u8>) -> BR {
    match p_tag(s, 0, t_binary()) { PR::Inc => BR::Inc, PR::Bad => BR::Bad, PR::Good(_, a0) =>
    match p_number(s, a0, u64_max()) { PR::Inc => BR::Inc, PR::Bad => BR::Bad, PR::Good(len, a1) =>
    match p_chr(s, a1, 0x0A) { PR::Inc => BR::Inc, PR::Bad => BR::Bad, PR::Good(_, a2) =>
        if s.len() - a2 < len { BR::Inc }
        else if a2 + len >= s.len() { BR::Inc }
        else if s[a2 + len] != 0x0A { BR::Fail }
        else { BR::Good(len, a2 + len + 1) }
    }}}
}
pub open spec fn br_ext_ok(a: BR, b: BR) -> bool {
    match a { BR::Inc => true, BR::Bad => b is Bad, BR::Fail => b is Fail, BR::Good(l, n) => b == BR::Good(l, n) }
}

pub open spec fn p_field(s: Seq<u8>) -> PR<Comp> {
    match run_end(s, 0, |b: u8| is_key_byte(b)) {
        None => PR::Inc,
        Some(ke) => if ke == 0 { PR::Bad } else {
            match p_tag(s, ke, t_colon_sp()) { PR::Inc => PR::Inc, PR::Bad => PR::Bad, PR::Good(_, a1) =>
            match run_end(s, a1, |b: u8| not_lf(b)) {
                None => PR::Inc,
                Some(ve) => if !utf8_valid(s.subrange(a1, ve)) { PR::Bad }
                            else { PR::Good(Comp::Field(s.subrange(0, ke), s.subrange(a1, ve)), ve + 1) },
            }}
        }
    }
}

/// alt((OK, list_OK, error, binary_field, key_value_field)): the first result that is not nom `Error` wins
#[verifier::opaque]
pub open spec fn spec_component(s: Seq<u8>) -> PR<Comp> {
    match p_tag(s, 0, t_ok()) { PR::Good(_, n) => PR::Good(Comp::EndOfResponse, n), PR::Inc => PR::Inc, PR::Bad =>
    match p_tag(s, 0, t_list_ok()) { PR::Good(_, n) => PR::Good(Comp::EndOfFrame, n), PR::Inc => PR::Inc, PR::Bad =>
    match p_error(s) { PR::Good(c, n) => PR::Good(c, n), PR::Inc => PR::Inc, PR::Bad =>
    match p_binary(s) { BR::Good(l, n) => PR::Good(Comp::Binary(l), n), BR::Inc => PR::Inc, BR::Fail => PR::Bad, BR::Bad =>
        p_field(s)
    }}}}
}

pub open spec fn spec_greeting(s: Seq<u8>) -> PR<Seq<u8>> {
    match p_tag(s, 0, t_greet()) { PR::Inc => PR::Inc, PR::Bad => PR::Bad, PR::Good(_, a0) =>
    match run_end(s, a0, |b: u8| not_lf(b)) {
        None => PR::Inc,
        Some(e) => if e == a0 { PR::Bad } else if !utf8_valid(s.subrange(a0, e)) { PR::Bad } else { PR::Good(s.subrange(a0, e), e + 1) },
    }}
}

// ---------------- monotonicity of the composites ----------------
pub proof fn lemma_sub_ext(s: Seq<u8>, x: Seq<u8>, a: int, b: int)
    requires 0 <= a <= b <= s.len()
    ensures (s + x).subrange(a, b) == s.subrange(a, b)
{ assert((s + x).subrange(a, b) =~= s.subrange(a, b)); }

/// offsets produced by the primitives stay within the input
pub proof fn lemma_prim_bounds(s: Seq<u8>, at: int)
    requires 0 <= at <= s.len()
    ensures
        forall|t: Seq<u8>| (#[trigger] p_tag(s, at, t)) matches PR::Good(_, n) ==> at <= n <= s.len(),
        forall|c: u8| (#[trigger] p_chr(s, at, c)) matches PR::Good(_, n) ==> at <= n <= s.len(),
{}

pub proof fn lemma_number_bounds(s: Seq<u8>, at: int, max: nat)
    requires 0 <= at <= s.len()
    ensures p_number(s, at, max) matches PR::Good(_, n) ==> at < n < s.len()
{ lemma_run_end_props(s, at, |b: u8| is_digit(b)); }

pub proof fn lemma_error_tail_mono(s: Seq<u8>, x: Seq<u8>, at: int, code: nat, index: nat)
    requires 0 <= at <= s.len()
    ensures ext_ok(p_error_tail(s, at, code, index), p_error_tail(s + x, at, code, index))
{
    let sx = s + x;
    let fc = |b: u8| is_cmd_byte(b);
    let fm = |b: u8| not_lf(b);
    if run_end(s, at, fc) is Some {
        let ce = run_end(s, at, fc).unwrap();
        lemma_run_end_ext(s, x, at, fc);
        lemma_run_end_props(s, at, fc);
        lemma_sub_ext(s, x, at, ce);
        lemma_chr_mono(s, x, ce, 0x7D);
        if let PR::Good(_, a1) = p_chr(s, ce, 0x7D) {
            lemma_chr_mono(s, x, a1, 0x20);
            if let PR::Good(_, a2) = p_chr(s, a1, 0x20) {
                if run_end(s, a2, fm) is Some {
                    let me = run_end(s, a2, fm).unwrap();
                    lemma_run_end_ext(s, x, a2, fm);
                    lemma_run_end_props(s, a2, fm);
                    lemma_sub_ext(s, x, a2, me);
                }
            }
        }
    }
}

pub proof fn lemma_error_mono(s: Seq<u8>, x: Seq<u8>)
    ensures ext_ok(p_error(s), p_error(s + x))
{
    let sx = s + x;
    lemma_tag_mono(s, x, 0, t_ack());
    if let PR::Good(_, a0) = p_tag(s, 0, t_ack()) {
        lemma_chr_mono(s, x, a0, 0x5B);
        if let PR::Good(_, a1) = p_chr(s, a0, 0x5B) {
            lemma_number_mono(s, x, a1, u64_max()); lemma_number_bounds(s, a1, u64_max());
            if let PR::Good(code, a2) = p_number(s, a1, u64_max()) {
                lemma_chr_mono(s, x, a2, 0x40);
                if let PR::Good(_, a3) = p_chr(s, a2, 0x40) {
                    lemma_number_mono(s, x, a3, u64_max()); lemma_number_bounds(s, a3, u64_max());
                    if let PR::Good(index, a4) = p_number(s, a3, u64_max()) {
                        lemma_chr_mono(s, x, a4, 0x5D);
                        if let PR::Good(_, a5) = p_chr(s, a4, 0x5D) {
                            lemma_chr_mono(s, x, a5, 0x20);
                            if let PR::Good(_, a6) = p_chr(s, a5, 0x20) {
                                lemma_chr_mono(s, x, a6, 0x7B);
                                if let PR::Good(_, a7) = p_chr(s, a6, 0x7B) {
                                    lemma_error_tail_mono(s, x, a7, code, index);
                                }
                            }
                        }
                    }
                }
            }
        }
    }
}

pub proof fn lemma_binary_mono(s: Seq<u8>, x: Seq<u8>)
    ensures br_ext_ok(p_binary(s), p_binary(s + x))
{
    lemma_tag_mono(s, x, 0, t_binary());
    if let PR::Good(_, a0) = p_tag(s, 0, t_binary()) {
        lemma_number_mono(s, x, a0, u64_max()); lemma_number_bounds(s, a0, u64_max());
        if let PR::Good(len, a1) = p_number(s, a0, u64_max()) {
            lemma_chr_mono(s, x, a1, 0x0A);
            if let PR::Good(_, a2) = p_chr(s, a1, 0x0A) {
                if s.len() - a2 >= len && a2 + len < s.len() { assert((s + x)[a2 + len] == s[a2 + len]); }
            }
        }
    }
}

pub proof fn lemma_field_mono(s: Seq<u8>, x: Seq<u8>)
    ensures ext_ok(p_field(s), p_field(s + x))
{
    let fk = |b: u8| is_key_byte(b);
    let fv = |b: u8| not_lf(b);
    if run_end(s, 0, fk) is Some {
        let ke = run_end(s, 0, fk).unwrap();
        lemma_run_end_ext(s, x, 0, fk);
        lemma_run_end_props(s, 0, fk);
        if ke > 0 {
            lemma_tag_mono(s, x, ke, t_colon_sp());
            lemma_sub_ext(s, x, 0, ke);
            if let PR::Good(_, a1) = p_tag(s, ke, t_colon_sp()) {
                if run_end(s, a1, fv) is Some {
                    let ve = run_end(s, a1, fv).unwrap();
                    lemma_run_end_ext(s, x, a1, fv);
                    lemma_run_end_props(s, a1, fv);
                    lemma_sub_ext(s, x, a1, ve);
                }
            }
        }
    }
}

/// THE monotonicity lemma used by C02: appending bytes never changes a decided result
pub proof fn lemma_component_mono(s: Seq<u8>, x: Seq<u8>)
    ensures ext_ok(spec_component(s), spec_component(s + x))
{
    reveal(spec_component);
    lemma_tag_mono(s, x, 0, t_ok());
    lemma_tag_mono(s, x, 0, t_list_ok());
    lemma_error_mono(s, x);
    lemma_binary_mono(s, x);
    lemma_field_mono(s, x);
}

pub proof fn lemma_greeting_mono(s: Seq<u8>, x: Seq<u8>)
    ensures ext_ok(spec_greeting(s), spec_greeting(s + x))
{
    let f = |b: u8| not_lf(b);
    lemma_tag_mono(s, x, 0, t_greet());
    if let PR::Good(_, a0) = p_tag(s, 0, t_greet()) {
        if run_end(s, a0, f) is Some {
            let e = run_end(s, a0, f).unwrap();
            lemma_run_end_ext(s, x, a0, f);
            lemma_run_end_props(s, a0, f);
            lemma_sub_ext(s, x, a0, e);
        }
    }
}


// =====================================================================================================
// Round trip at the component level: the declarative encoder of one protocol line is decoded exactly.
// =====================================================================================================
pub open spec fn all_bytes(s: Seq<u8>, f: spec_fn(u8) -> bool) -> bool { forall|i: int| 0 <= i < s.len() ==> f(#[trigger] s[i]) }
pub open spec fn lf() -> Seq<u8> { seq![0x0Au8] }
pub open spec fn t_binary_word() -> Seq<u8> { seq![0x62u8, 0x69, 0x6E, 0x61, 0x72, 0x79] }     // "binary"

pub open spec fn key_ok(k: Seq<u8>) -> bool { k.len() > 0 && all_bytes(k, |b: u8| is_key_byte(b)) && k != t_binary_word() }
pub open spec fn val_ok(v: Seq<u8>) -> bool { utf8_valid(v) && all_bytes(v, |b: u8| not_lf(b)) }

pub open spec fn enc_field(k: Seq<u8>, v: Seq<u8>) -> Seq<u8> { k + t_colon_sp() + v + lf() }

/// run_end over a block that satisfies f followed by a byte that does not
pub proof fn lemma_run_end_block(s: Seq<u8>, at: int, n: int, f: spec_fn(u8) -> bool)
    requires 0 <= at, 0 <= n, at + n < s.len(), forall|i: int| at <= i < at + n ==> f(#[trigger] s[i]), !f(s[at + n])
    ensures run_end(s, at, f) == Some(at + n)
    decreases n
{
    if n > 0 { lemma_run_end_block(s, at + 1, n - 1, f); }
}

/// a tag is Bad as soon as one available position mismatches
pub proof fn lemma_tag_bad(s: Seq<u8>, at: int, t: Seq<u8>, k: int)
    requires 0 <= k < t.len(), 0 <= at, at + k < s.len(), s[at + k] != t[k]
    ensures p_tag(s, at, t) is Bad
{}

pub proof fn lemma_tag_good(s: Seq<u8>, at: int, t: Seq<u8>)
    requires 0 <= at, at + t.len() <= s.len(), forall|k: int| 0 <= k < t.len() ==> #[trigger] s[at + k] == t[k]
    ensures p_tag(s, at, t) == PR::Good((), at + t.len())
{}

/// A key line can never be taken for one of the fixed tags: the tag contains a byte (at index `sp`) that is neither a key
/// byte nor ':' ... or the key differs from the tag's word.
pub proof fn lemma_field_not_tag(k: Seq<u8>, tail: Seq<u8>, t: Seq<u8>, sp: int)
    requires
        k.len() > 0, all_bytes(k, |b: u8| is_key_byte(b)),
        tail.len() >= 2, tail[0] == 0x3A, tail[1] == 0x20,            // ": "
        0 <= sp < t.len(), !is_key_byte(t[sp]), t[sp] != 0x3A,         // t[sp] is LF or blank
        forall|i: int| 0 <= i < sp ==> #[trigger] t[i] != 0x3A,        // no ':' before sp
        sp != 1 || true,
    ensures p_tag(k + tail, 0, t) is Bad
{
    let s = k + tail;
    let j = k.len() as int;     // position of ':'
    if j < sp {
        // s[j] == ':' but t[j] != ':'
        assert(s[j] == tail[0]);
        lemma_tag_bad(s, 0, t, j);
    } else if j == sp {
        assert(s[j] == tail[0]);
        lemma_tag_bad(s, 0, t, j);
    } else {
        // s[sp] is a key byte, t[sp] is not
        assert(s[sp] == k[sp]);
        assert(is_key_byte(k[sp]));
        lemma_tag_bad(s, 0, t, sp);
    }
}

/// the four earlier alternatives are Bad on a key line
pub proof fn lemma_field_alts_bad(k: Seq<u8>, tail: Seq<u8>)
    requires key_ok(k), tail.len() >= 2, tail[0] == 0x3A, tail[1] == 0x20
    ensures
        p_tag(k + tail, 0, t_ok()) is Bad, p_tag(k + tail, 0, t_list_ok()) is Bad,
        p_tag(k + tail, 0, t_ack()) is Bad, p_tag(k + tail, 0, t_binary()) is Bad,
{
    let s = k + tail;
    let j = k.len() as int;
    lemma_field_not_tag(k, tail, t_ok(), 2);
    lemma_field_not_tag(k, tail, t_list_ok(), 7);
    lemma_field_not_tag(k, tail, t_ack(), 3);
    let t = t_binary();
    if j < 6 { assert(s[j] == tail[0]); lemma_tag_bad(s, 0, t, j); }
    else if j == 6 {
        assert(exists|i: int| 0 <= i < 6 && k[i] != t_binary_word()[i]) by {
            if forall|i: int| 0 <= i < 6 ==> k[i] == t_binary_word()[i] { assert(k =~= t_binary_word()); }
        }
        let i = choose|i: int| 0 <= i < 6 && k[i] != t_binary_word()[i];
        assert(s[i] == k[i]);
        assert(t[i] == t_binary_word()[i]);
        lemma_tag_bad(s, 0, t, i);
    } else { assert(s[6] == k[6]); assert(is_key_byte(k[6])); lemma_tag_bad(s, 0, t, 6); }
}

/// the key-value parser accepts a well-formed key line
pub proof fn lemma_p_field_good(k: Seq<u8>, v: Seq<u8>, rest: Seq<u8>)
    requires key_ok(k), val_ok(v)
    ensures p_field(enc_field(k, v) + rest) == PR::Good(Comp::Field(k, v), (k.len() + 2 + v.len() + 1) as int)
{
    let s = enc_field(k, v) + rest;
    let j = k.len() as int;
    let fk = |b: u8| is_key_byte(b);
    assert forall|i: int| 0 <= i < j implies fk(#[trigger] s[i]) by { assert(s[i] == k[i]); }
    assert(s[j] == 0x3A);
    assert(s[j + 1] == 0x20);
    lemma_run_end_block(s, 0, j, fk);
    lemma_tag_good(s, j, t_colon_sp());
    let a1 = j + 2;
    let fv = |b: u8| not_lf(b);
    assert forall|i: int| a1 <= i < a1 + v.len() implies fv(#[trigger] s[i]) by { assert(s[i] == v[i - a1]); }
    assert(s[a1 + v.len()] == 0x0A);
    lemma_run_end_block(s, a1, v.len() as int, fv);
    assert(s.subrange(0, j) =~= k);
    assert(s.subrange(a1, a1 + v.len()) =~= v);
}

pub proof fn lemma_component_field(k: Seq<u8>, v: Seq<u8>, rest: Seq<u8>)
    requires key_ok(k), val_ok(v)
    ensures spec_component(enc_field(k, v) + rest) == PR::Good(Comp::Field(k, v), (k.len() + 2 + v.len() + 1) as int)
{
    reveal(spec_component);
    let tail = t_colon_sp() + v + lf() + rest;
    let s = enc_field(k, v) + rest;
    assert(s =~= k + tail);
    lemma_field_alts_bad(k, tail);
    lemma_p_field_good(k, v, rest);
}

// ---------------- decimal numbers ----------------
pub open spec fn dec(n: nat) -> Seq<u8>
    decreases n
{
    if n < 10 { seq![(0x30 + n) as u8] } else { dec(n / 10) + seq![(0x30 + n % 10) as u8] }
}

pub proof fn lemma_dec_digits(n: nat)
    ensures dec(n).len() >= 1, all_bytes(dec(n), |b: u8| is_digit(b))
    decreases n
{
    if n >= 10 {
        lemma_dec_digits(n / 10);
        assert forall|i: int| 0 <= i < dec(n).len() implies is_digit(#[trigger] dec(n)[i]) by {
            if i < dec(n / 10).len() { assert(dec(n)[i] == dec(n / 10)[i]); }
        }
    }
}

pub proof fn lemma_dec_val(s: Seq<u8>, at: int, n: nat)
    requires 0 <= at, at + dec(n).len() <= s.len(), s.subrange(at, at + dec(n).len()) == dec(n)
    ensures dec_val(s, at, at + dec(n).len()) == n
    decreases n
{
    let d = dec(n);
    let e = at + d.len();
    assert(s[e - 1] == d[d.len() - 1]) by { assert(s.subrange(at, e)[d.len() - 1] == s[e - 1]); }
    if n < 10 {
        assert(dec_val(s, at, at) == 0);
        assert(dec_val(s, at, at + 1) == dec_val(s, at, at) * 10 + (s[at] - 0x30) as nat);
    } else {
        let d1 = dec(n / 10);
        lemma_dec_digits(n / 10);
        assert(s.subrange(at, at + d1.len()) =~= d1) by {
            assert forall|i: int| 0 <= i < d1.len() implies s.subrange(at, at + d1.len())[i] == d1[i] by {
                assert(s.subrange(at, e)[i] == s[at + i]);
                assert(d[i] == d1[i]);
            }
        }
        lemma_dec_val(s, at, n / 10);
        assert(e - 1 == at + d1.len());
        assert(d[d.len() - 1] == (0x30 + n % 10) as u8);
    }
}

/// a number followed by a non-digit is parsed back
pub proof fn lemma_number_rt(s: Seq<u8>, at: int, n: nat, max: nat)
    requires 0 <= at, n <= max, at + dec(n).len() < s.len(), s.subrange(at, at + dec(n).len()) == dec(n), !is_digit(s[at + dec(n).len()])
    ensures p_number(s, at, max) == PR::Good(n, at + dec(n).len())
{
    lemma_dec_digits(n);
    let f = |b: u8| is_digit(b);
    assert forall|i: int| at <= i < at + dec(n).len() implies f(#[trigger] s[i]) by {
        assert(s.subrange(at, at + dec(n).len())[i - at] == s[i]);
    }
    lemma_run_end_block(s, at, dec(n).len() as int, f);
    lemma_dec_val(s, at, n);
}

// ---------------- OK / list_OK ----------------
pub proof fn lemma_component_ok(rest: Seq<u8>)
    ensures spec_component(t_ok() + rest) == PR::Good(Comp::EndOfResponse, 3)
{
    reveal(spec_component);
    let s = t_ok() + rest;
    lemma_tag_good(s, 0, t_ok());
}
pub proof fn lemma_component_list_ok(rest: Seq<u8>)
    ensures spec_component(t_list_ok() + rest) == PR::Good(Comp::EndOfFrame, 8)
{
    reveal(spec_component);
    let s = t_list_ok() + rest;
    lemma_tag_bad(s, 0, t_ok(), 0);
    lemma_tag_good(s, 0, t_list_ok());
}

// ---------------- binary ----------------
pub open spec fn enc_binary(p: Seq<u8>) -> Seq<u8> { t_binary() + dec(p.len()) + lf() + p + lf() }

pub proof fn lemma_component_binary(p: Seq<u8>, rest: Seq<u8>)
    requires p.len() <= u64_max()
    ensures spec_component(enc_binary(p) + rest) == PR::Good(Comp::Binary(p.len()), enc_binary(p).len() as int)
{
    reveal(spec_component);
    let s = enc_binary(p) + rest;
    let d = dec(p.len());
    lemma_dec_digits(p.len());
    lemma_tag_bad(s, 0, t_ok(), 0);
    lemma_tag_bad(s, 0, t_list_ok(), 0);
    lemma_tag_bad(s, 0, t_ack(), 0);
    lemma_tag_good(s, 0, t_binary());
    let a0 = 8int;
    assert(s.subrange(a0, a0 + d.len()) =~= d);
    assert(s[a0 + d.len()] == 0x0A);
    lemma_number_rt(s, a0, p.len(), u64_max());
    let a2 = a0 + d.len() + 1;
    assert(s[a2 + p.len()] == 0x0A);
}

// ---------------- ACK ----------------
pub open spec fn cmd_ok(c: Option<Seq<u8>>) -> bool { match c { None => true, Some(w) => w.len() > 0 && all_bytes(w, |b: u8| is_cmd_byte(b)) } }
pub open spec fn cmd_bytes(c: Option<Seq<u8>>) -> Seq<u8> { match c { None => Seq::empty(), Some(w) => w } }
pub open spec fn ack_head(e: ErrV) -> Seq<u8> { t_ack() + seq![0x5Bu8] + dec(e.code) + seq![0x40u8] + dec(e.index) + seq![0x5Du8, 0x20, 0x7B] }
pub open spec fn ack_tail(e: ErrV) -> Seq<u8> { cmd_bytes(e.command) + seq![0x7Du8, 0x20] + e.message + lf() }
pub open spec fn enc_ack(e: ErrV) -> Seq<u8> { ack_head(e) + ack_tail(e) }

pub proof fn lemma_error_tail_rt(pre: Seq<u8>, e: ErrV, rest: Seq<u8>)
    requires cmd_ok(e.command), val_ok(e.message)
    ensures p_error_tail(pre + ack_tail(e) + rest, pre.len() as int, e.code, e.index)
            == PR::Good(Comp::Error(e), (pre.len() + ack_tail(e).len()) as int)
{
    let s = pre + ack_tail(e) + rest;
    let cw = cmd_bytes(e.command);
    let a7 = pre.len() as int;
    let fc = |b: u8| is_cmd_byte(b);
    assert forall|i: int| a7 <= i < a7 + cw.len() implies fc(#[trigger] s[i]) by { assert(s[i] == cw[i - a7]); }
    assert(s[a7 + cw.len()] == 0x7D);
    lemma_run_end_block(s, a7, cw.len() as int, fc);
    let ce = a7 + cw.len();
    assert(s.subrange(a7, ce) =~= cw);
    assert(s[ce + 1] == 0x20);
    let m0 = ce + 2;
    let fm = |b: u8| not_lf(b);
    assert forall|i: int| m0 <= i < m0 + e.message.len() implies fm(#[trigger] s[i]) by { assert(s[i] == e.message[i - m0]); }
    assert(s[m0 + e.message.len()] == 0x0A);
    lemma_run_end_block(s, m0, e.message.len() as int, fm);
    assert(s.subrange(m0, m0 + e.message.len()) =~= e.message);
}

/// the fixed head "ACK [code@index] {" is parsed and leaves us at |head|
pub proof fn lemma_error_head_rt(e: ErrV, after: Seq<u8>)
    requires e.code <= u64_max(), e.index <= u64_max(), after.len() > 0
    ensures ({
        let s = ack_head(e) + after;
        &&& p_tag(s, 0, t_ok()) is Bad
        &&& p_tag(s, 0, t_list_ok()) is Bad
        &&& p_error(s) == p_error_tail(s, ack_head(e).len() as int, e.code, e.index)
    })
{
    let s = ack_head(e) + after;
    let dc = dec(e.code); let di = dec(e.index);
    lemma_dec_digits(e.code); lemma_dec_digits(e.index);
    lemma_tag_bad(s, 0, t_ok(), 0);
    lemma_tag_bad(s, 0, t_list_ok(), 0);
    lemma_tag_good(s, 0, t_ack());
    let a1 = 5int;
    assert(s[4] == 0x5B);
    assert(s.subrange(a1, a1 + dc.len()) =~= dc);
    let a2 = a1 + dc.len();
    assert(s[a2] == 0x40);
    lemma_number_rt(s, a1, e.code, u64_max());
    let a3 = a2 + 1;
    assert(s.subrange(a3, a3 + di.len()) =~= di);
    let a4 = a3 + di.len();
    assert(s[a4] == 0x5D);
    lemma_number_rt(s, a3, e.index, u64_max());
    assert(s[a4 + 1] == 0x20);
    assert(s[a4 + 2] == 0x7B);
    assert(ack_head(e).len() == a4 + 3);
}

pub proof fn lemma_component_ack(e: ErrV, rest: Seq<u8>)
    requires e.code <= u64_max(), e.index <= u64_max(), cmd_ok(e.command), val_ok(e.message)
    ensures spec_component(enc_ack(e) + rest) == PR::Good(Comp::Error(e), enc_ack(e).len() as int)
{
    reveal(spec_component);
    let s = enc_ack(e) + rest;
    let after = ack_tail(e) + rest;
    assert(s =~= ack_head(e) + after);
    assert(s =~= ack_head(e) + ack_tail(e) + rest);
    lemma_error_head_rt(e, after);
    lemma_error_tail_rt(ack_head(e), e, rest);
}


// =====================================================================================================
// Fold level: the declarative encoder of a whole response is decoded exactly (C03.exact at spec level)
// =====================================================================================================
pub struct FrameB { pub fields: Seq<(Seq<u8>, Seq<u8>)>, pub binary: Option<Seq<u8>> }
pub struct RespB { pub frames: Seq<FrameB>, pub error: Option<ErrV> }
pub enum StateB { Initial, InProgress(FrameB), List(FrameB, Seq<FrameB>) }
pub enum StepB { St(StateB), Resp(RespB) }
pub enum FoldB { Done(RespB, Seq<u8>), More(StateB, Seq<u8>), Invalid }

pub open spec fn empty_frame() -> FrameB { FrameB { fields: seq![], binary: None } }
pub open spec fn add_field(f: FrameB, k: Seq<u8>, v: Seq<u8>) -> FrameB { FrameB { fields: f.fields.push((k, v)), binary: f.binary } }
pub open spec fn set_binary(f: FrameB, p: Seq<u8>) -> FrameB { FrameB { fields: f.fields, binary: Some(p) } }
pub open spec fn cur(st: StateB) -> FrameB { match st { StateB::Initial => empty_frame(), StateB::InProgress(f) => f, StateB::List(f, _) => f } }
pub open spec fn with_cur(st: StateB, f: FrameB) -> StateB { match st { StateB::List(_, d) => StateB::List(f, d), _ => StateB::InProgress(f) } }
pub open spec fn step_eof_frame(st: StateB) -> StateB {
    match st { StateB::List(f, d) => StateB::List(empty_frame(), d.push(f)), _ => StateB::List(empty_frame(), seq![cur(st)]) }
}
pub open spec fn step_finish(st: StateB) -> RespB {
    match st { StateB::List(_, d) => RespB { frames: d, error: None }, _ => RespB { frames: seq![cur(st)], error: None } }
}
pub open spec fn step_error(st: StateB, e: ErrV) -> RespB {
    match st { StateB::List(_, d) => RespB { frames: d, error: Some(e) }, _ => RespB { frames: seq![], error: Some(e) } }
}
pub open spec fn payload_of(s: Seq<u8>, used: int, n: nat) -> Seq<u8> { s.subrange(used - n - 1, used - 1) }
pub open spec fn spec_step(st: StateB, c: Comp, s: Seq<u8>, used: int) -> StepB {
    match c {
        Comp::Field(k, v) => StepB::St(with_cur(st, add_field(cur(st), k, v))),
        Comp::Binary(n) => StepB::St(with_cur(st, set_binary(cur(st), payload_of(s, used, n)))),
        Comp::EndOfFrame => StepB::St(step_eof_frame(st)),
        Comp::EndOfResponse => StepB::Resp(step_finish(st)),
        Comp::Error(e) => StepB::Resp(step_error(st, e)),
    }
}
pub open spec fn spec_fold(st: StateB, s: Seq<u8>) -> FoldB
    decreases s.len()
{
    if s.len() == 0 { FoldB::More(st, s) } else {
        match spec_component(s) {
            PR::Inc => FoldB::More(st, s),
            PR::Bad => FoldB::Invalid,
            PR::Good(c, used) => if 0 < used <= s.len() {
                match spec_step(st, c, s, used) {
                    StepB::Resp(r) => FoldB::Done(r, s.subrange(used, s.len() as int)),
                    StepB::St(st2) => spec_fold(st2, s.subrange(used, s.len() as int)),
                }
            } else { FoldB::Invalid },
        }
    }
}

// ---- encoders ----
pub open spec fn fields_ok(fs: Seq<(Seq<u8>, Seq<u8>)>) -> bool { forall|i: int| 0 <= i < fs.len() ==> key_ok(#[trigger] fs[i].0) && val_ok(fs[i].1) }
pub open spec fn frame_ok(f: FrameB) -> bool { fields_ok(f.fields) && (f.binary matches Some(p) ==> p.len() <= u64_max()) }
pub open spec fn enc_fields(fs: Seq<(Seq<u8>, Seq<u8>)>) -> Seq<u8>
    decreases fs.len()
{ if fs.len() == 0 { Seq::empty() } else { enc_field(fs[0].0, fs[0].1) + enc_fields(fs.skip(1)) } }
pub open spec fn enc_bin_opt(b: Option<Seq<u8>>) -> Seq<u8> { match b { Some(p) => enc_binary(p), None => Seq::empty() } }
pub open spec fn enc_frame(f: FrameB) -> Seq<u8> { enc_fields(f.fields) + enc_bin_opt(f.binary) }

pub open spec fn add_fields(f: FrameB, fs: Seq<(Seq<u8>, Seq<u8>)>) -> FrameB
    decreases fs.len()
{ if fs.len() == 0 { f } else { add_fields(add_field(f, fs[0].0, fs[0].1), fs.skip(1)) } }

/// state after feeding the lines of frame g's fields to a state whose current frame is f
pub open spec fn fed(st: StateB, fs: Seq<(Seq<u8>, Seq<u8>)>) -> StateB { if fs.len() == 0 { st } else { with_cur(st, add_fields(cur(st), fs)) } }

pub proof fn lemma_fold_fields(st: StateB, fs: Seq<(Seq<u8>, Seq<u8>)>, rest: Seq<u8>)
    requires fields_ok(fs)
    ensures spec_fold(st, enc_fields(fs) + rest) == spec_fold(fed(st, fs), rest)
    decreases fs.len()
{
    if fs.len() == 0 {
        assert(enc_fields(fs) + rest =~= rest);
    } else {
        let k = fs[0].0; let v = fs[0].1; let tl = fs.skip(1);
        let s = enc_fields(fs) + rest;
        let line = enc_field(k, v);
        assert(s =~= line + (enc_fields(tl) + rest));
        lemma_component_field(k, v, enc_fields(tl) + rest);
        let used = line.len() as int;
        assert(s.subrange(used, s.len() as int) =~= enc_fields(tl) + rest);
        let st2 = with_cur(st, add_field(cur(st), k, v));
        assert(fields_ok(tl)) by { assert forall|i: int| 0 <= i < tl.len() implies key_ok(#[trigger] tl[i].0) && val_ok(tl[i].1) by { assert(tl[i] == fs[i + 1]); } }
        lemma_fold_fields(st2, tl, rest);
        // fed(st, fs) == fed(st2, tl)
        assert(cur(st2) == add_field(cur(st), k, v));
        if tl.len() == 0 { assert(add_fields(add_field(cur(st), k, v), tl) == add_field(cur(st), k, v)); }
        assert(fed(st, fs) == fed(st2, tl)) by {
            match st { StateB::List(_, d) => {}, _ => {} }
        }
    }
}

pub proof fn lemma_fold_binary(st: StateB, p: Seq<u8>, rest: Seq<u8>)
    requires p.len() <= u64_max()
    ensures spec_fold(st, enc_binary(p) + rest) == spec_fold(with_cur(st, set_binary(cur(st), p)), rest)
{
    let s = enc_binary(p) + rest;
    lemma_component_binary(p, rest);
    let used = enc_binary(p).len() as int;
    assert(s.subrange(used, s.len() as int) =~= rest);
    assert(payload_of(s, used, p.len()) =~= p);
}

pub open spec fn fed_frame(st: StateB, f: FrameB) -> StateB {
    let st1 = fed(st, f.fields);
    match f.binary { Some(p) => with_cur(st1, set_binary(cur(st1), p)), None => st1 }
}
pub proof fn lemma_fold_frame(st: StateB, f: FrameB, rest: Seq<u8>)
    requires frame_ok(f)
    ensures spec_fold(st, enc_frame(f) + rest) == spec_fold(fed_frame(st, f), rest)
{
    assert(enc_frame(f) + rest =~= enc_fields(f.fields) + (enc_bin_opt(f.binary) + rest));
    lemma_fold_fields(st, f.fields, enc_bin_opt(f.binary) + rest);
    match f.binary {
        Some(p) => { lemma_fold_binary(fed(st, f.fields), p, rest); }
        None => { assert(enc_bin_opt(f.binary) + rest =~= rest); }
    }
}

/// add_fields onto the empty frame rebuilds the field list
pub proof fn lemma_add_fields_all(f: FrameB, fs: Seq<(Seq<u8>, Seq<u8>)>)
    ensures add_fields(f, fs).fields == f.fields + fs, add_fields(f, fs).binary == f.binary
    decreases fs.len()
{
    if fs.len() == 0 { assert(f.fields + fs =~= f.fields); }
    else {
        lemma_add_fields_all(add_field(f, fs[0].0, fs[0].1), fs.skip(1));
        assert(f.fields.push(fs[0]) + fs.skip(1) =~= f.fields + fs);
    }
}

/// THE single-response round trip: fields, optional binary, OK  ->  exactly one frame, nothing of `rest` consumed
pub proof fn lemma_roundtrip_single(f: FrameB, rest: Seq<u8>)
    requires frame_ok(f)
    ensures spec_fold(StateB::Initial, enc_frame(f) + t_ok() + rest) == FoldB::Done(RespB { frames: seq![f], error: None }, rest)
{
    let tail = t_ok() + rest;
    assert(enc_frame(f) + t_ok() + rest =~= enc_frame(f) + tail);
    lemma_fold_frame(StateB::Initial, f, tail);
    let st = fed_frame(StateB::Initial, f);
    lemma_component_ok(rest);
    assert(tail.subrange(3, tail.len() as int) =~= rest);
    lemma_add_fields_all(empty_frame(), f.fields);
    assert(empty_frame().fields + f.fields =~= f.fields);
    // cur(st) == f in every case
    assert(cur(st) == f) by {
        if f.fields.len() == 0 { } else { }
    }
}

pub proof fn lemma_fold_ack(st: StateB, e: ErrV, rest: Seq<u8>)
    requires e.code <= u64_max(), e.index <= u64_max(), cmd_ok(e.command), val_ok(e.message)
    ensures spec_fold(st, enc_ack(e) + rest) == FoldB::Done(step_error(st, e), rest)
{
    let s = enc_ack(e) + rest;
    lemma_component_ack(e, rest);
    lemma_dec_digits(e.code);
    assert(enc_ack(e).len() > 0) by { assert(ack_head(e).len() >= 4); }
    assert(s.subrange(enc_ack(e).len() as int, s.len() as int) =~= rest);
}

/// error round trip for a single command: optional partial output, then ACK -> no frames, the error
pub proof fn lemma_roundtrip_single_error(partial: FrameB, e: ErrV, rest: Seq<u8>)
    requires frame_ok(partial), e.code <= u64_max(), e.index <= u64_max(), cmd_ok(e.command), val_ok(e.message)
    ensures spec_fold(StateB::Initial, enc_frame(partial) + enc_ack(e) + rest) == FoldB::Done(RespB { frames: seq![], error: Some(e) }, rest)
{
    let tail = enc_ack(e) + rest;
    assert(enc_frame(partial) + enc_ack(e) + rest =~= enc_frame(partial) + tail);
    lemma_fold_frame(StateB::Initial, partial, tail);
    lemma_fold_ack(fed_frame(StateB::Initial, partial), e, rest);
}


// ---------------- command-list replies ----------------
pub open spec fn frames_ok(fs: Seq<FrameB>) -> bool { forall|i: int| 0 <= i < fs.len() ==> frame_ok(#[trigger] fs[i]) }
pub open spec fn enc_list(fs: Seq<FrameB>) -> Seq<u8>
    decreases fs.len()
{ if fs.len() == 0 { Seq::empty() } else { enc_frame(fs[0]) + t_list_ok() + enc_list(fs.skip(1)) } }

/// the current frame after feeding frame f to a state whose current frame is empty is f itself
pub proof fn lemma_fed_frame_cur(st: StateB, f: FrameB)
    requires cur(st) == empty_frame()
    ensures cur(fed_frame(st, f)) == f,
        st is List ==> fed_frame(st, f) is List && fed_frame(st, f)->List_1 == st->List_1,
        !(st is List) ==> !(fed_frame(st, f) is List),
{
    lemma_add_fields_all(empty_frame(), f.fields);
    assert(empty_frame().fields + f.fields =~= f.fields);
}

pub open spec fn done_of(st: StateB) -> Seq<FrameB> { match st { StateB::List(_, d) => d, _ => Seq::empty() } }

/// frames each followed by list_OK, starting either from Initial or from inside a list with an empty current frame
pub proof fn lemma_fold_list(st: StateB, fs: Seq<FrameB>, rest: Seq<u8>)
    requires frames_ok(fs), fs.len() >= 1, st == StateB::Initial || (st is List && cur(st) == empty_frame())
    ensures spec_fold(st, enc_list(fs) + rest) == spec_fold(StateB::List(empty_frame(), done_of(st) + fs), rest)
    decreases fs.len()
{
    let f = fs[0]; let tl = fs.skip(1);
    let after = t_list_ok() + (enc_list(tl) + rest);
    assert(enc_list(fs) + rest =~= enc_frame(f) + after);
    lemma_fold_frame(st, f, after);
    let st1 = fed_frame(st, f);
    lemma_fed_frame_cur(st, f);
    lemma_component_list_ok(enc_list(tl) + rest);
    assert(after.subrange(8, after.len() as int) =~= enc_list(tl) + rest);
    let st2 = step_eof_frame(st1);
    assert(st2 == StateB::List(empty_frame(), done_of(st).push(f))) by {
        if st is List { } else { assert(seq![f] =~= Seq::<FrameB>::empty().push(f)); }
    }
    assert(frames_ok(tl)) by { assert forall|i: int| 0 <= i < tl.len() implies frame_ok(#[trigger] tl[i]) by { assert(tl[i] == fs[i + 1]); } }
    if tl.len() == 0 {
        assert(enc_list(tl) + rest =~= rest);
        assert(done_of(st).push(f) =~= done_of(st) + fs);
    } else {
        lemma_fold_list(st2, tl, rest);
        assert(done_of(st).push(f) + tl =~= done_of(st) + fs);
    }
}

/// successful command list: every frame closed by list_OK, then OK  ->  exactly those frames
pub proof fn lemma_roundtrip_list(fs: Seq<FrameB>, rest: Seq<u8>)
    requires frames_ok(fs), fs.len() >= 1
    ensures spec_fold(StateB::Initial, enc_list(fs) + t_ok() + rest) == FoldB::Done(RespB { frames: fs, error: None }, rest)
{
    let tail = t_ok() + rest;
    assert(enc_list(fs) + t_ok() + rest =~= enc_list(fs) + tail);
    lemma_fold_list(StateB::Initial, fs, tail);
    lemma_component_ok(rest);
    assert(tail.subrange(3, tail.len() as int) =~= rest);
    assert(Seq::<FrameB>::empty() + fs =~= fs);
}

/// command list failing part-way: completed frames, optional partial output of the failing command, ACK
///   ->  exactly the completed frames and the error (the partial frame is dropped)
pub proof fn lemma_roundtrip_list_error(fs: Seq<FrameB>, partial: FrameB, e: ErrV, rest: Seq<u8>)
    requires frames_ok(fs), fs.len() >= 1, frame_ok(partial), e.code <= u64_max(), e.index <= u64_max(), cmd_ok(e.command), val_ok(e.message)
    ensures spec_fold(StateB::Initial, enc_list(fs) + enc_frame(partial) + enc_ack(e) + rest) == FoldB::Done(RespB { frames: fs, error: Some(e) }, rest)
{
    let tail = enc_frame(partial) + (enc_ack(e) + rest);
    assert(enc_list(fs) + enc_frame(partial) + enc_ack(e) + rest =~= enc_list(fs) + tail);
    lemma_fold_list(StateB::Initial, fs, tail);
    let st = StateB::List(empty_frame(), Seq::<FrameB>::empty() + fs);
    lemma_fold_frame(st, partial, enc_ack(e) + rest);
    lemma_fed_frame_cur(st, partial);
    lemma_fold_ack(fed_frame(st, partial), e, rest);
    assert(Seq::<FrameB>::empty() + fs =~= fs);
}


} // verus!

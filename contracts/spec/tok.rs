//! MPD request tokenizer (DESIGN §8.2): spec port of Tokenizer::NextWord / NextParam / NextString / NextUnquoted + StripLeft
//! over a NUL-free, LF-free line of chars, what the client renders, and the round-trip lemmas per argument class.
//! Pure specification + proofs (transcribed from MPD's src/util/Tokenizer.cxx from memory: oracle, not a proved artefact).
#[allow(unused_imports)]
use vstd::prelude::*;
verus! {


pub open spec fn ws(c: char) -> bool { (c as u32) <= 0x20 }                       // IsWhitespaceOrNull on a NUL-free line
pub open spec fn special(c: char) -> bool { c == '\\' || c == '"' || c == '\'' }
pub open spec fn valid_unquoted(c: char) -> bool { (c as u32) > 0x20 && c != '"' && c != '\'' }

/// StripLeft: first index >= at that is not whitespace (or the end)
pub open spec fn strip_left(s: Seq<char>, at: int) -> int
    decreases s.len() - at
{
    if at < 0 || at >= s.len() { at } else if ws(s[at]) { strip_left(s, at + 1) } else { at }
}

pub enum Tok { Err, End, Word(Seq<char>, int) }       // Word(token, index where the next token starts)

/// Tokenizer::NextUnquoted from `at` (at < len, not at a blank)
pub open spec fn word_end(s: Seq<char>, i: int) -> Option<int>       // index of the terminating blank or len; None = invalid char met
    decreases s.len() - i
{
    if i < 0 || i >= s.len() { Some(i) } else if ws(s[i]) { Some(i) } else if !valid_unquoted(s[i]) { None } else { word_end(s, i + 1) }
}
pub open spec fn next_unquoted(s: Seq<char>, at: int) -> Tok {
    if !valid_unquoted(s[at]) { Tok::Err } else {
        match word_end(s, at + 1) {
            None => Tok::Err,
            Some(e) => Tok::Word(s.subrange(at, e), if e >= s.len() { e } else { strip_left(s, e + 1) }),
        }
    }
}

pub enum Scan { Unterminated, Closed(Seq<char>, int) }
pub open spec fn scan(s: Seq<char>, i: int, acc: Seq<char>) -> Scan
    decreases s.len() - i
{
    if i < 0 || i >= s.len() { Scan::Unterminated }
    else if s[i] == '"' { Scan::Closed(acc, i) }
    else if s[i] == '\\' { if i + 1 >= s.len() { Scan::Unterminated } else { scan(s, i + 2, acc.push(s[i + 1])) } }
    else { scan(s, i + 1, acc.push(s[i])) }
}
/// Tokenizer::NextString from `at` (s[at] == '"')
pub open spec fn next_string(s: Seq<char>, at: int) -> Tok {
    match scan(s, at + 1, Seq::empty()) {
        Scan::Unterminated => Tok::Err,
        Scan::Closed(t, q) => if q + 1 < s.len() && !ws(s[q + 1]) { Tok::Err } else { Tok::Word(t, strip_left(s, q + 1)) },
    }
}
pub open spec fn next_param(s: Seq<char>, at: int) -> Tok {
    if at >= s.len() { Tok::End } else if s[at] == '"' { next_string(s, at) } else { next_unquoted(s, at) }
}

/// all remaining parameters from `at`; None = the server rejects the line
pub open spec fn params(s: Seq<char>, at: int, fuel: nat) -> Option<Seq<Seq<char>>>
    decreases fuel
{
    if fuel == 0 { None } else {
        match next_param(s, at) {
            Tok::End => Some(Seq::empty()),
            Tok::Err => None,
            Tok::Word(t, nxt) => match params(s, nxt, (fuel - 1) as nat) { Some(r) => Some(seq![t] + r), None => None },
        }
    }
}

// ---------------- what the client renders ----------------
pub open spec fn esc(a: Seq<char>) -> Seq<char>
    decreases a.len()
{
    if a.len() == 0 { seq![] } else if special(a[0]) { seq!['\\', a[0]] + esc(a.skip(1)) } else { seq![a[0]] + esc(a.skip(1)) }
}
/// the argument must be sent in quotes: it is empty, or contains a character MPD treats as a separator (<= 0x20)
pub open spec fn needs_quotes(a: Seq<char>) -> bool { a.len() == 0 || exists|i: int| 0 <= i < a.len() && ws(#[trigger] a[i]) }
pub open spec fn render(a: Seq<char>) -> Seq<char> { if needs_quotes(a) { seq!['"'] + esc(a) + seq!['"'] } else { esc(a) } }

pub open spec fn plain(a: Seq<char>) -> bool { a.len() > 0 && forall|i: int| 0 <= i < a.len() ==> (#[trigger] a[i] as u32) > 0x20 && !special(a[i]) }
pub open spec fn blank(a: Seq<char>) -> bool { needs_quotes(a) }     // quoted form: anything goes inside the quotes (LF and NUL are rejected by validate_argument)

pub proof fn lemma_esc_plain(a: Seq<char>)
    requires forall|i: int| 0 <= i < a.len() ==> !special(#[trigger] a[i])
    ensures esc(a) == a
    decreases a.len()
{
    if a.len() > 0 {
        assert forall|i: int| 0 <= i < a.skip(1).len() implies !special(#[trigger] a.skip(1)[i]) by { assert(a.skip(1)[i] == a[i + 1]); }
        lemma_esc_plain(a.skip(1));
        assert(seq![a[0]] + a.skip(1) =~= a);
    }
}

pub proof fn lemma_word_end_block(s: Seq<char>, i: int, e: int)
    requires 0 <= i <= e <= s.len(), forall|k: int| i <= k < e ==> valid_unquoted(#[trigger] s[k]), e == s.len() || ws(s[e])
    ensures word_end(s, i) == Some(e)
    decreases e - i
{
    if i < e { lemma_word_end_block(s, i + 1, e); }
}

/// C06.rt.plain : an argument of the plain class is sent verbatim and NextUnquoted returns it;
/// the next token starts right after the single blank that follows (or at the end of the line)
pub proof fn lemma_param_plain(pre: Seq<char>, a: Seq<char>, post: Seq<char>)
    requires plain(a), post.len() == 0 || (post[0] == ' ' && post.len() >= 2 && !ws(post[1]))
    ensures next_param(pre + render(a) + post, pre.len() as int)
            == Tok::Word(a, (pre.len() + a.len() + if post.len() == 0 { 0int } else { 1 }) as int)
{
    assert(!needs_quotes(a)) by { if needs_quotes(a) { let i = choose|i: int| 0 <= i < a.len() && ws(#[trigger] a[i]); assert((a[i] as u32) > 0x20); } }
    lemma_esc_plain(a);
    let s = pre + a + post;
    let at = pre.len() as int;
    let e = at + a.len();
    assert forall|k: int| at <= k < e implies valid_unquoted(#[trigger] s[k]) by { assert(s[k] == a[k - at]); }
    assert(s[at] == a[0]);
    if post.len() > 0 { assert(s[e] == post[0]); assert(s[e + 1] == post[1]); }
    lemma_word_end_block(s, at + 1, e);
    assert(s.subrange(at, e) =~= a);
}

/// the spiked quoted-form lemma
pub proof fn lemma_scan_esc(pre: Seq<char>, a: Seq<char>, post: Seq<char>, acc: Seq<char>)
    ensures scan(pre + esc(a) + seq!['"'] + post, pre.len() as int, acc) == Scan::Closed(acc + a, (pre.len() + esc(a).len()) as int)
    decreases a.len()
{
    let s = pre + esc(a) + seq!['"'] + post;
    let i = pre.len() as int;
    if a.len() == 0 {
        assert(esc(a) =~= seq![]); assert(s[i] == '"'); assert(acc + a =~= acc);
    } else {
        let c = a[0]; let rest = a.skip(1);
        if special(c) {
            assert(esc(a) =~= seq!['\\', c] + esc(rest));
            let pre2 = pre + seq!['\\', c];
            assert(s =~= pre2 + esc(rest) + seq!['"'] + post);
            assert(s[i] == '\\'); assert(s[i + 1] == c);
            lemma_scan_esc(pre2, rest, post, acc.push(c));
            assert(acc.push(c) + rest =~= acc + a);
        } else {
            assert(esc(a) =~= seq![c] + esc(rest));
            let pre2 = pre + seq![c];
            assert(s =~= pre2 + esc(rest) + seq!['"'] + post);
            assert(s[i] == c);
            lemma_scan_esc(pre2, rest, post, acc.push(c));
            assert(acc.push(c) + rest =~= acc + a);
        }
    }
}

/// C06.rt.blank : an argument containing a blank or tab is sent quoted and NextString returns it exactly
pub proof fn lemma_param_blank(pre: Seq<char>, a: Seq<char>, post: Seq<char>)
    requires blank(a), post.len() == 0 || (post[0] == ' ' && post.len() >= 2 && !ws(post[1]))
    ensures next_param(pre + render(a) + post, pre.len() as int)
            == Tok::Word(a, (pre.len() + esc(a).len() + 2 + if post.len() == 0 { 0int } else { 1 }) as int)
{
    let s = pre + render(a) + post;
    let at = pre.len() as int;
    let pre2 = pre + seq!['"'];
    assert(s =~= pre2 + esc(a) + seq!['"'] + post);
    assert(s[at] == '"');
    lemma_scan_esc(pre2, a, post, Seq::empty());
    assert(Seq::<char>::empty() + a =~= a);
    let q = at + 1 + esc(a).len();
    assert(scan(s, at + 1, Seq::empty()) == Scan::Closed(a, q));
    if post.len() > 0 {
        assert(s[q + 1] == post[0]); assert(s[q + 2] == post[1]);
        assert(strip_left(s, q + 2) == q + 2);
        assert(strip_left(s, q + 1) == q + 2);
    } else {
        assert(s.len() == q + 1);
        assert(strip_left(s, q + 1) == q + 1);
    }
}


// ---------------- whole argument list ----------------
pub open spec fn good(a: Seq<char>) -> bool { plain(a) || blank(a) }
pub open spec fn all_good(xs: Seq<Seq<char>>) -> bool { forall|i: int| 0 <= i < xs.len() ==> good(#[trigger] xs[i]) }
/// r1 " " r2 " " ... rn   (no leading blank)
pub open spec fn joined(xs: Seq<Seq<char>>) -> Seq<char>
    decreases xs.len()
{
    if xs.len() == 0 { Seq::empty() } else if xs.len() == 1 { render(xs[0]) } else { render(xs[0]) + seq![' '] + joined(xs.skip(1)) }
}

pub proof fn lemma_render_head(a: Seq<char>)
    requires good(a)
    ensures render(a).len() >= 1, !ws(render(a)[0])
{
    if needs_quotes(a) { } else {
        assert(plain(a));
        lemma_esc_plain(a);
        assert((a[0] as u32) > 0x20);
    }
}

pub proof fn lemma_joined_head(xs: Seq<Seq<char>>)
    requires all_good(xs), xs.len() >= 1
    ensures joined(xs).len() >= 1, !ws(joined(xs)[0])
{
    lemma_render_head(xs[0]);
    if xs.len() > 1 { assert(joined(xs)[0] == render(xs[0])[0]); }
}

/// C06.rt.line (argument part): every accepted argument of the two proved classes comes back, in order, and nothing else
pub proof fn lemma_params_rt(pre: Seq<char>, xs: Seq<Seq<char>>)
    requires all_good(xs)
    ensures params(pre + joined(xs), pre.len() as int, (xs.len() + 1) as nat) == Some(xs)
    decreases xs.len()
{
    let s = pre + joined(xs);
    let at = pre.len() as int;
    if xs.len() == 0 {
        assert(s =~= pre);
    } else {
        let a = xs[0]; let tl = xs.skip(1);
        assert(all_good(tl)) by { assert forall|i: int| 0 <= i < tl.len() implies good(#[trigger] tl[i]) by { assert(tl[i] == xs[i + 1]); } }
        let post = if tl.len() == 0 { Seq::<char>::empty() } else { seq![' '] + joined(tl) };
        assert(s =~= pre + render(a) + post);
        if tl.len() > 0 { lemma_joined_head(tl); assert(post[1] == joined(tl)[0]); }
        if plain(a) {
            lemma_param_plain(pre, a, post);
            assert(!needs_quotes(a)) by { if needs_quotes(a) { let i = choose|i: int| 0 <= i < a.len() && ws(#[trigger] a[i]); assert((a[i] as u32) > 0x20); } }
            lemma_esc_plain(a);
            assert(render(a) == a);
        } else { lemma_param_blank(pre, a, post); assert(render(a).len() == esc(a).len() + 2); }
        let nxt = at + render(a).len() + if tl.len() == 0 { 0int } else { 1 };
        assert(next_param(s, at) == Tok::Word(a, nxt));
        if tl.len() == 0 {
            assert(nxt == s.len());
            assert(next_param(s, nxt) is End);
            assert(params(s, nxt, 1) == Some(Seq::<Seq<char>>::empty()));
            assert(params(s, at, 2) == Some(seq![a] + Seq::<Seq<char>>::empty()));
            assert(seq![a] + Seq::<Seq<char>>::empty() =~= xs);
        } else {
            let pre2 = pre + render(a) + seq![' '];
            assert(s =~= pre2 + joined(tl));
            assert(nxt == pre2.len());
            lemma_params_rt(pre2, tl);
            assert(params(s, nxt, (tl.len() + 1) as nat) == Some(tl));
            assert(seq![a] + tl =~= xs);
        }
    }
}

// ---------------- the known-finding classes are real: witnesses (by computation) ----------------
pub proof fn witness_unquoted_special()
    ensures next_param(esc(seq!['a', '\'', 'b']), 0) is Err        // a'b  ->  a\'b : "Invalid unquoted character"
{
    assert(esc(seq!['a', '\'', 'b']) =~= seq!['a', '\\', '\'', 'b']) by {
        reveal_with_fuel(esc, 4);
        assert(seq!['a', '\'', 'b'].skip(1) =~= seq!['\'', 'b']);
        assert(seq!['\'', 'b'].skip(1) =~= seq!['b']);
        assert(seq!['b'].skip(1) =~= Seq::<char>::empty());
    }
    reveal_with_fuel(word_end, 4);
}


// ---------------- esc computed front to back (the shape of the client's loop) ----------------
pub open spec fn esc_back(s: Seq<char>) -> Seq<char>
    decreases s.len()
{ if s.len() == 0 { seq![] } else { let p = esc_back(s.drop_last()); if special(s.last()) { p.push('\\').push(s.last()) } else { p.push(s.last()) } } }
pub proof fn lemma_esc_concat(a: Seq<char>, b: Seq<char>)
    ensures esc(a + b) == esc(a) + esc(b)
    decreases a.len()
{
    if a.len() == 0 { assert(a + b =~= b); assert(esc(a) =~= seq![]); assert(esc(a) + esc(b) =~= esc(b)); }
    else {
        assert((a + b).skip(1) =~= a.skip(1) + b); lemma_esc_concat(a.skip(1), b); assert((a + b)[0] == a[0]);
        if special(a[0]) { assert(esc(a + b) =~= seq!['\\', a[0]] + (esc(a.skip(1)) + esc(b))); assert(esc(a) + esc(b) =~= seq!['\\', a[0]] + esc(a.skip(1)) + esc(b)); }
        else { assert(esc(a + b) =~= seq![a[0]] + (esc(a.skip(1)) + esc(b))); assert(esc(a) + esc(b) =~= seq![a[0]] + esc(a.skip(1)) + esc(b)); }
    }
}
pub proof fn lemma_esc_back(s: Seq<char>)
    ensures esc_back(s) == esc(s)
    decreases s.len()
{
    reveal_with_fuel(esc, 3);
    if s.len() > 0 {
        lemma_esc_back(s.drop_last()); lemma_esc_concat(s.drop_last(), seq![s.last()]); assert(s.drop_last() + seq![s.last()] =~= s);
        assert(seq![s.last()].skip(1) =~= Seq::<char>::empty());
        if special(s.last()) { assert(esc(seq![s.last()]) =~= seq!['\\', s.last()]); assert(esc_back(s) =~= esc(s.drop_last()) + seq!['\\', s.last()]); }
        else { assert(esc(seq![s.last()]) =~= seq![s.last()]); assert(esc_back(s) =~= esc(s.drop_last()) + seq![s.last()]); }
    }
}

// ---------------- argument classes: a partition of what the builder accepts ----------------
/// what `Command::add_argument` accepts for a string argument: no LF, no NUL
pub open spec fn accepted(a: Seq<char>) -> bool { forall|i: int| 0 <= i < a.len() ==> #[trigger] a[i] != '\n' && a[i] != '\0' }
/// sent unquoted although it contains a quote or backslash (the class MPD's NextUnquoted rejects / reads differently)
pub open spec fn unquoted_special(a: Seq<char>) -> bool { !needs_quotes(a) && exists|i: int| 0 <= i < a.len() && special(#[trigger] a[i]) }

/// [C06.classes.exhaustive] every accepted argument lies in exactly one of the three classes
pub proof fn lemma_classes_exhaustive(a: Seq<char>)
    ensures plain(a) || blank(a) || unquoted_special(a)
{
    if !needs_quotes(a) && !unquoted_special(a) {
        assert forall|i: int| 0 <= i < a.len() implies (#[trigger] a[i] as u32) > 0x20 && !special(a[i]) by {
            if !((a[i] as u32) > 0x20) { assert(ws(a[i])); }
        }
    }
}

// ---------------- the command word ----------------
pub open spec fn word_first(c: char) -> bool { ('a' <= c <= 'z') || ('A' <= c <= 'Z') }
pub open spec fn word_char(c: char) -> bool { word_first(c) || ('0' <= c <= '9') || c == '_' }
pub open spec fn name_end(s: Seq<char>, i: int) -> Option<int>
    decreases s.len() - i
{
    if i < 0 || i >= s.len() { Some(i) } else if ws(s[i]) { Some(i) } else if !word_char(s[i]) { None } else { name_end(s, i + 1) }
}
/// Tokenizer::NextWord at the start of the line
pub open spec fn next_word(s: Seq<char>) -> Tok {
    if s.len() == 0 { Tok::End } else if !word_first(s[0]) { Tok::Err } else {
        match name_end(s, 1) {
            None => Tok::Err,
            Some(e) => Tok::Word(s.subrange(0, e), if e >= s.len() { e } else { strip_left(s, e + 1) }),
        }
    }
}
/// what MPD's command dispatcher sees: (command word, parameters); None = the line is rejected
pub open spec fn tokenize(s: Seq<char>, fuel: nat) -> Option<(Seq<char>, Seq<Seq<char>>)> {
    match next_word(s) {
        Tok::Word(w, nxt) => match params(s, nxt, fuel) { Some(ps) => Some((w, ps)), None => None },
        _ => None,
    }
}
/// names the command builder accepts AND MPD's NextWord accepts: ASCII letters and '_', first one a letter
pub open spec fn good_name(n: Seq<char>) -> bool {
    n.len() > 0 && word_first(n[0]) && forall|i: int| 0 <= i < n.len() ==> word_first(#[trigger] n[i]) || n[i] == '_'
}
/// the line the client writes (without the terminating LF): name, then a blank before every rendered argument
pub open spec fn line_of(n: Seq<char>, xs: Seq<Seq<char>>) -> Seq<char> {
    if xs.len() == 0 { n } else { n + seq![' '] + joined(xs) }
}
proof fn lemma_name_end_block(s: Seq<char>, i: int, e: int)
    requires 0 <= i <= e <= s.len(), forall|k: int| i <= k < e ==> word_char(#[trigger] s[k]), e == s.len() || ws(s[e])
    ensures name_end(s, i) == Some(e)
    decreases e - i
{
    if i < e { lemma_name_end_block(s, i + 1, e); }
}

/// [THEOREM C06] for every accepted command name and every list of arguments of the two round-tripping classes, MPD's
/// tokenizer splits the line into exactly that name and exactly those arguments
pub proof fn theorem_line_roundtrip(n: Seq<char>, xs: Seq<Seq<char>>)
    requires good_name(n), all_good(xs)
    ensures tokenize(line_of(n, xs), (xs.len() + 1) as nat) == Some((n, xs))
{
    let s = line_of(n, xs);
    let e = n.len() as int;
    assert forall|k: int| 1 <= k < e implies word_char(#[trigger] s[k]) by { assert(s[k] == n[k]); }
    assert(s[0] == n[0]);
    if xs.len() == 0 {
        lemma_name_end_block(s, 1, e);
        assert(s.subrange(0, e) =~= n);
        assert(params(s, e, 1) == Some(Seq::<Seq<char>>::empty()));
    } else {
        lemma_joined_head(xs);
        assert(s[e] == ' ');
        assert(s[e + 1] == joined(xs)[0]);
        lemma_name_end_block(s, 1, e);
        assert(s.subrange(0, e) =~= n);
        assert(strip_left(s, e + 1) == e + 1);
        let pre = n + seq![' '];
        assert(s =~= pre + joined(xs));
        lemma_params_rt(pre, xs);
    }
}

// ---------------- bytes on the wire ----------------
pub open spec fn sbytes(s: Seq<char>) -> Seq<u8> { vstd::utf8::encode_utf8(s) }
/// bytes the builder produces: name, then for every argument one 0x20 and the rendered argument
pub open spec fn line_bytes(n: Seq<char>, xs: Seq<Seq<char>>) -> Seq<u8>
    decreases xs.len()
{
    if xs.len() == 0 { sbytes(n) } else { line_bytes(n, xs.drop_last()) + seq![0x20u8] + sbytes(render(xs.last())) }
}
pub open spec fn joined_back(xs: Seq<Seq<char>>) -> Seq<char>
    decreases xs.len()
{
    if xs.len() == 0 { Seq::empty() } else if xs.len() == 1 { render(xs[0]) } else { joined_back(xs.drop_last()) + seq![' '] + render(xs.last()) }
}
proof fn lemma_joined_back(xs: Seq<Seq<char>>)
    ensures joined_back(xs) == joined(xs)
    decreases xs.len()
{
    if xs.len() >= 2 {
        let tl = xs.skip(1);
        lemma_joined_back(xs.drop_last());
        lemma_joined_back(tl);
        if xs.len() == 2 {
            assert(xs.drop_last() =~= seq![xs[0]]);
            assert(tl =~= seq![xs[1]]);
        } else {
            lemma_joined_back(tl.drop_last());
            assert(xs.drop_last().skip(1) =~= tl.drop_last());
            assert(xs.drop_last()[0] == xs[0]);
            assert(tl.last() == xs.last());
            assert(joined(xs.drop_last()) == render(xs[0]) + seq![' '] + joined(xs.drop_last().skip(1)));
            assert(joined(xs) =~= render(xs[0]) + seq![' '] + (joined_back(tl.drop_last()) + seq![' '] + render(tl.last())));
        }
    }
}
/// the byte string built argument by argument is the UTF-8 encoding of the char-level line
pub proof fn lemma_line_bytes(n: Seq<char>, xs: Seq<Seq<char>>)
    ensures line_bytes(n, xs) == sbytes(line_of(n, xs))
    decreases xs.len()
{
    if xs.len() > 0 {
        let init = xs.drop_last();
        lemma_line_bytes(n, init);
        lemma_joined_back(xs); lemma_joined_back(init);
        vstd::utf8::is_ascii_chars_encode_utf8(seq![' ']);
        assert(sbytes(seq![' ']) =~= seq![0x20u8]);
        let r = render(xs.last());
        if init.len() == 0 {
            assert(xs =~= seq![xs.last()]);
            vstd::utf8::encode_utf8_concat(n, seq![' ']);
            vstd::utf8::encode_utf8_concat(n + seq![' '], r);
        } else {
            let l0 = line_of(n, init);
            vstd::utf8::encode_utf8_concat(l0, seq![' ']);
            vstd::utf8::encode_utf8_concat(l0 + seq![' '], r);
            assert(line_of(n, xs) =~= l0 + seq![' '] + r);
        }
    }
}
} // verus!

//! MPD session model as seen by the client (DESIGN §8.4): what the server still owes a reply to, the legality of the three
//! connection operations in each state (MPD's idle rules: while the server waits in `idle` the only thing that may be
//! written is `noidle`; `noidle` outside idle is ignored without a reply; every other request is answered exactly once, in
//! order), and the abstract event values. Pure definitions (oracle transcribed from the MPD protocol reference).
#[allow(unused_imports)]
use vstd::prelude::*;
use crate::tok::sbytes;
verus! {
pub enum Out { Nothing, Idle, Request }
/// `out`: what the server still owes a reply to; `dead`: a send/receive failed or the stream ended (nothing further counts)
pub struct Sess { pub out: Out, pub dead: bool }

pub open spec fn idle_bytes() -> Seq<u8> { sbytes("idle"@) }
pub open spec fn noidle_bytes() -> Seq<u8> { sbytes("noidle"@) }

/// a single command line may be written only when nothing is outstanding (and then it is not `noidle`, which MPD ignores
/// outside idle without a reply), or it is `noidle` while idle is pending
pub open spec fn legal_send(m: Sess, b: Seq<u8>) -> bool {
    m.dead || (b != noidle_bytes() && m.out is Nothing) || (b == noidle_bytes() && m.out is Idle)
}
/// `idle` makes the server wait; `noidle` leaves exactly one reply owed (the idle reply, spontaneous or provoked); any other
/// command is a request owed one reply
pub open spec fn step_send(m: Sess, b: Seq<u8>, ok: bool) -> Sess {
    if !ok { Sess { out: m.out, dead: true } } else if b == idle_bytes() { Sess { out: Out::Idle, dead: m.dead } }
    else if b == noidle_bytes() { m } else { Sess { out: Out::Request, dead: m.dead } }
}
/// a request (command list) may be written only when nothing is outstanding
pub open spec fn legal_send_list(m: Sess) -> bool { m.dead || m.out is Nothing }
pub open spec fn step_send_list(m: Sess, ok: bool) -> Sess { if ok { Sess { out: Out::Request, dead: m.dead } } else { Sess { out: m.out, dead: true } } }
/// a reply may be awaited only when one is owed
pub open spec fn legal_receive(m: Sess) -> bool { m.dead || !(m.out is Nothing) }
/// a complete response settles what was owed; a clean end or an error kills the session
pub open spec fn step_receive(m: Sess, got: bool) -> Sess { if got { Sess { out: Out::Nothing, dead: m.dead } } else { Sess { out: m.out, dead: true } } }

/// abstract connection events
pub enum EvV { Change(Seq<char>), Closed }

/// the two command words are different byte strings (so `noidle` is never mistaken for `idle`)
pub proof fn lemma_idle_noidle_differ()
    ensures idle_bytes() != noidle_bytes(), idle_bytes().len() == 4, noidle_bytes().len() == 6
{
    reveal_strlit("idle"); reveal_strlit("noidle");
    assert("idle"@.len() == 4); assert("noidle"@.len() == 6);
    assert forall|j: int| 0 <= j < "idle"@.len() implies (#[trigger] "idle"@[j] as u32) < 0x80 by {}
    assert forall|j: int| 0 <= j < "noidle"@.len() implies (#[trigger] "noidle"@[j] as u32) < 0x80 by {}
    vstd::utf8::is_ascii_chars_encode_utf8("idle"@);
    vstd::utf8::is_ascii_chars_encode_utf8("noidle"@);
}
} // verus!

//! Lemmas about `spec_fold` (DESIGN §8.1): well-formedness of component results, fold extension (the engine of
//! segmentation independence, C02), stability of decided results, and the EOF "cut" facts (C10).
#[allow(unused_imports)]
use vstd::prelude::*;
use crate::wire::*;
verus! {

pub open spec fn step_field(st: StateB, k: Seq<u8>, v: Seq<u8>) -> StateB { with_cur(st, add_field(cur(st), k, v)) }
pub open spec fn step_binary(st: StateB, p: Seq<u8>) -> StateB { with_cur(st, set_binary(cur(st), p)) }

pub open spec fn comp_wf(i: Seq<u8>) -> bool {
    match spec_component(i) {
        PR::Good(c, used) => 0 < used <= i.len() && (match c { Comp::Binary(n) => n + 1 <= used, _ => true }),
        _ => true,
    }
}

proof fn lemma_error_tail_bounds(s: Seq<u8>, at: int, code: nat, index: nat)
    requires 0 <= at <= s.len()
    ensures p_error_tail(s, at, code, index) matches PR::Good(_, n) ==> at < n <= s.len()
{
    lemma_run_end_props(s, at, |b: u8| is_cmd_byte(b));
    match run_end(s, at, |b: u8| is_cmd_byte(b)) {
        None => {}
        Some(ce) => {
            lemma_prim_bounds(s, ce);
            match p_chr(s, ce, 0x7D) { PR::Good(_, a1) => {
                lemma_prim_bounds(s, a1);
                match p_chr(s, a1, 0x20) { PR::Good(_, a2) => {
                    lemma_run_end_props(s, a2, |b: u8| not_lf(b));
                } _ => {} }
            } _ => {} }
        }
    }
}

proof fn lemma_error_bounds(s: Seq<u8>)
    ensures p_error(s) matches PR::Good(_, n) ==> 0 < n <= s.len()
{
    lemma_prim_bounds(s, 0);
    match p_tag(s, 0, t_ack()) { PR::Good(_, a0) => { lemma_prim_bounds(s, a0);
    match p_chr(s, a0, 0x5B) { PR::Good(_, a1) => { lemma_number_bounds(s, a1, u64_max());
    match p_number(s, a1, u64_max()) { PR::Good(code, a2) => { lemma_prim_bounds(s, a2);
    match p_chr(s, a2, 0x40) { PR::Good(_, a3) => { lemma_number_bounds(s, a3, u64_max());
    match p_number(s, a3, u64_max()) { PR::Good(index, a4) => { lemma_prim_bounds(s, a4);
    match p_chr(s, a4, 0x5D) { PR::Good(_, a5) => { lemma_prim_bounds(s, a5);
    match p_chr(s, a5, 0x20) { PR::Good(_, a6) => { lemma_prim_bounds(s, a6);
    match p_chr(s, a6, 0x7B) { PR::Good(_, a7) => { lemma_error_tail_bounds(s, a7, code, index); }
    _ => {} } } _ => {} } } _ => {} } } _ => {} } } _ => {} } } _ => {} } } _ => {} } } _ => {} }
}

proof fn lemma_binary_bounds(s: Seq<u8>)
    ensures p_binary(s) matches BR::Good(l, n) ==> 0 < n <= s.len() && l + 1 <= n
{
    lemma_prim_bounds(s, 0);
    match p_tag(s, 0, t_binary()) { PR::Good(_, a0) => { lemma_number_bounds(s, a0, u64_max());
    match p_number(s, a0, u64_max()) { PR::Good(len, a1) => { lemma_prim_bounds(s, a1); }
    _ => {} } } _ => {} }
}

proof fn lemma_field_bounds(s: Seq<u8>)
    ensures p_field(s) matches PR::Good(_, n) ==> 0 < n <= s.len()
{
    lemma_run_end_props(s, 0, |b: u8| is_key_byte(b));
    match run_end(s, 0, |b: u8| is_key_byte(b)) {
        Some(ke) => { if ke != 0 { lemma_prim_bounds(s, ke);
            match p_tag(s, ke, t_colon_sp()) { PR::Good(_, a1) => { lemma_run_end_props(s, a1, |b: u8| not_lf(b)); } _ => {} } } }
        None => {}
    }
}

/// [lemma] every successful component consumes at least one byte, stays inside the input, and a binary
/// component's payload (n bytes + LF) lies inside what it consumed
pub broadcast proof fn lemma_component_wf(i: Seq<u8>)
    ensures #[trigger] comp_wf(i)
{
    reveal(spec_component);
    lemma_prim_bounds(i, 0);
    lemma_error_bounds(i);
    lemma_binary_bounds(i);
    lemma_field_bounds(i);
}

/// the key of a parsed field is a non-empty run of key bytes (ASCII letters, `_`, `-`): the class `key_value_field` takes
pub proof fn lemma_component_field_key(i: Seq<u8>)
    ensures spec_component(i) matches PR::Good(Comp::Field(k, v), n) ==> k.len() > 0 && all_bytes(k, |b: u8| is_key_byte(b))
{
    reveal(spec_component);
    lemma_prim_bounds(i, 0);
    lemma_run_end_props(i, 0, |b: u8| is_key_byte(b));
    match run_end(i, 0, |b: u8| is_key_byte(b)) {
        Some(ke) => {
            let k = i.subrange(0, ke);
            assert forall|j: int| 0 <= j < k.len() implies is_key_byte(#[trigger] k[j]) by { assert(k[j] == i[j]); }
        }
        None => {}
    }
}

/// a successful greeting lies inside the input
pub proof fn lemma_greeting_bounds(i: Seq<u8>)
    ensures spec_greeting(i) matches PR::Good(v, n) ==> 0 < n <= i.len()
{
    lemma_prim_bounds(i, 0);
    match p_tag(i, 0, t_greet()) { PR::Good(_, a0) => { lemma_run_end_props(i, a0, |b: u8| not_lf(b)); } _ => {} }
}

/// [lemma fold_ext] If folding p stops for lack of input at (st2, rest), then folding p + c is folding rest + c from st2.
pub proof fn lemma_fold_ext(st: StateB, p: Seq<u8>, c: Seq<u8>)
    requires spec_fold(st, p) is More
    ensures spec_fold(st, p + c) == spec_fold(spec_fold(st, p)->More_0, spec_fold(st, p)->More_1 + c)
    decreases p.len()
{
    if p.len() == 0 {
        assert(p + c =~= spec_fold(st, p)->More_1 + c);
    } else {
        lemma_component_mono(p, c); lemma_component_wf(p); lemma_component_wf(p + c);
        match spec_component(p) {
            PR::Inc => { }
            PR::Bad => { }
            PR::Good(cv, used) => {
                let tail = p.subrange(used, p.len() as int);
                assert((p + c).subrange(used, (p + c).len() as int) =~= tail + c);
                match cv { Comp::Binary(n) => { assert(payload_of(p + c, used, n) =~= payload_of(p, used, n)); } _ => {} }
                match spec_step(st, cv, p, used) {
                    StepB::Resp(r) => { }
                    StepB::St(st2) => { lemma_fold_ext(st2, tail, c); }
                }
            }
        }
    }
}

/// [lemma fold_stable] Decided results are stable under extension.
pub proof fn lemma_fold_stable(st: StateB, p: Seq<u8>, c: Seq<u8>)
    ensures
        spec_fold(st, p) matches FoldB::Done(r, rest) ==> spec_fold(st, p + c) == FoldB::Done(r, rest + c),
        spec_fold(st, p) is Invalid ==> spec_fold(st, p + c) is Invalid,
    decreases p.len()
{
    if p.len() > 0 {
        lemma_component_mono(p, c); lemma_component_wf(p); lemma_component_wf(p + c);
        match spec_component(p) {
            PR::Good(cv, used) => {
                let tail = p.subrange(used, p.len() as int);
                assert((p + c).subrange(used, (p + c).len() as int) =~= tail + c);
                match cv { Comp::Binary(n) => { assert(payload_of(p + c, used, n) =~= payload_of(p, used, n)); } _ => {} }
                match spec_step(st, cv, p, used) {
                    StepB::Resp(r) => { }
                    StepB::St(st2) => { lemma_fold_stable(st2, tail, c); }
                }
            }
            _ => {}
        }
    }
}

/// the unconsumed rest is a suffix of the input
pub proof fn lemma_fold_rest(st: StateB, p: Seq<u8>)
    ensures
        spec_fold(st, p) matches FoldB::More(_, rest) ==> rest.len() <= p.len() && rest == p.subrange(p.len() - rest.len(), p.len() as int),
        spec_fold(st, p) matches FoldB::Done(_, rest) ==> rest.len() <= p.len() && rest == p.subrange(p.len() - rest.len(), p.len() as int),
    decreases p.len()
{
    if p.len() == 0 {
        assert(p =~= p.subrange(0, 0));
    } else {
        lemma_component_wf(p);
        match spec_component(p) {
            PR::Good(cv, used) => {
                let tail = p.subrange(used, p.len() as int);
                match spec_step(st, cv, p, used) {
                    StepB::Resp(r) => { assert(tail =~= p.subrange(p.len() - tail.len(), p.len() as int)); }
                    StepB::St(st2) => {
                        lemma_fold_rest(st2, tail);
                        match spec_fold(st2, tail) {
                            FoldB::More(_, rest) => { assert(rest =~= p.subrange(p.len() - rest.len(), p.len() as int)); }
                            FoldB::Done(_, rest) => { assert(rest =~= p.subrange(p.len() - rest.len(), p.len() as int)); }
                            _ => {}
                        }
                    }
                }
            }
            PR::Inc => { assert(p =~= p.subrange(0, p.len() as int)); }
            _ => {}
        }
    }
}

/// a state step never leads back to Initial
pub proof fn lemma_step_not_initial(st: StateB, c: Comp, s: Seq<u8>, used: int)
    ensures spec_step(st, c, s, used) matches StepB::St(st2) ==> !(st2 is Initial)
{}

/// from a non-initial state the fold never comes back to Initial without finishing a response
pub proof fn lemma_fold_noninitial(st: StateB, s: Seq<u8>)
    requires !(st is Initial)
    ensures spec_fold(st, s) matches FoldB::More(st2, _) ==> !(st2 is Initial)
    decreases s.len()
{
    if s.len() > 0 {
        match spec_component(s) {
            PR::Good(cv, used) => { if 0 < used <= s.len() {
                match spec_step(st, cv, s, used) {
                    StepB::St(st2) => { lemma_step_not_initial(st, cv, s, used); lemma_fold_noninitial(st2, s.subrange(used, s.len() as int)); }
                    _ => {}
                } } }
            _ => {}
        }
    }
}

/// [lemma fold_initial] from Initial: if the fold is still Initial, nothing has been consumed
pub proof fn lemma_fold_initial(s: Seq<u8>)
    ensures spec_fold(StateB::Initial, s) matches FoldB::More(StateB::Initial, rest) ==> rest == s
{
    if s.len() > 0 {
        match spec_component(s) {
            PR::Good(cv, used) => { if 0 < used <= s.len() {
                match spec_step(StateB::Initial, cv, s, used) {
                    StepB::St(st2) => { lemma_step_not_initial(StateB::Initial, cv, s, used); lemma_fold_noninitial(st2, s.subrange(used, s.len() as int)); }
                    _ => {}
                } } }
            _ => {}
        }
    }
}

/// every response the fold completes has at least one frame or an error
pub proof fn lemma_fold_done_nonempty(st: StateB, s: Seq<u8>)
    requires (st matches StateB::List(_, d) ==> d.len() >= 1)
    ensures spec_fold(st, s) matches FoldB::Done(r, _) ==> r.frames.len() >= 1 || r.error is Some
    decreases s.len()
{
    if s.len() > 0 {
        match spec_component(s) {
            PR::Good(cv, used) => { if 0 < used <= s.len() {
                match spec_step(st, cv, s, used) {
                    StepB::St(st2) => { lemma_fold_done_nonempty(st2, s.subrange(used, s.len() as int)); }
                    StepB::Resp(r) => {}
                } } }
            _ => {}
        }
    }
}

/// one response parsed from the start of a stream
pub open spec fn spec_parse_one(s: Seq<u8>) -> FoldB { spec_fold(StateB::Initial, s) }

/// [lemma cut, general form] EOF classification used by C10: if after folding everything received the builder is
/// still Initial and nothing is pending, then *no byte at all* was received since the last response boundary.
pub proof fn lemma_clean_eof_means_boundary(s: Seq<u8>)
    ensures spec_parse_one(s) == FoldB::More(StateB::Initial, Seq::<u8>::empty()) ==> s.len() == 0
{
    lemma_fold_initial(s);
}


/// abstract outcome of one `receive` call
pub enum Outcome { Resp(RespB), Closed, Invalid, UnexpectedEof, IoError }

/// THE postcondition shared by the blocking and the asynchronous `receive` (C02 C03 C09 C10): `s` = bytes pending before
/// the call + bytes received during the call, `rest` = bytes pending after it, `eof` = the last read of the call
/// delivered 0 bytes.
pub open spec fn recv_ok(s: Seq<u8>, o: Outcome, rest: Seq<u8>, eof: bool) -> bool {
    match o {
        Outcome::Resp(r) => spec_parse_one(s) == FoldB::Done(r, rest),
        Outcome::Closed => eof && s.len() == 0,
        Outcome::Invalid => spec_parse_one(s) is Invalid,
        Outcome::UnexpectedEof => eof && (spec_parse_one(s) matches FoldB::More(st, r2) && (!(st is Initial) || r2.len() > 0)),
        Outcome::IoError => true,
    }
}

/// [THEOREM C02/C10] One byte stream, two segmentations. Run 1 has been handed the prefix of length n1 when its
/// `receive` returns, run 2 the prefix of length n2; end of stream is only ever observed after the whole stream was
/// delivered (reader hypothesis). Reader errors aside, both runs return the SAME outcome, and what is left for the
/// following calls (pending bytes + undelivered bytes) is the SAME byte string — so by induction the whole sequence of
/// results, including the terminal outcome, is independent of the segmentation; and since the blocking and the async
/// connection have this same postcondition, they agree with each other as well.
pub proof fn theorem_segmentation_independence(stream: Seq<u8>, n1: int, n2: int, o1: Outcome, o2: Outcome, rest1: Seq<u8>, rest2: Seq<u8>, eof1: bool, eof2: bool)
    requires
        0 <= n1 <= stream.len(), 0 <= n2 <= stream.len(),
        recv_ok(stream.subrange(0, n1), o1, rest1, eof1),
        recv_ok(stream.subrange(0, n2), o2, rest2, eof2),
        eof1 ==> n1 == stream.len(), eof2 ==> n2 == stream.len(),
        !(o1 is IoError), !(o2 is IoError),
    ensures
        o1 == o2,
        o1 is Resp ==> rest1 + stream.subrange(n1, stream.len() as int) == rest2 + stream.subrange(n2, stream.len() as int),
{
    let s1 = stream.subrange(0, n1); let t1 = stream.subrange(n1, stream.len() as int);
    let s2 = stream.subrange(0, n2); let t2 = stream.subrange(n2, stream.len() as int);
    assert(s1 + t1 =~= stream); assert(s2 + t2 =~= stream);
    lemma_fold_stable(StateB::Initial, s1, t1);
    lemma_fold_stable(StateB::Initial, s2, t2);
    if eof1 { assert(t1 =~= Seq::<u8>::empty()); assert(s1 =~= stream); }
    if eof2 { assert(t2 =~= Seq::<u8>::empty()); assert(s2 =~= stream); }
    // the four decided/undecided combinations
    match o1 {
        Outcome::Resp(_) | Outcome::Invalid => {
            // decided on a prefix: the full stream decides the same; run 2 either decided on a prefix too (same by stability)
            // or saw EOF with the whole stream in hand, where the fold is decided, contradicting Closed/UnexpectedEof
            match o2 {
                Outcome::Closed => { lemma_fold_initial(stream); }
                _ => {}
            }
        }
        Outcome::Closed => {
            match o2 { Outcome::Closed => {} _ => { lemma_fold_initial(stream); } }
        }
        Outcome::UnexpectedEof => {
            match o2 { Outcome::Closed => { lemma_fold_initial(stream); } _ => {} }
        }
        Outcome::IoError => {}
    }
}
} // verus!

#!/bin/bash
# MANIFEST.setup_cmd — offline. (1) third-party rlibs (bytes, nom, tracing, ahash, tokio, chrono …) built with Verus's pinned
# toolchain into /verif/.deps; (2) the /repo-independent support crates (assumed contracts vx_base, proved vocabulary vx_spec,
# tokio stand-in) verified + exported into /verif/.cache; (3) the native build caches of the replay crate and the conformance
# harness warmed (third-party crates only matter; the repository crates are rebuilt from /repo's working tree by every check).
# The two repository crates are never cached: every check re-splices and re-verifies them from /repo's current working tree.
set -euo pipefail
cd "$(dirname "$0")"
export CARGO_NET_OFFLINE=true
V=/verif
S=$(mktemp -d /var/tmp/vx-setup.XXXXXX)
trap 'rm -rf "$S"' EXIT
rsync -a --exclude target --exclude .git /repo/ "$S/repo/"
( cd "$S/repo" && cargo +1.98.1 build --offline -p mpd_client --features chrono 2>&1 | tail -2 )
rm -rf "$V/.deps" && mkdir -p "$V/.deps" "$V/.cache"
cp "$S"/repo/target/debug/deps/*.rlib "$S"/repo/target/debug/deps/*.so "$V/.deps/" 2>/dev/null || true
rm -f "$V"/.deps/libmpd_protocol-* "$V"/.deps/libmpd_client-*
rm -rf "$S/repo/target"
python3 tools/runner.py --build-support
python3 - <<'PY'
import sys, os, tempfile, shutil
sys.path.insert(0, '/verif/tools')
import runner as R, replay as RP, conformance as CF
scratch = tempfile.mkdtemp(prefix='vx-warm-', dir='/var/tmp')
try:
    b, err = RP.build(scratch); print('replay crate:', 'ok' if b else 'FAILED ' + err[-300:])
    e, err = CF.build_conf(scratch); print('conformance harness:', 'ok' if e else 'FAILED ' + err[-300:])
finally:
    shutil.rmtree(scratch, ignore_errors=True)
PY
echo "setup ok"

#!/bin/bash
# MANIFEST.setup_cmd — offline. Builds the third-party rlibs (bytes, nom, tracing, ahash, tokio, chrono …) with
# Verus's pinned toolchain into /verif/.deps. The two repository crates are never cached: every check
# re-splices and re-verifies them from /repo's current working tree.
set -euo pipefail
cd "$(dirname "$0")"
export CARGO_NET_OFFLINE=true
V=/verif
S=$(mktemp -d /var/tmp/vx-setup.XXXXXX)
trap 'rm -rf "$S"' EXIT
rsync -a --exclude target --exclude .git /repo/ "$S/repo/"
( cd "$S/repo" && cargo +1.98.1 build --offline -p mpd_client --features chrono 2>&1 | tail -2 )
rm -rf "$V/.deps" && mkdir -p "$V/.deps"
cp "$S"/repo/target/debug/deps/*.rlib "$S"/repo/target/debug/deps/*.so "$V/.deps/" 2>/dev/null || true
rm -f "$V"/.deps/libmpd_protocol-* "$V"/.deps/libmpd_client-*
ls "$V/.deps" | wc -l
# replay crate (native, repository toolchain) is built on demand by the checks
echo "setup ok"

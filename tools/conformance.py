def run(prop, tier, seed, scratch, root):
    return {'function': 'parser::ParsedComponent::parse, parser::greeting', 'result': 'not-run (stand-in under construction)', 'cases': 0, 'label': 'bounded'}

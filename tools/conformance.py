"""Bounded stand-ins for the wire properties (never counted as proved):
 * conformance — the REAL nom parser vs. the Verus-verified reference parser on exhaustive small-scope inputs
   (stands in for the assumed contract `ParsedComponent::parse == spec_component`, `greeting == spec_greeting`);
 * search — random well-formed/mutated streams x segmentations x {blocking, async} against the oracle fold; also
   the source of replayable failing inputs when Verus reports a violation without a counterexample."""
import os, sys, json, re, shutil, fcntl, time, subprocess
import runner as R
import replay as RP

CONF_PROPS_REF_GOOD = ['C03']
_conf_built = {}


def build_conf(scratch):
    if scratch in _conf_built: return _conf_built[scratch]
    work = os.path.join(scratch, 'conf')
    os.makedirs(work, exist_ok=True)
    repo = os.path.join(work, 'repo')
    rc, out, err, _ = R.run(['rsync', '-a', '--delete', '--exclude', 'target', '--exclude', '.git', R.REPO + '/', repo + '/'])
    if rc != 0: raise R.Undecided('conformance: snapshot failed')
    shutil.copy(os.path.join(R.VERIF, 'conformance', 'vx_conf.rs'), os.path.join(repo, 'mpd_protocol', 'src', 'vx_conf.rs'))
    os.makedirs(os.path.join(repo, 'mpd_protocol', 'examples'), exist_ok=True)
    shutil.copy(os.path.join(R.VERIF, 'conformance', 'vx_conf_main.rs'), os.path.join(repo, 'mpd_protocol', 'examples', 'vx_conf_main.rs'))
    lib = os.path.join(repo, 'mpd_protocol', 'src', 'lib.rs')
    txt = open(lib).read()
    if not re.search(r'^mod parser;', txt, re.M):
        _conf_built[scratch] = (None, 'lost anchor: `mod parser;` not found in lib.rs')
        return _conf_built[scratch]
    txt = re.sub(r'^mod parser;', 'mod parser;\n#[doc(hidden)] pub mod vx_conf;', txt, count=1, flags=re.M)
    open(lib, 'w').write(txt)
    tgt = os.path.join(R.CACHE, 'conf-target')
    os.makedirs(R.CACHE, exist_ok=True)
    with open(os.path.join(R.CACHE, 'conf.lock'), 'w') as lk:
        fcntl.flock(lk, fcntl.LOCK_EX)
        rc, out, err, wall = R.run(['cargo', 'build', '--release', '--offline', '-p', 'mpd_protocol', '--example', 'vx_conf_main'], cwd=repo,
                                   env={'CARGO_TARGET_DIR': tgt, 'VX_REFPARSER_DIR': os.path.join(R.VERIF, 'replay', 'src')}, timeout=1800)
        if rc != 0:
            _conf_built[scratch] = (None, err[-2500:])
            return _conf_built[scratch]
        exe = os.path.join(work, 'vx_conf_main')
        shutil.copy(os.path.join(tgt, 'release', 'examples', 'vx_conf_main'), exe)
    _conf_built[scratch] = (exe, '')
    return _conf_built[scratch]


def props_of_disagreement(line):
    """line: '<component|greeting> <hex> ref=<X> real=<Y> | ...' -> properties whose assumed contract this refutes"""
    m = re.match(r'(\w+) (\w*) ref=(\w+) real=(\w+)', line)
    if not m: return ['C03']
    which, hx, ref, real = m.groups()
    if which == 'greeting':
        p = ['C18']
        if 'Inc' in (ref, real): p.append('C10')
        return p
    # C02 (segmentation independence) is a statement about TWO runs; a single-input disagreement with the grammar does not show it
    # (a parser that decides too early may decide the same way on every extension). C02 is attributed by `search`, which compares
    # the segmented with the unsegmented run of the same stream.
    if ref == 'Good': p = ['C03']                                            # a well-formed item is rejected / never completes / decoded differently
    elif ref == 'Bad': p = ['C09']                                           # a malformed item is accepted (fabricated data) or waits for more input
    else: p = ['C03']                                                        # decides on a proper prefix of an item
    return p


def run(prop, tier, seed, scratch, root):
    exe, err = build_conf(scratch)
    row = {'function': 'parser::ParsedComponent::parse (alt-glue of the proved sub-parsers: ASSUMED contract == spec_component) and the ASSUMED nom combinator contracts of the stand-in crate (vx_nom.rs), exercised through the real nom: parser::ParsedComponent::parse, parser::greeting',
           'engine': 'native exhaustive small-scope differential run against replay/src/refparser.rs (proved == spec by Verus, unit R)', 'label': 'bounded',
           'violations': []}
    if exe is None:
        row['undecided'] = 'conformance harness does not build against the current tree: ' + err[-400:]
        row['result'] = 'not-run'
        return row
    modes = ['corpus', 'alpha:6', 'bytes:3'] if tier != 'thorough' else ['corpus', 'alpha:7', 'bytes:3']
    total = 0; nontriv = 0; dis = []; pan = []
    for m in modes:
        rc, out, e, wall = R.run([exe, m, '16'], timeout=3000)
        try:
            j = json.loads(out.strip().split('\n')[-1])
        except Exception:
            row['undecided'] = 'conformance harness crashed in mode %s: %s' % (m, (out + e)[-300:])
            return row
        total += j['cases']; nontriv += j['nontrivial']; dis += j['disagreements']; pan += j['panics']
    row['bound'] = 'all inputs of <= %s symbols over the 24-symbol class alphabet; all byte strings of length <= 3; 22 corpus lines with every prefix and every single-symbol deletion/insertion/substitution' % ('7' if tier == 'thorough' else '6')
    row['cases'] = total; row['distinct_nontrivial'] = nontriv
    row['result'] = 'agree' if not dis and not pan else 'DISAGREE'
    row['disagreements'] = dis[:10]; row['panics'] = pan[:10]
    for d in dis[:40]:
        ps = props_of_disagreement(d)
        if prop in ps:
            hx = d.split(' ')[1]
            which = d.split(' ')[0]
            stream = ('4f4b204d504420300a' + hx) if which == 'component' else hx     # "OK MPD 0\n" + input
            rr = RP.run_bin('stream_case', scratch, [stream, '-'])
            rr.pop('full_output', None)
            row['violations'].append({'props': ps, 'ob': 'C03.parser.conformance', 'fn': 'parser::' + ('ParsedComponent::parse' if which == 'component' else 'greeting'),
                                      'message': 'the real nom parser disagrees with the verified reference parser (assumed contract refuted)', 'where': 'mpd_protocol/src/parser.rs',
                                      'rendered': d, 'input': {'kind': which, 'hex': hx}, 'replayed': rr, 'replay_bin': 'stream_case', 'replay_args': [stream, '-']})
            break
    for d in pan[:5]:
        if prop == 'C09':
            hx = d.split(' ')[1]
            row['violations'].append({'props': ['C09'], 'ob': 'C09.parser.panic', 'fn': 'parser', 'message': 'the real nom parser panics', 'where': 'mpd_protocol/src/parser.rs',
                                      'rendered': d, 'input': {'hex': hx}})
            break
    return row


def search(prop, tier, seed, scratch, root, cases=None):
    """random differential search; returns (row, violations)"""
    n = cases or (4000 if tier != 'thorough' else 60000)
    rr = RP.run_bin('stream_search', scratch, [str(seed + 1), str(n)], timeout=1500)
    row = {'function': 'Connection::{connect,receive}, AsyncConnection::{connect,receive} end to end (incl. the nom parser)',
           'engine': 'native random differential search against the oracle fold (replay/src/bin/stream_search.rs)', 'label': 'bounded', 'cases': n, 'violations': []}
    if not rr.get('ran'):
        row['undecided'] = rr.get('reason', 'search did not run'); return row
    try:
        j = json.loads(rr.get('full_output', rr['output']).strip().split('\n')[-1])
    except Exception:
        # the search process died (abort / allocation failure / stack overflow inside the real code): find the case that kills it
        tr = RP.run_bin('stream_search', scratch, [str(seed + 1), str(n)], timeout=1500, env={'VX_TRACE': '1'})
        last = [l for l in tr.get('full_output', '').split('\n') if l.startswith('TRY ')]
        if not last:
            row['undecided'] = 'search output unreadable: ' + rr.get('output', '')[-200:] + rr.get('stderr', '')[-200:]; return row
        j = json.loads(last[-1][4:])
        j['props'] = ['C09']; j['crash'] = 'the process running the real code terminated abnormally (rc=%s): %s' % (tr.get('rc'), tr.get('stderr', '')[-300:])
        rr['fails'] = True
    if not rr['fails']:
        row['result'] = 'no deviation'; row['distinct_nontrivial'] = j.get('distinct_streams', 0)
        row['bound'] = '%d random streams (generator: frames, lists, ACKs, binary incl. > 4 KiB and, one payload in 24, 70-210 KiB so that the buffer grows past 128 KiB; truncation/corruption) x random segmentations, seed %d' % (n, seed + 1)
        return row
    row['result'] = 'DEVIATION'
    row['deviation'] = j
    stream, cuts = j['stream_hex'], j.get('cuts') or '-'
    rep = RP.run_bin('stream_case', scratch, [stream, cuts])
    rep.pop('full_output', None)
    j = {k: (v if len(str(v)) < 3000 else str(v)[:1500] + ' ... ' + str(v)[-1000:]) for k, v in j.items()}
    row['deviation'] = j
    row['violations'].append({'props': j.get('props', []), 'ob': 'wire.search', 'fn': 'Connection/AsyncConnection', 'message': 'real connection deviates from the oracle',
                              'where': 'mpd_protocol', 'rendered': json.dumps(j)[:3000], 'input': {'stream_hex': stream, 'cuts': cuts}, 'replayed': rep,
                              'replay_bin': 'stream_case', 'replay_args': [stream, cuts]})
    return row

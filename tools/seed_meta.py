#!/usr/bin/env python3
"""Writes seeded/<id>/meta.json from notes.txt / confirm.txt / checks.txt (what the change is, what it needs to manifest, what was run)."""
import os, json, re, sys
root = os.path.join(os.path.dirname(os.path.abspath(__file__)), '..', 'seeded')
for d in sorted(os.listdir(root)):
    p = os.path.join(root, d)
    if not os.path.isdir(p): continue
    rd = lambda f: open(os.path.join(p, f)).read().strip() if os.path.exists(os.path.join(p, f)) else ''
    notes = rd('notes.txt'); conf = rd('confirm.txt').split('|'); checks = rd('checks.txt')
    files = sorted(set(re.findall(r'^\+\+\+ b/(\S+)', rd('patch.diff'), re.M)))
    crate = 'mpd_client' if any(f.startswith('mpd_client/') for f in files) and d[:3] not in ('C02', 'C03', 'C09', 'C10', 'C06', 'C07') else 'mpd_protocol'
    if d in ('C01-2',): crate = 'mpd_client'
    meta = {
        'id': d, 'property': d.split('-')[0], 'files_changed': files,
        'origin': 'written by a fresh sub-agent that saw only the property text and a scratch worktree of /repo (nothing from /verif)',
        'what_and_needs_to_manifest': notes or 'see the header comment of demo.rs',
        'confirmed_by_me': {
            'how': 'tools/seed_confirm.sh: scratch worktree of /repo, git apply patch.diff, cargo test --workspace --offline (pinned suite), then demo.rs as an integration test of %s with and without the change' % crate,
            'pinned_suite_with_change': conf[0] if conf else '', 'demo_with_change': conf[1].strip() if len(conf) > 1 else '', 'demo_without_change': conf[2].strip() if len(conf) > 2 else ''},
        'framework_checks': {'how': 'tools/seed_run.sh %s <props>: patch applied to a scratch worktree, VERIF_REPO points the checks at it, change removed afterwards; exit codes 0 = held, 1 = VIOLATION, 2 = UNDECIDED' % d,
                             'exit_codes': dict(x.split('=') for x in checks.split()) if checks else {}},
    }
    json.dump(meta, open(os.path.join(p, 'meta.json'), 'w'), indent=1)
    print(d, meta['framework_checks']['exit_codes'])

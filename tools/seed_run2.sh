#!/bin/bash
# usage: seed_run2.sh <seeded-id> <prop> [<prop>...]
# Like seed_run.sh, but the checks run from a SNAPSHOT of the committed /verif (/var/tmp/verif-snap, a git worktree of /verif with
# hard-linked .deps/.cache), so that editing contracts in /verif while a run is in progress cannot disturb it. The patch is taken
# from /verif/seeded/<id>/ and the exit codes are written back there.
ID=$1; shift
SNAP=${SNAP:-/var/tmp/verif-snap}
WT=${SEED_WT:-/tmp/wt-seed}
[ -d $WT ] || git -C /repo worktree add -q --detach $WT HEAD
cd $WT && git checkout -q --detach $(git -C /repo rev-parse HEAD) && git checkout -q -- . && git clean -fdq
git apply /verif/seeded/$ID/patch.diff || { echo "$ID: patch does not apply"; exit 3; }
cd $SNAP
RES=""
for p in "$@"; do
  out=$(VERIF_REPO=$WT ./check $p 2>/dev/null); rc=$?
  RES="$RES $p=$rc"
  echo "$out" | grep -E "^VIOLATION|^UNDECIDED|^  obligation" | head -6 | cut -c1-260 | sed "s/^/   [$p] /"
done
cd $WT && git checkout -q -- . && git clean -fdq
echo "$ID:$RES"
echo "$RES" > /verif/seeded/$ID/checks.txt

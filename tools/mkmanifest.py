#!/usr/bin/env python3
"""(Re)generate /verif/MANIFEST.json from tools/props.py (claimed properties) + tools/na.py (not applicable / not yet claimed)."""
import json, os, sys
sys.path.insert(0, os.path.dirname(os.path.abspath(__file__)))
import props as P
V = os.path.dirname(os.path.dirname(os.path.abspath(__file__)))
props = [json.loads(l) for l in open(os.path.join(V, 'properties.jsonl'))]
claimed = sorted(P.PROPS.keys())
m = {"version": 1, "setup_cmd": "./setup.sh",
     "hooks": {"guard": "none (annotation is spliced into a scratch copy at check time; /repo carries no hooks)",
               "enable": "n/a: every check copies /repo's working tree to a scratch directory and lifts the real functions into verus!{} there (tools/splice.py)",
               "baseline_off_cmd": "cd /repo && cargo test --workspace --no-fail-fast --offline", "source_commits": [], "add_only": True},
     "engines": [{"name": "verus-in-place", "path": "tools/runner.py", "serves_properties": claimed,
                  "kind_free_text": "contract-based deductive verification (Verus 0.2026.09.13 / Z3) of the real functions, lifted in place by tools/splice.py with contracts from contracts/**/*.vspec; bounded stand-ins and native replay of witnesses in tools/standins.py, replay/"}],
     "checks": [], "not_applicable": [],
     "notes": "exit 0 = every obligation of the property discharged (listed known findings announced by KNOWN-FINDING lines); exit 1 = VIOLATION line; exit 2 = undecided (lost anchor, unsupported construct after an edit, solver resource limit) - never an alarm, never a pass. Fixes of genuine defects are the 'fix:' commits in /repo, recorded in known_findings.json."}
for p in props:
    pid = p['id']
    if pid in P.PROPS:
        c = P.PROPS[pid]
        m['checks'].append({
            "property_id": pid, "quick_cmd": "./check %s --tier quick" % pid, "thorough_cmd": "./check %s --tier thorough" % pid,
            "evidence_file": "evidence/%s.json" % pid, "replay_cmd_template": "./check %s --replay {path}" % pid, "engine": "verus-in-place",
            "level_claimed": {"category": c.get('category', 'proof'),
                              "text": c.get('level_text', "Verus discharges, for all inputs and all iterations, the contracts spliced onto the real functions this property depends on (evidence: functions_under_contract, lemmas); what is not proved is listed as assumed contracts / bounded stand-ins"),
                              "design_ref": "DESIGN.md §9 " + pid},
            "level_note": c.get('level_note', "trusted: Verus+Z3; assumed contracts on bytes/std/tokio/nom listed in evidence.coverage.trusted_base; normalisation rules N1-N18 (DESIGN §3)"),
            "technique": c.get('technique', "contract-based deductive verification (Verus) of the real code, spliced in place")})
    else:
        import na
        m['not_applicable'].append({"property_id": pid, "reason": na.REASONS.get(pid, "check under construction in this build round (planned: Verus contracts per DESIGN §9); not claimed until its unit verifies end to end")})
json.dump(m, open(os.path.join(V, 'MANIFEST.json'), 'w'), indent=1)
print('claimed:', claimed)

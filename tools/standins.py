"""Bounded stand-ins and extra engines (never counted as proved). Each returns a row for the evidence file:
{name, function, bound, engine, cases, result, wall_s, violations:[...], undecided: str|None}"""
import os, sys, json, time
import runner as R


def run(name, prop, tier, seed, scratch, root):
    fn = globals().get('standin_' + name)
    if fn is None:
        return {'name': name, 'result': 'not-implemented', 'cases': 0}
    t0 = time.time()
    row = fn(prop, tier, seed, scratch, root)
    row['name'] = name
    row['wall_s'] = round(time.time() - t0, 2)
    return row


def standin_conformance(prop, tier, seed, scratch, root):
    import conformance
    return conformance.run(prop, tier, seed, scratch, root)


def standin_search(prop, tier, seed, scratch, root):
    import conformance
    return conformance.search(prop, tier, seed, scratch, root)

"""Bounded stand-ins and extra engines (never counted as proved). Each returns a row for the evidence file:
{name, function, bound, engine, cases, result, wall_s, violations:[...], undecided: str|None}"""
import os, sys, json, time
import runner as R


def run(name, prop, tier, seed, scratch, root):
    fn = globals().get('standin_' + name)
    if fn is None:
        return {'name': name, 'result': 'not-implemented', 'cases': 0}
    t0 = time.time()
    row = fn(prop, tier, seed, scratch, root)
    row['name'] = name
    row['wall_s'] = round(time.time() - t0, 2)
    return row


def standin_conformance(prop, tier, seed, scratch, root):
    import conformance
    return conformance.run(prop, tier, seed, scratch, root)


def standin_search(prop, tier, seed, scratch, root):
    import conformance
    return conformance.search(prop, tier, seed, scratch, root)


def standin_cmdsearch(prop, tier, seed, scratch, root):
    """random differential search over the command builder (names/arguments/lists) against the oracle port of MPD's tokenizer"""
    import replay as RP, json
    n = 20000 if tier != 'thorough' else 400000
    rr = RP.run_bin('cmd_search', scratch, [str(seed + 1), str(n)], timeout=1500)
    row = {'function': 'Command::{build,add_argument}, escape_argument, CommandList::render, Connection::{send,send_list} end to end',
           'engine': 'native random differential search against the oracle port of MPD Tokenizer (replay/src/bin/cmd_search.rs, replay/src/mpdtok.rs)',
           'label': 'bounded', 'cases': n, 'violations': []}
    if not rr.get('ran'):
        row['undecided'] = rr.get('reason', 'search did not run'); return row
    try:
        j = json.loads(rr.get('full_output', rr['output']).strip().split('\n')[-1])
    except Exception:
        row['undecided'] = 'search output unreadable: ' + rr.get('output', '')[-300:]; return row
    if not rr['fails']:
        row['result'] = 'no deviation'; row['distinct_nontrivial'] = j.get('distinct', 0)
        row['bound'] = '%d random (name, arguments) cases over a 20-char alphabet incl. quotes, backslash, blanks, controls, NUL, LF, non-ASCII; every 5th also as a command list; seed %d' % (n, seed + 1)
        return row
    row['result'] = 'DEVIATION'; row['deviation'] = j
    args = ['case', j['name_hex']] + list(j.get('args_hex', []))
    rep = RP.run_bin('cmd_search', scratch, args); rep.pop('full_output', None)
    row['violations'].append({'props': j.get('props', []), 'ob': 'command.search', 'fn': 'command builder', 'message': 'the real command builder deviates from the oracle: ' + j.get('why', ''),
                              'where': 'mpd_protocol/src/command.rs', 'rendered': json.dumps(j)[:3000], 'input': {'name_hex': j['name_hex'], 'args_hex': j.get('args_hex')},
                              'replayed': rep, 'replay_bin': 'cmd_search', 'replay_args': args})
    return row


def standin_literals(prop, tier, seed, scratch, root):
    """the two framing literals are constants: executing them once decides them completely"""
    import replay as RP
    rr = RP.run_bin('cmd_search', scratch, ['literals'])
    row = {'function': 'COMMAND_LIST_BEGIN / COMMAND_LIST_END (byte-string literals; Verus gives literals no meaning: contract C13.literal.* is assumed)',
           'engine': 'execution of the constants through CommandList rendering (complete for a constant)', 'label': 'constant check', 'cases': 2, 'violations': []}
    if not rr.get('ran'):
        row['undecided'] = rr.get('reason', 'did not run'); return row
    row['result'] = 'match' if not rr['fails'] else 'MISMATCH'
    if rr['fails']:
        rr.pop('full_output', None)
        row['violations'].append({'props': ['C13', 'C07'], 'ob': 'C13.literal', 'fn': 'CommandList::render', 'message': 'command list framing literals differ from the protocol text',
                                  'where': 'mpd_protocol/src/command.rs', 'rendered': rr.get('output', ''), 'input': {'list': ['foo', 'bar x']}, 'replayed': rr,
                                  'replay_bin': 'cmd_search', 'replay_args': ['literals']})
    return row


def standin_frameops(prop, tier, seed, scratch, root):
    """exhaustive small-scope differential check of Frame::{get,find} (assumed contracts) and the frame iterators against a Vec model"""
    import replay as RP, json
    rr = RP.run_bin('frame_ops', scratch, [], timeout=600)
    row = {'function': 'Frame::get (iter_mut + mutating closure: ASSUMED contract C19.get); cross-check of Frame::find (proved modulo std find_map) and of fields/fields_len/is_empty/into_iter and the Response iterators',
           'engine': 'native exhaustive small-scope differential run against a Vec model (replay/src/bin/frame_ops.rs)', 'label': 'bounded',
           'bound': 'all frames of <= 4 fields over keys {a, A, b} x all sequences of <= 3 get operations over those keys; after every operation find for every key, forward/backward/mixed/owned iteration, fields_len, is_empty; then all responses of <= 4 frames with/without a trailing error: frames() / into_iter() forward, backward and every front/back split, successful_frames, is_error, into_single_frame',
           'violations': []}
    if not rr.get('ran'):
        row['undecided'] = rr.get('reason', 'did not run'); return row
    try:
        j = json.loads(rr.get('full_output', rr['output']).strip().split('\n')[-1])
    except Exception:
        row['undecided'] = 'output unreadable: ' + rr.get('output', '')[-300:]; return row
    if not rr['fails']:
        row['result'] = 'agree'; row['cases'] = j.get('cases', 0); row['distinct_nontrivial'] = j.get('cases', 0); row['exhaustive'] = True
        return row
    row['result'] = 'DEVIATION'; row['deviation'] = j
    args = ['case', j['fields'], j['ops']]
    rep = RP.run_bin('frame_ops', scratch, args); rep.pop('full_output', None)
    row['violations'].append({'props': ['C19'], 'ob': 'C19.frame.model', 'fn': 'Frame', 'message': ('Response deviates from the model `frames in order, then the error`: ' if j['fields'].startswith('r') else 'Frame deviates from the ordered multimap model: ') + j.get('why', ''),
                              'where': 'mpd_protocol/src/response/frame.rs', 'rendered': json.dumps(j), 'input': {'fields': j['fields'], 'ops': j['ops']},
                              'replayed': rep, 'replay_bin': 'frame_ops', 'replay_args': args})
    return row


def standin_clientsim(prop, tier, seed, scratch, root):
    """randomised simulation of the real client against a model MPD server (schedules x notifications x chunking x faults)"""
    import replay as RP, json
    from concurrent.futures import ThreadPoolExecutor
    per = 3000 if tier != 'thorough' else 60000
    workers = 8
    base = 1 + max(seed, 0) * 10_000_000
    row = {'function': 'run_loop, run_loop_iteration, handle_command, handle_idle_response, Client::{connect*, raw_command, raw_command_list, album_art, is_connection_closed}, ConnectionEvents::next end to end over AsyncConnection',
           'engine': 'native randomised simulation: the real client over tokio::io::duplex against a model of MPD (idle rules, one reply per request in order), virtual time, single-threaded runtime (replay/src/bin/client_sim.rs)',
           'label': 'bounded', 'cases': per * workers, 'violations': []}
    def one(k):
        return RP.run_bin('client_sim', scratch, ['search', str(base + k * per), str(per)], timeout=3000)
    RP.build(scratch)
    with ThreadPoolExecutor(workers) as ex:
        rs = list(ex.map(one, range(workers)))
    if not all(r.get('ran') for r in rs):
        row['undecided'] = next(r for r in rs if not r.get('ran')).get('reason', 'simulation did not run'); return row
    bad = [r for r in rs if r['fails']]
    row['bound'] = ('%d scenarios (seeds %d..%d): 0-3 concurrent callers x <=4 requests each (single / list, failing at any index, with partial output, binary payloads), caller cancellation, '
                    '<=4 notification bursts of <=3 names, reply delays around the 100 ms re-idle window, reply chunking 1..7 bytes, faults (cut at any byte, close, garbage, ACK to idle), one scenario in six over a transport whose client-to-server direction holds 3 bytes with a server that does not read for 30 / 150 / 400 ms after a reply (writes stall mid-line), password handshakes, album art loads (embedded / cover file / readpicture unknown / neither / other error; sizes 0..20000, chunk limits 1..8192, with and without MIME type); '
                    'idle replies are written atomically whenever requests exist (the split case is known finding C04.cancel_safe)' % (per * workers, base, base + per * workers - 1))
    if not bad:
        js = [json.loads(r.get('full_output', r['output']).strip().split('\n')[-1]) for r in rs]
        row['result'] = 'no violation'; row['distinct_nontrivial'] = sum(j.get('with_requests', 0) for j in js); row['with_fault'] = sum(j.get('with_fault', 0) for j in js)
        return row
    try:
        j = json.loads(bad[0].get('full_output', bad[0]['output']).strip().split('\n')[-1])
    except Exception:
        row['undecided'] = 'simulation output unreadable: ' + bad[0].get('output', '')[-300:] + bad[0].get('stderr', ''); return row
    row['result'] = 'VIOLATION'; row['deviation'] = j
    args = ['case', str(j['seed']), '20']
    rep = RP.run_bin('client_sim', scratch, args); rep.pop('full_output', None)
    row['violations'].append({'props': j.get('props', []), 'ob': 'client.sim', 'fn': 'client run loop', 'message': 'the real client violates the property in simulated scenario %d: %s' % (j['seed'], j.get('why', '')[:1500]),
                              'where': 'mpd_client/src/client/connection.rs', 'rendered': json.dumps(j)[:3000], 'input': {'scenario_seed': j['seed']},
                              'replayed': rep, 'replay_bin': 'client_sim', 'replay_args': args})
    return row


def standin_typedfuzz(prop, tier, seed, scratch, root):
    """random server replies through the real parser and every predefined command's typed conversion, under catch_unwind"""
    import replay as RP, json
    from concurrent.futures import ThreadPoolExecutor
    per = 1500 if tier != 'thorough' else 40000
    workers = 8
    row = {'function': 'Command::response of the 22 predefined reply kinds + tuple / Vec command lists, and the accessors of the returned values (responses/*.rs, commands/definitions.rs, commands/command_list.rs)',
           'engine': 'native random search: replies generated from MPD\'s field vocabulary + junk, pushed through the real Connection::receive and the typed conversion under catch_unwind (replay/src/bin/typed_case.rs)',
           'label': 'bounded', 'cases': per * workers, 'violations': []}
    RP.build(scratch)
    def one(k):
        return RP.run_bin('typed_case', scratch, ['fuzz', str(1 + max(seed, 0) * 1000 + k), str(per)], timeout=3000)
    with ThreadPoolExecutor(workers) as ex:
        rs = list(ex.map(one, range(workers)))
    if not all(r.get('ran') for r in rs):
        row['undecided'] = next(r for r in rs if not r.get('ran')).get('reason', 'fuzz did not run'); return row
    row['bound'] = '%d random replies x 24 reply kinds (seeds %d..%d): <= 4 frames, <= 8 fields each, names from the protocol vocabulary and junk (a third of the replies from a per-reply subset of 2..4 names, one in eight a grouped count / list shape over Album Artist songs playtime Title, so that repeated fields occur), values numeric / huge / negative / NaN / junk, optional binary' % (per * workers, 1 + max(seed, 0) * 1000, workers + max(seed, 0) * 1000)
    bad = [r for r in rs if r['fails']]
    if not bad:
        js = [json.loads(r.get('full_output', r['output']).strip().split('\n')[-1]) for r in rs]
        row['result'] = 'no panic'; row['distinct_nontrivial'] = sum(j.get('distinct', 0) for j in js)
        return row
    try:
        j = json.loads(bad[0].get('full_output', bad[0]['output']).strip().split('\n')[-1])
    except Exception:
        row['undecided'] = 'fuzz output unreadable: ' + bad[0].get('output', '')[-300:]; return row
    row['result'] = 'PANIC'; row['deviation'] = j
    args = ['case', j['kind'], j['reply_hex']]
    rep = RP.run_bin('typed_case', scratch, args); rep.pop('full_output', None)
    row['violations'].append({'props': ['C12'], 'ob': 'typed.fuzz', 'fn': 'typed conversion of ' + j['kind'], 'message': 'typed conversion panics on reply %r' % j.get('reply', ''),
                              'where': 'mpd_client/src/responses', 'rendered': json.dumps(j)[:3000], 'input': {'kind': j['kind'], 'reply_hex': j['reply_hex']},
                              'replayed': rep, 'replay_bin': 'typed_case', 'replay_args': args})
    return row


def standin_typeddiff(prop, tier, seed, scratch, root):
    """abstract reply -> MPD wire text -> real parser -> real typed decoder -> compared field by field with the abstract reply"""
    import replay as RP, json
    from concurrent.futures import ThreadPoolExecutor
    per = 4000 if tier != 'thorough' else 150000
    workers = 8
    base = 1 + max(seed, 0) * 10_000_000
    row = {'function': 'Command::response of status, stats, count (plain/grouped), list (plain, 1 and 2 grouping levels), listplaylists, sticker get/list/find, channels, readmessages, tagtypes, replay_gain_status, update, '
                       'playlistinfo, currentsong, listallinfo, find, listplaylistinfo (responses/*.rs, commands/definitions.rs)',
           'engine': 'native differential run: abstract reply generated, encoded as MPD writes it, decoded by the real code, compared with the abstract reply (replay/src/bin/typed_diff.rs)',
           'label': 'bounded', 'cases': per * workers * 9, 'violations': []}
    RP.build(scratch)
    def one(k):
        return RP.run_bin('typed_diff', scratch, ['search', str(base + k * per), str(per)], timeout=3000)
    with ThreadPoolExecutor(workers) as ex:
        rs = list(ex.map(one, range(workers)))
    if not all(r.get('ran') for r in rs):
        row['undecided'] = next(r for r in rs if not r.get('ran')).get('reason', 'did not run'); return row
    row['bound'] = ('%d seeds x 9 reply kinds (seeds %d..%d): status replies with ONE out-of-domain value (must be an error); every optional-field subset and field order permutation of status/stats, boundary numbers, all enum spellings, legacy time vs duration, '
                    'sticker values containing "=", grouped output with repeated and changing group keys, listings of <= 4 songs with <= 4 tag lines each, any attribute order, interleaved directory / playlist entries, '
                    'Time vs duration in either order; built WITHOUT the chrono feature' % (per * workers, base, base + per * workers - 1))
    bad = [r for r in rs if r['fails']]
    if not bad:
        row['result'] = 'agree'; row['distinct_nontrivial'] = per * workers * 9
        return row
    try:
        j = json.loads(bad[0].get('full_output', bad[0]['output']).strip().split('\n')[-1])
    except Exception:
        row['undecided'] = 'output unreadable: ' + bad[0].get('output', '')[-300:] + bad[0].get('stderr', ''); return row
    row['result'] = 'DEVIATION'; row['deviation'] = j
    args = ['case', j['kind'], str(j['seed'])]
    rep = RP.run_bin('typed_diff', scratch, args); rep.pop('full_output', None)
    row['violations'].append({'props': j.get('props', []), 'ob': 'typed.diff', 'fn': 'typed decoder of ' + j['kind'], 'message': 'the decoded value differs from what the server sent: ' + j.get('why', ''),
                              'where': 'mpd_client/src/responses', 'rendered': json.dumps(j)[:3000], 'input': {'kind': j['kind'], 'seed': j['seed'], 'reply': j.get('reply')},
                              'replayed': rep, 'replay_bin': 'typed_diff', 'replay_args': args})
    return row


def standin_listpair(prop, tier, seed, scratch, root):
    """probe commands through every tuple arity and Vec lengths 0..24 (the Vec impl is built from iterator adaptors Verus cannot specify)"""
    import replay as RP, json
    rr = RP.run_bin('list_pair', scratch, [], timeout=300)
    row = {'function': '<Vec<C> as CommandList>::{command_list, responses} (iterator adaptors map / zip / extend: not under contract); cross-check of the eight tuple impls',
           'engine': 'native run with probe commands whose reply identifies them (replay/src/bin/list_pair.rs); the impls are generic in the command type, so probes exercise every position',
           'label': 'bounded', 'bound': 'tuple arities 1..8 (exact and one frame short), Vec lengths 0..24 (exact, one short, one extra)', 'violations': []}
    if not rr.get('ran'):
        row['undecided'] = rr.get('reason', 'did not run'); return row
    if not rr['fails']:
        try: row['cases'] = json.loads(rr['output'].strip().split('\n')[-1]).get('cases', 0)
        except Exception: row['cases'] = 0
        row['result'] = 'agree'; row['distinct_nontrivial'] = row['cases']; row['exhaustive'] = True
        return row
    rr.pop('full_output', None)
    row['result'] = 'DEVIATION'
    row['violations'].append({'props': ['C13', 'C12'] if 'panic' in rr.get('output', '') or 'Err(Any' in rr.get('output', '') else ['C13'], 'ob': 'C13.pair.probe', 'fn': 'CommandList for Vec<C> / tuples',
                              'message': 'typed command list pairing deviates: ' + rr.get('output', '')[-400:], 'where': 'mpd_client/src/commands/command_list.rs', 'rendered': rr.get('output', ''),
                              'input': {'probe': 'see output'}, 'replayed': rr, 'replay_bin': 'list_pair', 'replay_args': []})
    return row


def standin_filtersearch(prop, tier, seed, scratch, root):
    """random filter trees x value strings through the real builder/renderer and ports of MPD's tokenizer + filter parser"""
    import replay as RP, json
    n = 30000 if tier != 'thorough' else 600000
    # value classes that are open known findings are left to their witnesses (listed in the bound)
    import decide
    kf = decide.load_known()
    skip = ''.join(sorted({k.get('skip_chars', '') for k in kf.get('findings', []) if k['property'] == 'C11' and k.get('status', 'open') == 'open'}))
    rr = RP.run_bin('c11_filter', scratch, ['search', str(1 + max(seed, 0)), str(n)], timeout=1500, env={'VX_SKIP_CHARS': skip})
    row = {'function': 'Filter::{new,tag,tag_exists,tag_absent,negate,and,not}, <Filter as Argument>::render, Find::command, Command builder, end to end',
           'engine': 'native random differential search against Rust ports of MPD Tokenizer and SongFilter::ParseExpression (replay/src/bin/c11_filter.rs, replay/src/mpdfilter.rs)',
           'label': 'bounded', 'cases': n, 'violations': [],
           'bound': '%d random trees (depth <= 3, NOT/AND mixes, all five operators, exists/absent shorthands) x values (20 fixed strings: quotes of both kinds, backslashes, parentheses, AND, blanks, empty, non-ASCII; and random strings of <= 7 characters over {a b blank backslash quote apostrophe ( ) e-acute}, so that runs of adjacent special characters occur); values containing %r skipped (open known findings); seed %d' % (n, skip, 1 + max(seed, 0))}
    if not rr.get('ran'):
        row['undecided'] = rr.get('reason', 'did not run'); return row
    try:
        j = json.loads(rr.get('full_output', rr['output']).strip().split('\n')[-1])
    except Exception:
        row['undecided'] = 'output unreadable: ' + rr.get('output', '')[-300:]; return row
    if not rr['fails']:
        row['result'] = 'no deviation'; row['distinct_nontrivial'] = j.get('cases', 0); return row
    row['result'] = 'DEVIATION'; row['deviation'] = j
    rr.pop('full_output', None)
    row['violations'].append({'props': ['C11'], 'ob': 'filter.search', 'fn': 'Filter rendering', 'message': 'the server understands a different filter: ' + j.get('why', ''), 'where': 'mpd_client/src/filter.rs',
                              'rendered': json.dumps(j)[:3000], 'input': {'tree': j.get('tree'), 'seed': j.get('seed'), 'case': j.get('case')}, 'replayed': rr, 'replay_bin': 'c11_filter',
                              'replay_args': ['search', str(1 + max(seed, 0)), str(n)]})
    return row


def standin_tagtable(prop, tier, seed, scratch, root):
    """exhaustive check of the finite tag / subsystem tables: ==, cmp, hash, HashSet/HashMap behaviour, parsing in every letter case"""
    import replay as RP, json
    rr = RP.run_bin('c20_tags', scratch, [], timeout=300)
    row = {'function': 'Tag::{as_str via Argument::render, try_from, eq, cmp, partial_cmp, hash}, Subsystem::{as_str, eq, hash} on the finite name tables',
           'engine': 'native exhaustive run over all named variants x catch-all spellings (replay/src/bin/c20_tags.rs); name tables written from MPD tag_item_names / idle_names',
           'label': 'bounded', 'bound': 'all 31 named tags x {exact, lower, upper} catch-alls + 5 unknown names, all pairs; 6 invalid strings; 14 subsystems x catch-alls, all pairs; std DefaultHasher, HashSet, HashMap', 'violations': []}
    if not rr.get('ran'):
        row['undecided'] = rr.get('reason', 'did not run'); return row
    if not rr['fails']:
        try: row['cases'] = json.loads(rr['output'].strip().split('\n')[-1]).get('cases', 0)
        except Exception: row['cases'] = 0
        row['result'] = 'agree'; row['distinct_nontrivial'] = row['cases']; row['exhaustive'] = True
        return row
    rr.pop('full_output', None)
    row['result'] = 'DEVIATION'
    row['violations'].append({'props': ['C20'], 'ob': 'C20.table.exhaustive', 'fn': 'Tag / Subsystem', 'message': rr.get('output', '')[-500:], 'where': 'mpd_client/src/tag.rs', 'rendered': rr.get('output', ''),
                              'input': {'see': 'output'}, 'replayed': rr, 'replay_bin': 'c20_tags', 'replay_args': []})
    return row


def standin_cmddiff(prop, tier, seed, scratch, root):
    """every predefined command / builder path x boundary and random parameters, tokenised with the MPD tokenizer port, compared semantically with an expectation table"""
    import replay as RP, json
    n = 300 if tier != 'thorough' else 6000
    rr = RP.run_bin('cmd_diff', scratch, ['search', str(1 + max(seed, 0)), str(n), 'huge'], timeout=3000)
    row = {'function': 'Command::command of all 58 predefined commands, every constructor / builder path (mpd_client/src/commands/definitions.rs), Argument impls for numbers, bool, Duration, SongId/SongPosition, ranges',
           'engine': 'native differential run against a per-command expectation table written from the MPD protocol reference (replay/src/bin/cmd_diff.rs), lines tokenised by the port of MPD Tokenizer',
           'label': 'bounded', 'violations': [],
           'bound': 'all boundary combinations (0, 1, MAX-1, MAX, empty/inverted ranges, excluded starts via (Bound, Bound), sub-millisecond and tie durations, durations up to Duration::MAX, all enum variants, all 31 tags, strings with blanks / non-ASCII) of 125 command/builder paths + %d random draws per path, seed %d; strings without a blank containing a quote or backslash excluded (C06 known finding)' % (n, 1 + max(seed, 0))}
    if not rr.get('ran'):
        row['undecided'] = rr.get('reason', 'did not run'); return row
    try:
        j = json.loads(rr.get('full_output', rr['output']).strip().split('\n')[-1])
    except Exception:
        row['undecided'] = 'output unreadable: ' + rr.get('output', '')[-300:]; return row
    if not rr['fails']:
        row['result'] = 'agree'; row['cases'] = j.get('cases', 0); row['distinct_nontrivial'] = j.get('cases', 0); row['paths'] = j.get('paths'); return row
    row['result'] = 'DEVIATION'; row['deviation'] = j
    args = ['case', j['path'], str(j['case'])]
    rep = RP.run_bin('cmd_diff', scratch, args); rep.pop('full_output', None)
    row['violations'].append({'props': ['C15'], 'ob': 'command.diff', 'fn': j.get('path', ''), 'message': 'the request written differs from the documented one: %s (line %r)' % (j.get('why', ''), j.get('line', '')),
                              'where': 'mpd_client/src/commands/definitions.rs', 'rendered': json.dumps(j)[:3000], 'input': {'path': j['path'], 'case': j['case']}, 'replayed': rep, 'replay_bin': 'cmd_diff', 'replay_args': args})
    return row

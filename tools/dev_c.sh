#!/bin/bash
# dev helper: export unit P, then splice + verify unit C in /var/tmp/vxs
S=/var/tmp/vxs; D=/verif/.deps
SD=$(python3 /verif/tools/runner.py --build-support | grep support-dir | cut -d' ' -f2); [ -n "$SD" ] || { echo "support build failed"; python3 /verif/tools/runner.py --build-support 2>&1 | grep -A12 "^error" | head -30; exit 2; }; cp $SD/* $S/
if [ -z "$SKIP_P" ]; then
rm -rf $S/repo && rsync -a --exclude target --exclude .git /repo/ $S/repo/
cd /verif && VX_UNIT=P python3 tools/splice.py $S/repo contracts/mpd_protocol/*.vspec > $S/report_p.json || exit 2
cd $S/repo && verus --crate-type=lib --edition=2024 --crate-name mpd_protocol -L dependency=$D -L dependency=$S --extern ahash=$(ls $D/libahash-*.rlib) --extern bytes=$(ls $D/libbytes-*.rlib) --extern nom=$S/libnom.rlib --import nom=$S/vx_nom.vir --extern tracing=$(ls $D/libtracing-*.rlib) --extern tokio=$S/libtokio.rlib --import tokio=$S/vx_tokio.vir --extern vx_base=$S/libvx_base.rlib --import vx_base=$S/vx_base.vir --extern vx_spec=$S/libvx_spec.rlib --import vx_spec=$S/vx_spec.vir --cfg 'feature="async"' --no-verify --compile --export $S/mpd_protocol.vir -o $S/libmpd_protocol.rlib mpd_protocol/src/lib.rs 2>&1 | grep -A8 "^error" | head -30
fi
cd /verif
rm -rf $S/repo && rsync -a --exclude target --exclude .git /repo/ $S/repo/
cd /verif && VX_UNIT=C python3 tools/splice.py $S/repo contracts/mpd_client/*.vspec > $S/report_c.json || exit 2
cd $S/repo && verus --crate-type=lib --edition=2024 --crate-name mpd_client -L dependency=$D -L dependency=$S --extern bytes=$(ls $D/libbytes-*.rlib) --extern tracing=$(ls $D/libtracing-*.rlib) --extern tokio=$S/libtokio.rlib --import tokio=$S/vx_tokio.vir --extern vx_base=$S/libvx_base.rlib --import vx_base=$S/vx_base.vir --extern vx_spec=$S/libvx_spec.rlib --import vx_spec=$S/vx_spec.vir --extern mpd_protocol=$S/libmpd_protocol.rlib --import mpd_protocol=$S/mpd_protocol.vir "$@" mpd_client/src/lib.rs 2>&1 | grep -v "^warning: unused\|^warning: unnecessary" | grep -B2 -A14 "^error\|verification results" | head -${HEAD:-120}
python3 - <<'PY'
import json,glob
for f in glob.glob('/var/tmp/vxs/report*.json'):
    try:
        r=json.load(open(f))
    except Exception: continue
    for x in r.get('file_rules',[]):
        if x['rule']=='degraded': print('DEGRADED', x['text'][:300])
PY

#!/bin/bash
# usage: seed_confirm.sh <prop> <srcdir> <k> <worktree> <crate> [features]
# Confirms a seeded change (compiles, pinned suite passes, demo fails with / passes without), stores it under
# /verif/seeded/<prop>-<k>/ and runs the framework's checks against it (applied to /repo, undone straight afterwards).
set -u
P=$1; SRC=$2; K=$3; WT=$4; CRATE=${5:-mpd_protocol}; FEAT=${6:-"--features async"}
ID=$P-$K; OUT=/verif/seeded/$ID; mkdir -p $OUT
cd $WT && git checkout -q -- . && git clean -fdq
git apply $SRC/mut$K.diff || { echo "$ID: patch does not apply"; exit 3; }
T1=$(cargo test --workspace --offline 2>&1 | grep -E "^test result" | awk '{p+=$4; f+=$6} END {print p" passed "f" failed"}')
mkdir -p $CRATE/tests && cp $SRC/demo$K.rs $CRATE/tests/demo.rs
D1=$(cargo test --offline -p $CRATE $FEAT --test demo 2>&1 | grep -E "^test result" | head -1)
git checkout -q -- . ; 
D0=$(cargo test --offline -p $CRATE $FEAT --test demo 2>&1 | grep -E "^test result" | head -1)
rm -f $CRATE/tests/demo.rs; git clean -fdq
cp $SRC/mut$K.diff $OUT/patch.diff; cp $SRC/demo$K.rs $OUT/demo.rs; cp $SRC/notes$K.txt $OUT/notes.txt 2>/dev/null
echo "$ID suite-with-change: $T1 | demo with change: $D1 | demo without: $D0"
echo "$T1|$D1|$D0" > $OUT/confirm.txt

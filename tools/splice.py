#!/usr/bin/env python3
"""Splice tool: lifts real items of a scratch copy of /repo into verus!{} where they stand, applies the
numbered normalisation rules (DESIGN §3) and inserts the contracts kept in /verif/contracts/*.vspec.

Every edit is an edit of byte spans of the ORIGINAL file text (never a re-typed body).  Marker comments
`/*@fn KEY*/ … /*@endfn*/` and `/*@ob ID*/` are emitted so that the runner can map Verus diagnostics back to
functions and named obligations.
"""
import os, re, sys, json, shutil
from typing import List, Tuple, Dict, Optional
sys.path.insert(0, os.path.dirname(os.path.abspath(__file__)))
from rustlex import Src, Item, parse_items, fn_anatomy, find_token_seq, pat_tokens, lex, OPEN, CLOSE
import vspec

TRACING_MACROS = {'trace', 'debug', 'info', 'warn', 'error'}


class SpliceError(Exception):
    """lost anchor / unsupported construct: the check is undecided (exit 2), never an alarm"""


class Edits:
    def __init__(self):
        self.e = []   # (lo, hi, text, seq)
        self.seq = 0

    def replace(self, lo, hi, text):
        self.e.append((lo, hi, text, self.seq)); self.seq += 1

    def insert(self, pos, text):
        self.replace(pos, pos, text)

    def delete(self, lo, hi):
        self.replace(lo, hi, '')

    def apply(self, text, lo, hi):
        """text[lo:hi] with all edits inside [lo,hi] applied"""
        es = sorted([x for x in self.e if x[0] >= lo and x[1] <= hi], key=lambda x: (x[0], 0 if x[0] == x[1] else 1, x[3]))
        out = []
        pos = lo
        for (a, b, t, _) in es:
            if a < pos:
                raise SpliceError('overlapping edits at byte %d (%r)' % (a, t[:40]))
            out.append(text[pos:a]); out.append(t); pos = b
        out.append(text[pos:hi])
        return ''.join(out)

    def drop_range(self, lo, hi):
        self.e = [x for x in self.e if not (x[0] >= lo and x[1] <= hi)]


def mark_obligations(text: str) -> Tuple[str, List[str]]:
    ids = []
    def rep(m):
        ids.append(m.group(1))
        return '/*@ob %s*/' % m.group(1)
    for m in re.finditer(r'/\*@ob\s+(C\d\d\.[A-Za-z0-9_.\-]+(?:\|C\d\d)*)\s*\*/', text):
        ids.append(m.group(1))
    out = re.sub(r'\[(C\d\d\.[A-Za-z0-9_.\-]+(?:\|C\d\d)*)\]', rep, text)
    return '/*@blk*/' + out + '/*@endblk*/', ids


def fn_param_names(src, an):
    """names of the non-self parameters of a fn, in order (`name: T`, `mut name: T`; other patterns give '_')"""
    names = []
    if an.params_open < 0: return names
    q = an.params_open + 1; start = True; depth = 0
    while q < an.params_close:
        t = src.t(q)
        if t.kind == 'punct' and t.text in ('(', '[', '{', '<'): depth += 1
        elif t.kind == 'punct' and t.text in (')', ']', '}', '>') and not (t.text == '>' and src.is_p(q - 1, '-')): depth -= 1
        elif t.kind == 'punct' and t.text == ',' and depth == 0: start = True; q += 1; continue
        elif start and t.kind not in ('ws', 'comment'):
            k = q
            if src.is_p(k, '&'):
                while k < an.params_close and not src.is_id(k, 'self') and not src.is_p(k, ','): k += 1
            if src.is_id(k, 'mut') and src.is_id(k + 1, 'self'): k += 1
            if src.is_id(k, 'self'):
                pass
            else:
                k = q
                if src.is_id(k, 'mut'): k += 1
                names.append(src.t(k).text if src.is_id(k) and src.is_p(k + 1, ':') else '_')
            start = False
        q += 1
    return names

class FileSplicer:
    def __init__(self, root: str, fs: vspec.FileSpec, contracts_dir: str, report: dict):
        self.root = root
        self.fs = fs
        self.cdir = contracts_dir
        self.path = os.path.join(root, fs.path)
        if not os.path.exists(self.path):
            raise SpliceError('lost anchor: file %s does not exist' % fs.path)
        self.text = open(self.path).read()
        # N11: the repository's own macro_rules! macros named by `expandmacros` are expanded first (tools/macroexp.py)
        self.n11 = 0
        for d in fs.dirs:
            if d.word == 'expandmacros':
                import macroexp
                try:
                    self.text, n_ = macroexp.expand_all(self.text, d.args)
                except macroexp.MacroError as e:
                    raise SpliceError('unsupported: N11 macro expansion in %s: %s' % (fs.path, e))
                self.n11 += n_
        self.src = Src(self.text)
        self.items = parse_items(self.src, 0, self.src.n())
        self.ed = Edits()
        self.report = report
        self.rules = []          # (rule id, pattern tokens, replacement)
        self.deasync_strip = set()
        self.await_map = {}
        self.lifted_members: Dict[int, List[Tuple[Item, vspec.Dir]]] = {}   # id(impl item) -> [(fn item, dir)]
        self.impl_by_id = {}
        self.whole_impls = {}

    # ---------------------------------------------------------------- lookup
    def find_top(self, kind, name, ordinal=0) -> Item:
        c = [it for it in self.items if it.kind == kind and it.name == name and not it.cfg_test]
        if len(c) <= ordinal:
            raise SpliceError('lost anchor: %s %s not found in %s' % (kind, name, self.fs.path))
        return c[ordinal]

    def find_fn(self, key: str) -> Tuple[Optional[Item], Item]:
        """returns (impl item or None, fn item). key: name | Type::name | <Type as Trait>::name, optional #n impl ordinal"""
        m = re.match(r'^(.*)::([A-Za-z_0-9]+)$', key)
        if not m:
            return None, self.find_top('fn', key)
        owner, name = m.group(1), m.group(2)
        ordinal = None
        mo = re.match(r'^(.*)#(\d+)$', owner)
        if mo: owner, ordinal = mo.group(1), int(mo.group(2))
        owner_n = re.sub(r'\s+', '', owner)
        cands = []
        for it in self.items:
            if it.kind == 'impl' and re.sub(r'\s+', '', it.name) == owner_n:
                for c in it.children:
                    if c.kind == 'fn' and c.name == name:
                        cands.append((it, c))
        if ordinal is not None:
            impls = [it for it in self.items if it.kind == 'impl' and re.sub(r'\s+', '', it.name) == owner_n]
            if ordinal >= len(impls): raise SpliceError('lost anchor: impl %s #%d' % (owner, ordinal))
            cands = [(i, c) for (i, c) in cands if i is impls[ordinal]]
        if not cands:
            raise SpliceError('lost anchor: fn %s not found in %s' % (key, self.fs.path))
        return cands[0]

    # ---------------------------------------------------------------- fn level
    def fn_edits(self, it: Item, d: vspec.Dir, key: str, owner: Optional[Item]):
        """lift one fn; when one of its anchors is lost (or the runner asks for it after Verus rejected a construct inside it) the fn
        is DEGRADED instead: its body stays unverified (`external_body`), its contract stays in place as an ASSUMED contract so that
        its callers can still be checked, and the properties it carries are reported undecided - not the whole unit"""
        n_ed = len(self.ed.e); n_fn = len(self.report['functions']); n_rules = len(self.report['file_rules'])
        forced = (self.fs.path, key) in getattr(self, 'force_drop', set())
        if not forced:
            try:
                return self._fn_edits_full(it, d, key, owner)
            except SpliceError as e:
                reason = str(e)
                if not (reason.startswith('lost anchor') or reason.startswith('unsupported') or reason.startswith('shape mismatch') or reason.startswith('overlapping')):
                    raise
        else:
            reason = 'Verus rejected a construct inside this function'
        del self.ed.e[n_ed:]; del self.report['functions'][n_fn:]; del self.report['file_rules'][n_rules:]
        keep = ('ret', 'spec', 'attr', 'props', 'implicit', 'mutself', 'mutparam', 'sig', 'vis', 'norules')
        d2 = vspec.Dir(d.word, list(d.args), d.text, d.line, [s for s in d.subs if s.word in keep], d.optional)
        d2.subs.append(vspec.Dir('attr', [], '    #[verifier::external_body]', d.line))
        self.degrading = True
        try:
            a = self._fn_edits_full(it, d2, key, owner)
        finally:
            self.degrading = False
        self.report['functions'][-1]['dropped'] = reason
        self.report['file_rules'].append({'file': self.fs.path, 'rule': 'degraded', 'text': 'fn %s left unverified with its contract ASSUMED: %s' % (key, reason)})
        return a

    def _fn_edits_full(self, it: Item, d: vspec.Dir, key: str, owner: Optional[Item]):
        src = self.src
        an = fn_anatomy(src, it)
        applied = []
        # N6: a wildcard parameter `_: T` gets a name (Verus wants plain identifier patterns)
        q = it.kw_si
        lim = it.body_open if it.body_open >= 0 else src.n()
        while q < lim and not src.is_p(q, '('): q += 1
        if q < lim:
            pc_ = src.match(q); nu = 0; k_ = q + 1
            while k_ < pc_:
                t_ = src.t(k_)
                if t_.kind == 'punct' and t_.text in OPEN: k_ = src.match(k_) + 1; continue
                if t_.kind == 'ident' and t_.text == '_' and src.is_p(k_ + 1, ':') and (src.is_p(k_ - 1, '(') or src.is_p(k_ - 1, ',')):
                    self.ed.replace(t_.start, t_.end, 'vx_u%d' % nu); nu += 1; applied.append('N6')
                k_ += 1
        subs = d.subs
        # `$LET(<tokens>)` in a directive's text stands for the identifier bound by the first `let [mut] X = <tokens>..` of this fn:
        # contract text that has to name a local (loop invariants over a builder value) follows a renamed local
        if it.body_open >= 0 and any('$LET(' in (x.text or '') for x in subs):
            def _let_name(m):
                pat = pat_tokens(m.group(1))
                k_ = it.body_open + 1
                while k_ < it.body_close:
                    if src.is_id(k_, 'let'):
                        n_ = k_ + 1
                        if src.is_id(n_, 'mut'): n_ += 1
                        if src.t(n_).kind == 'ident' and src.is_p(n_ + 1, '=') and [src.t(n_ + 2 + j_).text for j_ in range(len(pat))] == pat:
                            return src.t(n_).text
                    k_ += 1
                raise SpliceError('lost anchor: fn %s has no `let X = %s`' % (key, m.group(1)))
            subs = [vspec.Dir(x.word, x.args, re.sub(r'\$LET\(([^)]*)\)', _let_name, x.text or ''), x.line, x.subs, x.optional) for x in subs]
        # `$A<k>` in a directive's text stands for the name of the k-th non-self parameter (1-based) of this fn: a contract written
        # that way follows a renamed parameter
        if any('$A' in (x.text or '') for x in subs):
            pnames = fn_param_names(src, an)
            def _arg_name(m):
                k_ = int(m.group(1))
                if k_ < 1 or k_ > len(pnames):
                    raise SpliceError('lost anchor: fn %s has no parameter #%d' % (key, k_))
                return pnames[k_ - 1]
            subs = [vspec.Dir(x.word, x.args, re.sub(r'\$A(\d+)', _arg_name, x.text or ''), x.line, x.subs, x.optional) for x in subs]
        props = []
        implicit = None
        for s in subs:
            if s.word == 'props': props += [p for a in s.args for p in a.split(',') if p]
            if s.word == 'implicit': implicit = [p for a in s.args for p in a.split(',') if p]
        if it.body_open < 0:
            raise SpliceError('unsupported: fn %s has no body' % key)
        a, b = it.head_si, it.body_close + 1

        # ---- N1: tracing
        self.n1(it, applied)

        # ---- N21: panic!/unreachable!/assert!/assert_eq! -> obligations
        k = it.body_open
        while k < it.body_close:
            t = src.t(k)
            if t.kind == 'ident' and t.text in ('panic', 'unreachable', 'unimplemented', 'todo') and src.is_p(k + 1, '!') and src.t(k + 2).kind == 'punct' and src.t(k + 2).text in OPEN:
                e = src.match(k + 2)
                stmt = src.is_p(e + 1, ';')
                self.ed.replace(t.start, src.t(e).end, 'vx_panic::<()>()' if stmt else 'vx_panic()'); applied.append('N21')
                k = e + 1; continue
            if t.kind == 'ident' and t.text in ('assert', 'assert_eq', 'assert_ne', 'debug_assert') and src.is_p(k + 1, '!') and src.is_p(k + 2, '('):
                e = src.match(k + 2)
                # split top-level arguments
                args = []; a0 = k + 3; q = k + 3
                while q < e:
                    tt = src.t(q)
                    if tt.kind == 'punct' and tt.text in OPEN: q = src.match(q) + 1; continue
                    if tt.kind == 'punct' and tt.text == ',': args.append((a0, q)); a0 = q + 1
                    q += 1
                if a0 < e: args.append((a0, e))
                txt = [src.text_of(a, b) for (a, b) in args]
                if t.text in ('assert', 'debug_assert'): cond = txt[0]
                elif t.text == 'assert_eq': cond = '(%s) == (%s)' % (txt[0], txt[1])
                else: cond = '(%s) != (%s)' % (txt[0], txt[1])
                self.ed.replace(t.start, src.t(e).end, 'vx_assert(%s)' % cond); applied.append('N21')
                k = e + 1; continue
            k += 1

        # ---- token rules (N10 and friends)
        for (rid, pat, rep) in ([] if any(s.word == 'norules' for s in subs) else self.rules):
            for k in find_token_seq(src, it.body_open, it.body_close, pat):
                self.ed.replace(src.t(k).start, src.t(k + len(pat) - 1).end, rep); applied.append(rid)

        # ---- N2: de-async
        self.n2(it, applied)

        # ---- signature: named return value
        for s in subs:
            if s.word == 'ret':
                if an.arrow_si < 0:
                    raise SpliceError('lost anchor: fn %s has no return type to name' % key)
                self.ed.insert(src.t(an.ret_a).start, '(%s: ' % s.args[0])
                self.ed.insert(src.t(an.ret_b - 1).end, ')')
            if s.word == 'vis':
                # widen visibility of a lifted private fn (needed when a pub contract mentions it) -- not used for exec code
                pass

        # ---- attributes
        attr_txt = ''.join(s.text.strip() + '\n' for s in subs if s.word == 'attr')

        # ---- spec
        clause_ids = []
        spec_txt = ''
        for s in subs:
            if s.word == 'spec':
                t, ids = mark_obligations(s.text)
                clause_ids += ids
                spec_txt += '\n' + t + '\n'
        if spec_txt:
            self.ed.insert(src.t(it.body_open).start, spec_txt)

        canary_txt = ''
        # ---- vacuity canary (separate run): `assert(false)` at the entry of the fn must FAIL, else its precondition (or the assumptions
        # in scope) is contradictory and everything below would verify vacuously
        if getattr(self, 'canary', False) and not getattr(self, 'degrading', False) and it.body_open >= 0 and not any(x.word == 'attr' and 'external_body' in x.text for x in subs):
            cid = 'C00.canary.%d' % len(self.report.setdefault('canaries', []))
            self.report['canaries'].append({'id': cid, 'fn': key, 'file': self.fs.path})
            canary_txt = '\n/*@blk*/proof { /*@ob %s*/ assert(false); }/*@endblk*/\n' % cid
            if not any(x.word == 'prologue' for x in subs):
                self.ed.insert(src.t(it.body_open).end, canary_txt); canary_txt = ''

        pred_defs = ''
        # ---- prologue / epilogue
        for s in subs:
            if s.word == 'prologue':
                # leading `hide(..);` lines are Verus headers and must stay the first statements of the body
                tl = s.text.split('\n'); head = []
                while tl and (tl[0].strip().startswith('hide(') or not tl[0].strip()): head.append(tl.pop(0))
                t, ids = mark_obligations('\n'.join(tl)); clause_ids += ids
                self.ed.insert(src.t(it.body_open).end, '\n' + '\n'.join(head) + '\n' + canary_txt + pred_defs + t + '\n'); canary_txt = ''   # (a second prologue gets none)
            if s.word == 'epilogue':
                t, ids = mark_obligations(s.text); clause_ids += ids
                self.ed.insert(src.t(it.body_close).start, '\n' + t + '\n')

        # ---- loops
        nloops = len(an.loops)
        whilelets = {int(s.args[0]) for s in subs if s.word in ('whilelet', 'forloop')}
        forloops = {int(s.args[0]) for s in subs if s.word == 'forloop'}
        midtexts = {}; headtexts = {}; pretexts = {}
        for s in subs:
            if s.word == 'shape':
                for a_ in s.args:
                    kx, v = a_.split('=')
                    if kx == 'loops' and int(v) != nloops:
                        raise SpliceError('shape mismatch: fn %s has %d loops, contract expects %s' % (key, nloops, v))
            if s.word == 'loop':
                li = int(s.args[0]); what = s.args[1]
                if li >= nloops:
                    raise SpliceError('lost anchor: fn %s loop %d (has %d)' % (key, li, nloops))
                L = an.loops[li]
                t, ids = mark_obligations(s.text); clause_ids += ids
                if what == 'mid':
                    # only for loops normalised by `whilelet`/`forloop`: ghost text after the scrutinee has been evaluated
                    midtexts.setdefault(li, []).append(t)
                    continue
                if what == 'pre':
                    # only for `forloop`: ghost text between the creation of the iterator and the loop
                    pretexts.setdefault(li, []).append(t)
                    continue
                if what == 'head' and li in whilelets:
                    headtexts.setdefault(li, []).append(t)
                    continue
                if what == 'spec':
                    self.ed.insert(src.t(L.body_open).start, '\n' + t + '\n')
                elif what == 'head':
                    self.ed.insert(src.t(L.body_open).end, '\n' + t + '\n')
                elif what == 'tail':
                    self.ed.insert(src.t(L.body_close).start, '\n' + t + '\n')
                elif what == 'before':
                    # ghost text in front of the loop statement (structural anchor: survives renamed loop variables / rewritten headers)
                    self.ed.insert(src.t(L.kw_si).start, '\n' + t + '\n')
                elif what == 'after':
                    self.ed.insert(src.t(L.body_close).end, '\n' + t + '\n')
                else:
                    raise SpliceError('bad loop directive %s' % what)
            if s.word in ('breakret', 'breakassign'):
                li = int(s.args[0])
                if li >= nloops:
                    raise SpliceError('lost anchor: fn %s loop %d' % (key, li))
                L = an.loops[li]
                inner = [x for x in an.loops if x.body_open > L.body_open and x.body_close < L.body_close]
                var = None
                if s.word == 'breakassign':
                    # `let PAT = loop { .. break E; .. };` -> `let vx_b0; [let vx_b1;] loop { .. { vx_b0 = E; break; } .. } let PAT = vx_b0|(vx_b0, vx_b1);`
                    # (fresh names: the pattern's names may be shadowed inside the loop body)
                    if not src.is_p(L.kw_si - 1, '='):
                        raise SpliceError('lost anchor: fn %s loop %d is not `let x = loop`' % (key, li))
                    if src.is_id(L.kw_si - 3, 'let') and src.is_id(L.kw_si - 2):
                        let_si = L.kw_si - 3; nv = 1
                    elif src.is_p(L.kw_si - 2, ')') and src.is_id(src.match(L.kw_si - 2) - 1, 'let'):
                        po = src.match(L.kw_si - 2); let_si = po - 1
                        nv = len([q for q in range(po + 1, L.kw_si - 2) if src.t(q).kind == 'ident'])
                    else:
                        raise SpliceError('lost anchor: fn %s loop %d is not `let x = loop`' % (key, li))
                    pat_txt = src.text_of(let_si + 1, L.kw_si - 1)
                    var = ['vx_b%d' % i for i in range(nv)]
                    self.ed.replace(src.t(let_si).start, src.t(L.kw_si - 1).end, ' '.join('let %s;' % v for v in var))
                    rhs = var[0] if nv == 1 else '(' + ', '.join(var) + ')'
                    if src.is_p(L.body_close + 1, ';'):
                        self.ed.replace(src.t(L.body_close + 1).start, src.t(L.body_close + 1).end, '\nlet %s = %s;' % (pat_txt, rhs))
                    else:
                        raise SpliceError('lost anchor: fn %s loop %d: `let x = loop {..}` without `;`' % (key, li))
                q = L.body_open + 1
                while q < L.body_close:
                    if any(x.body_open <= q <= x.body_close for x in inner):
                        q += 1; continue
                    if src.is_id(q, 'break') and not src.is_p(q + 1, ';') and src.t(q + 1).kind != 'lifetime':
                        if var is None:
                            self.ed.replace(src.t(q).start, src.t(q).end, 'return'); applied.append('N5')
                        else:
                            # find the end of the break statement
                            e = q + 1
                            while not src.is_p(e, ';'):
                                e = src.skip_group(e)
                            if len(var) == 1:
                                self.ed.replace(src.t(q).start, src.t(q).end, '{ %s =' % var[0])
                                self.ed.insert(src.t(e).end, ' break; }'); applied.append('N5')
                            else:
                                self.ed.replace(src.t(q).start, src.t(q).end, '{ let vx_t =')
                                self.ed.insert(src.t(e).end, ' ' + ' '.join('%s = vx_t.%d;' % (v, i) for i, v in enumerate(var)) + ' break; }'); applied.append('N5')
                    q += 1

        # ---- N8: `while let PAT = E { B }` -> `loop <spec> { <head> let vx_w = E; if let PAT = vx_w { <mid> B } else { break; } }`
        for li in sorted(whilelets):
            if li in forloops:
                # N8: `for PAT in E { B }` over a repository-defined iterator -> Rust's own desugaring with `loop`
                if li >= nloops or an.loops[li].kind != 'for':
                    raise SpliceError('lost anchor: fn %s loop %d is not a `for` loop' % (key, li))
                L = an.loops[li]
                q = L.kw_si + 1
                while not src.is_id(q, 'in'): q = src.skip_group(q)
                pat_txt = src.text_of(L.kw_si + 1, q)
                iter_e = self.ed.apply(self.text, src.t(q + 1).start, src.t(L.body_open - 1).end)
                self.ed.drop_range(src.t(q + 1).start, src.t(L.body_open - 1).end)
                self.ed.replace(src.t(L.kw_si).start, src.t(L.body_open - 1).end, 'let mut vx_it = IntoIterator::into_iter(' + iter_e + ');\n' + '\n'.join(pretexts.get(li, [])) + '\nloop')
                self.ed.insert(src.t(L.body_open).end, '\n' + '\n'.join(headtexts.get(li, [])) + '\nlet vx_w = vx_it.next();\nif let Some(' + pat_txt + ') = vx_w {\n' + '\n'.join(midtexts.get(li, [])) + '\n')
                self.ed.insert(src.t(L.body_close).start, '\n} else { break; }\n')
                applied.append('N8')
                continue
            if li >= nloops or an.loops[li].kind != 'while' or not src.is_id(an.loops[li].kw_si + 1, 'let'):
                raise SpliceError('lost anchor: fn %s loop %d is not a `while let`' % (key, li))
            L = an.loops[li]
            q = L.kw_si + 2
            while not src.is_p(q, '='): q = src.skip_group(q)
            pat_txt = src.text_of(L.kw_si + 2, q)
            scrut = self.ed.apply(self.text, src.t(q + 1).start, src.t(L.body_open - 1).end)
            self.ed.drop_range(src.t(q + 1).start, src.t(L.body_open - 1).end)
            self.ed.replace(src.t(L.kw_si).start, src.t(L.body_open - 1).end, 'loop')
            self.ed.insert(src.t(L.body_open).end, '\n' + '\n'.join(headtexts.get(li, [])) + '\nlet vx_w = ' + scrut + ';\nif let ' + pat_txt + ' = vx_w {\n' + '\n'.join(midtexts.get(li, [])) + '\n')
            self.ed.insert(src.t(L.body_close).start, '\n} else { break; }\n')
            applied.append('N8')

        # ---- N16: `?` desugar
        qs = [k for k in range(it.body_open, it.body_close) if src.is_p(k, '?') and (src.t(k - 1).kind == 'ident' or (src.t(k - 1).kind == 'punct' and src.t(k - 1).text in (')', ']')))]
        for s in subs:
            if s.word == 'try':
                for a_ in s.args:
                    if a_ == 'all':
                        idxs = list(range(len(qs)))
                    else:
                        idxs = [int(a_)]
                    for qi in idxs:
                        if qi >= len(qs):
                            raise SpliceError('lost anchor: fn %s `?` #%d (has %d)' % (key, qi, len(qs)))
                        q = qs[qi]
                        st = self.postfix_start(q - 1)
                        self.ed.insert(src.t(st).start, 'match ')
                        gt, gids = mark_obligations(s.text) if s.text.strip() else ('', [])
                        clause_ids += gids
                        self.ed.replace(src.t(q).start, src.t(q).end, ' { Ok(vx_v) => vx_v, Err(vx_e) => { %s return Err(From::from(vx_e)) } }' % gt)
                        applied.append('N16')

        # ---- N20: `fn f(mut self, ..) { B }` -> `fn f(self, ..) { let mut vx_self = self; B[self := vx_self] }`, and
        #           `fn f(mut x: T)` -> `fn f(x: T) { let mut x = x; .. }`. Applied to EVERY lifted fn whose signature has a `mut` binding
        #           (the directives `mutself` / `mutparam` are kept for documentation: an edit that adds or removes a `mut` must not
        #           make the function unverifiable - Verus rejects `mut` parameters)
        if it.body_open >= 0 and an.params_open >= 0:
            q = an.params_open + 1
            if src.is_id(q, 'mut') and src.is_id(q + 1, 'self'):
                self.ed.delete(src.t(q).start, src.t(q + 1).start)
                self.ed.insert(src.t(it.body_open).end, ' let mut vx_self = self; ')
                for k2 in range(it.body_open + 1, it.body_close):
                    if src.is_id(k2, 'self'):
                        self.ed.replace(src.t(k2).start, src.t(k2).end, 'vx_self')
                applied.append('N20')
            depth = 0
            for q in range(an.params_open + 1, an.params_close):
                t = src.t(q)
                if t.kind == 'punct' and t.text in ('(', '[', '{', '<'): depth += 1
                elif t.kind == 'punct' and t.text in (')', ']', '}', '>'): depth -= 1
                elif depth == 0 and src.is_id(q, 'mut') and q + 2 < an.params_close and src.is_id(q + 1) and not src.is_id(q + 1, 'self') and src.is_p(q + 2, ':') \
                        and (q == an.params_open + 1 or src.is_p(q - 1, ',')):
                    nm = src.t(q + 1).text
                    self.ed.delete(src.t(q).start, src.t(q + 1).start)
                    self.ed.insert(src.t(it.body_open).end, ' let mut %s = %s; ' % (nm, nm))
                    applied.append('N20')

        # ---- closures: N6 (parameter patterns) + N15 (closure contracts)
        closures = self.find_closures(it)
        selected_closures = set()
        for s in sorted(subs, key=lambda x: 0 if x.word == 'closure' else 1):     # explicit closure contracts first, then N22 for the rest
            if s.word == 'closure':
                sel = s.args[0]
                if sel.startswith('in:'):
                    # the closure passed (as first closure argument) to the k-th call of `.method(`: `in:method` or `in:method#k`
                    mname, _, kk = sel[3:].partition('#')
                    kk = int(kk) if kk else 0
                    cands = []
                    for c in closures:
                        q = c[0] - 1
                        # walk back over preceding arguments to the call's '('
                        depth_ok = False
                        while q > it.body_open:
                            t = src.t(q)
                            if t.kind == 'punct' and t.text in CLOSE: q = src.match(q) - 1; continue
                            if t.kind == 'punct' and t.text == '(':
                                depth_ok = True; break
                            if t.kind == 'punct' and t.text in ('{', ';'): break
                            q -= 1
                        if depth_ok:
                            nm = q - 1
                            if src.is_p(nm, '>'):      # turbofish
                                while not src.is_p(nm, '<'): nm -= 1
                                nm -= 3
                            if src.is_id(nm, mname): cands.append(c)
                    if kk >= len(cands):
                        # the call no longer takes a closure (e.g. a fn item is passed): the contract that was attached to the
                        # closure is dropped; whatever depended on it now fails as an ordinary obligation of this function
                        self.report['file_rules'].append({'file': self.fs.path, 'rule': 'note', 'text': 'fn %s: no closure passed to %s (#%d); closure contract not applied' % (key, mname, kk)})
                        continue
                    (p_open, p_close, b_start, b_end, is_block) = cands[kk]
                else:
                    ci = int(sel)
                    if ci >= len(closures):
                        raise SpliceError('lost anchor: fn %s closure %d (has %d)' % (key, ci, len(closures)))
                    (p_open, p_close, b_start, b_end, is_block) = closures[ci]
                selected_closures.add(p_open)
                kv = dict(a.split('=', 1) for a in s.args[1:] if '=' in a)
                if p_close == p_open + 2 and src.t(p_open + 1).kind == 'ident':
                    # `$0` in the directive stands for the closure's own parameter name (a renamed parameter keeps its contract)
                    own = src.t(p_open + 1).text
                    kv = {k_: v_.replace('$0', own) for k_, v_ in kv.items()}
                    s = vspec.Dir(s.word, s.args, s.text.replace('$0', own), s.line, s.subs, s.optional)
                if 'params' in kv:
                    self.ed.replace(src.t(p_open).end, src.t(p_close).start, kv['params']); applied.append('N6')
                t, ids = mark_obligations(s.text); clause_ids += ids
                pre = kv.get('prelude', '')
                if is_block:
                    self.ed.insert(src.t(p_close).end, ' ' + t + ' ')
                    if pre: self.ed.insert(src.t(b_start).end, ' ' + pre + ' ')
                else:
                    self.ed.insert(src.t(p_close).end, ' ' + t + ' { ' + pre + ' ')
                    self.ed.insert(src.t(b_end).end, ' }')
            if s.word == 'predclosures':
                # N22: every expression-bodied closure of this fn that has no `closure` directive of its own and takes one untyped
                # identifier gets the parameter type given here and the contract "returns its body": `|b| E` ->
                # `|b: T| -> (vx_o: bool) ensures vx_o == (E) { E }`. The body text is copied, not interpreted; a body Verus cannot
                # read as a spec expression is rejected by Verus (=> this fn is degraded, never an alarm).
                ptype = s.args[0]
                for ci, (p_open, p_close, b_start, b_end, is_block) in enumerate(closures):
                    if p_open in selected_closures or is_block: continue
                    if p_close != p_open + 2 or src.t(p_open + 1).kind != 'ident': continue
                    body = src.text_of(b_start, b_end + 1)
                    self.ed.insert(src.t(p_open + 1).end, ': ' + ptype)
                    self.ed.insert(src.t(p_close).end, ' -> (vx_o: bool) ensures vx_o == (' + body + ') { ')
                    self.ed.insert(src.t(b_end).end, ' }')
                    applied.append('N22')
            if s.word == 'foriter':
                li = int(s.args[0]); name = s.args[1]
                if li >= nloops or an.loops[li].kind != 'for':
                    raise SpliceError('lost anchor: fn %s loop %d is not a for loop' % (key, li))
                L = an.loops[li]
                q = L.kw_si + 1
                while not src.is_id(q, 'in'):
                    q = src.skip_group(q)
                self.ed.insert(src.t(q).end, ' %s:' % name)

        # ---- N18: ghost monitor around the k-th call of `.method(`: `RECV.m(ARG)` -> `{ let vx_a = ARG; <pre> let vx_r = RECV.m(vx_a); <post> vx_r }`
        for s in subs:
            if s.word == 'callmon':
                k_ord = int(s.args[0]); meth = s.args[1]
                recv_filter = s.args[2] if len(s.args) > 2 else None
                hits = []
                for k in find_token_seq(src, it.body_open, it.body_close, ['.', meth, '(']):
                    rs0 = self.postfix_start(k - 1)
                    rtxt = re.sub(r'\s+', '', src.text_of(rs0, k))
                    if recv_filter is None or rtxt.endswith(recv_filter):
                        hits.append(k)
                if k_ord >= len(hits):
                    if s.optional:
                        self.report['file_rules'].append({'file': self.fs.path, 'rule': 'note', 'text': 'fn %s: optional monitored call .%s( #%d not present' % (key, meth, k_ord)})
                        continue
                    raise SpliceError('lost anchor: fn %s monitored call .%s( #%d (found %d)' % (key, meth, k_ord, len(hits)))
                k = hits[k_ord]
                rs = self.postfix_start(k - 1)
                po = k + 2; pc = src.match(po)
                lines_ = s.text.split('\n')
                cut = next((i_ for i_, l_ in enumerate(lines_) if l_.strip() == '----'), len(lines_))
                pre = '\n'.join(lines_[:cut]); post = '\n'.join(lines_[cut + 1:])
                pre, ids1 = mark_obligations(pre); post, ids2 = mark_obligations(post); clause_ids += ids1 + ids2
                has_arg = pc > po + 1
                recv_txt = src.text_of(rs, k)
                if has_arg:
                    arg_txt = self.ed.apply(self.text, src.t(po + 1).start, src.t(pc - 1).end)
                    self.ed.drop_range(src.t(po + 1).start, src.t(pc - 1).end)
                    head = '{ let vx_a = %s; %s let vx_r = %s.%s(vx_a)' % (arg_txt, pre, recv_txt, meth)
                else:
                    head = '{ %s let vx_r = %s.%s()' % (pre, recv_txt, meth)
                # a following `.await` (already rewritten by N2) must stay attached to the call: find it
                tail_end = pc
                self.ed.replace(src.t(rs).start, src.t(pc).end, head)
                # close after an immediately following `.await`
                if src.is_p(pc + 1, '.') and src.is_id(pc + 2, 'await'):
                    self.ed.insert(src.t(pc + 2).end, '; %s vx_r }' % post)
                else:
                    self.ed.insert(src.t(pc).end, '; %s vx_r }' % post)
                applied.append('N18')
            if s.word == 'callfn':
                # N18 for free functions: every call `name(ARGS)` -> `{ <pre> let vx_r = name(ARGS); <post> vx_r }`; $ARG2 = text of the 2nd argument
                fname = s.args[0]
                is_meth = fname.startswith('.')     # `.get`: every method call `RECV.get(ARGS)`; $RECV = receiver text
                fname = fname.lstrip('.')
                lines_ = s.text.split('\n')
                cut = next((i_ for i_, l_ in enumerate(lines_) if l_.strip() == '----'), len(lines_))
                pre0 = '\n'.join(lines_[:cut]); post0 = '\n'.join(lines_[cut + 1:])
                nhit = 0
                for k in range(it.body_open + 1, it.body_close):
                    if src.is_id(k, fname) and src.is_p(k + 1, '(') and (src.is_p(k - 1, '.') if is_meth else (not src.is_p(k - 1, '.') and not src.is_id(k - 1, 'fn'))):
                        po = k + 1; pc = src.match(po)
                        args_ = []; a0 = po + 1; q = po + 1
                        while q < pc:
                            tt = src.t(q)
                            if tt.kind == 'punct' and tt.text in OPEN: q = src.match(q) + 1; continue
                            if tt.kind == 'punct' and tt.text == ',': args_.append(src.text_of(a0, q)); a0 = q + 1
                            q += 1
                        if a0 < pc: args_.append(src.text_of(a0, pc))
                        recv_ = src.text_of(self.postfix_start(k - 2), k - 1) if is_meth else ''
                        sub = lambda t_: t_.replace('$ARG2', args_[1] if len(args_) > 1 else '').replace('$ARG1', args_[0] if args_ else '').replace('$ARG3', args_[2] if len(args_) > 2 else '').replace('$RECV', recv_)
                        pre, ids1 = mark_obligations(sub(pre0)); post, ids2 = mark_obligations(sub(post0))
                        if nhit == 0: clause_ids += ids1 + ids2
                        # path prefix (e.g. `res::value(`) stays in front
                        self.ed.insert(src.t(self.postfix_start(k - 2)).start if is_meth else (src.t(k).start if not (src.is_p(k - 1, ':') and src.is_p(k - 2, ':')) else src.t(self.postfix_start(k)).start), '{ %s let vx_r = ' % pre)
                        self.ed.insert(src.t(pc).end, '; %s vx_r }' % post)
                        nhit += 1
                if nhit == 0 and not s.optional:
                    raise SpliceError('lost anchor: fn %s has no call of %s(' % (key, fname))
                if nhit: applied.append('N18')
            if s.word == 'strmatches':
                # N7: `matches!(X, "a" | "b" | ..)` with string-literal alternatives only -> `(X == "a" || X == "b" || ..)`, whatever the list
                for k in range(it.body_open + 1, it.body_close):
                    if src.is_id(k, 'matches') and src.is_p(k + 1, '!') and src.is_p(k + 2, '('):
                        po = k + 2; pc = src.match(po)
                        q = po + 1
                        while q < pc and not src.is_p(q, ','): q = src.skip_group(q)
                        scrut = src.text_of(po + 1, q)
                        alts = [src.t(x) for x in range(q + 1, pc)]
                        if not alts or not all((t_.kind == 'str') if i_ % 2 == 0 else (t_.kind == 'punct' and t_.text == '|') for i_, t_ in enumerate(alts)):
                            raise SpliceError('unsupported: matches! with non-literal patterns in fn %s' % key)
                        self.ed.replace(src.t(k).start, src.t(pc).end, '(' + ' || '.join('%s == %s' % (scrut, t_.text) for t_ in alts[::2]) + ')')
                        applied.append('N7')
            if s.word == 'bytelits':
                # N10: `X.put_slice(b"ASCII")` -> `{ proof { reveal_strlit("ASCII"); } vx_put_str(X, "ASCII") }` for EVERY ASCII byte-string
                # literal of the fn (Verus gives byte-string literals no meaning; an ASCII one is the UTF-8 text of the same str literal)
                for k in find_token_seq(src, it.body_open, it.body_close, ['.', 'put_slice', '(']):
                    po = k + 2; pc = src.match(po)
                    if pc == po + 2 and src.t(po + 1).kind == 'str' and src.t(po + 1).text.startswith('b"'):
                        lit = src.t(po + 1).text[1:]
                        try:
                            raw = bytes(lit[1:-1], 'utf-8').decode('unicode_escape')
                        except Exception:
                            continue
                        if any(ord(c_) > 126 or ord(c_) < 32 for c_ in raw): continue
                        rs = self.postfix_start(k - 1)
                        recv = src.text_of(rs, k)
                        self.ed.replace(src.t(rs).start, src.t(pc).end, '{ proof { reveal_strlit(%s); } vx_put_str(%s, %s) }' % (lit, recv, lit))
                        applied.append('N10')
            if s.word == 'fmtwrite':
                # N9: every `write!(BUF, "lit{}lit..", ARGS..)` of the fn -> `{ vx_put_str(BUF, "lit"); <putter>(BUF, ARG); ..; vx_fmt_ok() }`
                # args: one putter kind per placeholder, in order over all write! calls of the fn: str | u64 | usize
                kinds = list(s.args); nw = 0
                k = it.body_open + 1
                while k < it.body_close:
                    is_format = src.is_id(k, 'format') and src.is_p(k + 1, '!') and src.is_p(k + 2, '(')
                    if is_format or (src.is_id(k, 'write') and src.is_p(k + 1, '!') and src.is_p(k + 2, '(')):
                        po = k + 2; pc = src.match(po)
                        parts = []; a0 = po + 1; q = po + 1
                        while q < pc:
                            tt = src.t(q)
                            if tt.kind == 'punct' and tt.text in OPEN: q = src.match(q) + 1; continue
                            if tt.kind == 'punct' and tt.text == ',': parts.append((a0, q)); a0 = q + 1
                            q += 1
                        if a0 < pc: parts.append((a0, pc))
                        if is_format:
                            # `format!(..)`: the sink is a fresh String (N9b); same expansion with the String putters
                            parts = [None] + parts
                            bufe = '&mut vx_fs'
                        else:
                            bufe = src.text_of(*parts[0])
                        lit = src.t(parts[1][0])
                        if lit.kind != 'str' or parts[1][1] != parts[1][0] + 1: raise SpliceError('unsupported: N9 format string of write! in fn %s is not a literal' % key)
                        lt = lit.text
                        if lt.startswith('r'):
                            h = lt[1:].index('"'); body = lt[2 + h:len(lt) - 1 - h]
                        else:
                            body = bytes(lt[1:-1], 'utf-8').decode('unicode_escape')
                        if '{{' in body or '}}' in body: raise SpliceError('unsupported: N9 escaped braces in fn %s' % key)
                        # `{}` takes the next positional argument, `{ident}` names a variable in scope (inline format argument)
                        toks_ = re.split(r'(\{[A-Za-z_][A-Za-z0-9_]*\}|\{\}|\{:03\})', body)
                        pieces = toks_[0::2]; holes = toks_[1::2]
                        if any('{' in p_ or '}' in p_ for p_ in pieces): raise SpliceError('unsupported: N9 format spec other than {} / {ident} in fn %s' % key)
                        pos_ = [src.text_of(*p_) for p_ in parts[2:]]
                        argsx = []
                        for h_ in holes:
                            if h_ in ('{}', '{:03}'):
                                if not pos_: raise SpliceError('unsupported: N9 placeholder/argument count in fn %s' % key)
                                argsx.append(pos_.pop(0))
                            else: argsx.append(h_[1:-1])
                        if pos_: raise SpliceError('unsupported: N9 placeholder/argument count in fn %s' % key)
                        def rl(p_): return '"' + p_.replace('\\', '\\\\').replace('"', '\\"').replace('\n', '\\n') + '"'
                        out = ['{ '] if not is_format else ['{ let mut vx_fs = vx_string_new(); ']
                        putters = {'str': 'vx_put_str', 'u64': 'vx_put_u64', 'usize': 'vx_put_usize', 'u8': 'vx_put_u8d', 'u16': 'vx_put_u16', 'u32': 'vx_put_u32', 'u128': 'vx_put_u128', 'u128pad3': 'vx_put_u128_pad3'}
                        if is_format: putters = {'str': 'vx_sput_str', 'u128': 'vx_sput_u128', 'u128pad3': 'vx_sput_u128_pad3'}
                        for i_, p_ in enumerate(pieces):
                            if p_: out.append('proof { reveal_strlit(%s); } %s(%s, %s); ' % (rl(p_), putters['str'], bufe, rl(p_)))
                            if i_ < len(argsx):
                                if not kinds: raise SpliceError('lost anchor: fmtwrite of fn %s names too few placeholder kinds' % key)
                                kd = kinds.pop(0)
                                if (holes[i_] == '{:03}') != kd.endswith('pad3'): raise SpliceError('unsupported: N9 format spec %s against putter kind %s in fn %s' % (holes[i_], kd, key))
                                if kd not in putters: raise SpliceError('unsupported: N9 putter kind %s in fn %s' % (kd, key))
                                out.append(('%s(%s, %s); ' if kd == 'str' else '%s(%s, &(%s)); ') % (putters[kd], bufe, argsx[i_]))
                        out.append('vx_fmt_ok() }' if not is_format else 'vx_fs }')
                        k0 = k
                        # a path prefix `::std::` / `std::` in front of the macro name goes with it
                        if src.is_p(k0 - 1, ':') and src.is_p(k0 - 2, ':') and src.is_id(k0 - 3, 'std'):
                            k0 -= 3
                            if src.is_p(k0 - 1, ':') and src.is_p(k0 - 2, ':'): k0 -= 2
                        self.ed.replace(src.t(k0).start, src.t(pc).end, ''.join(out))
                        nw += 1; k = pc + 1; continue
                    k += 1
                if nw == 0 and not s.optional: raise SpliceError('lost anchor: fn %s has no write!( / format!(' % key)
                if nw: applied.append('N9')
            if s.word == 'select':
                self.select_rewrite(it, applied)

        # ---- N10 (method form): `RECV.m(ARGS)` -> `wrapper(RECV, ARGS)` for provided trait methods that cannot carry a specification
        for s in subs:
            if s.word == 'wrapcall':
                k_ord = int(s.args[0]); meth = s.args[1]; wrapper = s.args[2]
                hits = []
                for k in find_token_seq(src, it.body_open, it.body_close, ['.', meth]):
                    q = k + 2
                    if src.is_p(q, ':') and src.is_p(q + 1, ':') and src.is_p(q + 2, '<'):
                        q = src.skip_angle(q + 2)
                    if src.is_p(q, '('): hits.append((k, q))
                if k_ord >= len(hits):
                    raise SpliceError('lost anchor: fn %s method call .%s( #%d (found %d)' % (key, meth, k_ord, len(hits)))
                k, po = hits[k_ord]
                rs = self.postfix_start(k - 1)
                empty = src.match(po) == po + 1
                kv = dict(a.split('=', 1) for a in s.args[3:] if '=' in a)
                if 'bind' in kv:
                    # `{ let NAME = RECV; <ghost> wrapper(NAME, ARGS) }`  (N10 + N19)
                    t, ids = mark_obligations(s.text); clause_ids += ids
                    self.ed.insert(src.t(rs).start, '{ let %s = ' % kv['bind'])
                    self.ed.replace(src.t(k).start, src.t(po).end, '; ' + t + ' ' + wrapper + '(' + kv['bind'] + ('' if empty else ', '))
                    self.ed.insert(src.t(src.match(po)).end, ' }')
                    applied.append('N19')
                else:
                    self.ed.insert(src.t(rs).start, wrapper + '(')
                    self.ed.replace(src.t(k).start, src.t(po).end, '' if empty else ', ')
                applied.append('N10')

        # ---- N19: name the receiver temporary of a method call: `RECV.m(ARGS)` -> `{ let mut NAME = RECV; <ghost> NAME.m(ARGS) }`
        for s in subs:
            if s.word == 'bindrecv':
                k_ord = int(s.args[0]); meth = s.args[1]; name = s.args[2]
                hits = [k for k in find_token_seq(src, it.body_open, it.body_close, ['.', meth, '('])]
                if k_ord >= len(hits):
                    raise SpliceError('lost anchor: fn %s method call .%s( #%d (found %d)' % (key, meth, k_ord, len(hits)))
                k = hits[k_ord]
                rs = self.postfix_start(k - 1)
                ce = src.match(k + 2)
                t, ids = mark_obligations(s.text); clause_ids += ids
                self.ed.insert(src.t(rs).start, '{ let mut %s = ' % name)
                self.ed.replace(src.t(k).start, src.t(k).end, '; ' + t + ' ' + name + '.')
                self.ed.insert(src.t(ce).end, ' }')
                applied.append('N19')

        # ---- N4: or-pattern split
        for s in subs:
            if s.word == 'orsplit':
                self.orsplit(it, applied)
            if s.word == 'strmatch':
                self.strmatch(it, applied)
            if s.word == 'tokens':
                # fn-local token rewrite: tokens "<rule>" "<pattern>" "<replacement>"
                rid, pat, rep = s.args[0], pat_tokens(s.args[1]), s.args[2]
                hits = find_token_seq(src, it.head_si, it.body_close, pat)
                if not hits:
                    if s.optional:
                        self.report['file_rules'].append({'file': self.fs.path, 'rule': 'note', 'text': 'fn %s: optional token pattern %r not present' % (key, s.args[1])})
                        continue
                    raise SpliceError('lost anchor: fn %s token pattern %r' % (key, s.args[1]))
                for k in hits:
                    self.ed.replace(src.t(k).start, src.t(k + len(pat) - 1).end, rep); applied.append(rid)

        # ---- after / before call anchors
        for s in subs:
            if s.word in ('after', 'before'):
                k_ord = int(s.args[0]); pat = pat_tokens(s.args[1])
                hits = find_token_seq(src, it.body_open, it.body_close, pat)
                if k_ord >= len(hits):
                    if s.optional:
                        self.report['file_rules'].append({'file': self.fs.path, 'rule': 'note', 'text': 'fn %s: optional anchor %r #%d not present' % (key, s.args[1], k_ord)})
                        continue
                    raise SpliceError('lost anchor: fn %s call %r #%d (found %d)' % (key, s.args[1], k_ord, len(hits)))
                sa, se = self.stmt_bounds(hits[k_ord], it.body_open, it.body_close)
                t, ids = mark_obligations(s.text); clause_ids += ids
                if s.word == 'after':
                    self.ed.insert(src.t(se).end, '\n' + t + '\n')
                else:
                    self.ed.insert(src.t(sa).start, '\n' + t + '\n')

        # ---- tail binding (N14): `tailbind name` binds the tail expression so an epilogue can follow
        for s in subs:
            if s.word == 'tailbind':
                name = s.args[0]
                ts = self.tail_start(it)
                t, ids = mark_obligations(s.text); clause_ids += ids
                self.ed.insert(src.t(ts).start, 'let %s = ' % name)
                self.ed.insert(src.t(it.body_close).start, ';\n' + t + '\n' + name + '\n'); applied.append('N14')

        self.report['functions'].append({
            'key': key, 'file': self.fs.path,
            'line': self.text.count('\n', 0, src.t(it.kw_si).start) + 1,
            'props': props, 'implicit': implicit, 'rules': sorted(set(applied)), 'clauses': clause_ids,
            'loops': nloops, 'kind': d.args[0] if d.word == 'lift' else d.word,
            'assumed_here': 'external_body' in attr_txt,
        })
        return attr_txt

    def select_rewrite(self, it: Item, applied):
        """N3: `tokio::select!{ a = F1 => B1 b = F2 => B2 }` -> `if tokio::vx_select2() { let a = F1; B1 } else { let b = F2; B2 }`
        (F awaited through the stand-in unless it is a de-async'ed in-repo call)"""
        src = self.src
        k = it.body_open
        found = False
        while k < it.body_close:
            if src.is_id(k, 'select') and src.is_p(k + 1, '!') and src.is_p(k + 2, '{'):
                start = k
                if src.is_p(k - 1, ':') and src.is_p(k - 2, ':') and src.is_id(k - 3, 'tokio'): start = k - 3
                o = k + 2; c = src.match(o)
                arms = []
                q = o + 1
                while q < c:
                    # PAT = FUT => BODY[,]
                    ps = q
                    while not src.is_p(q, '='): q = src.skip_group(q)
                    pe = q; q += 1
                    fs_ = q
                    while not (src.is_p(q, '=') and src.is_p(q + 1, '>') and src.t(q).end == src.t(q + 1).start): q = src.skip_group(q)
                    fe = q; q += 2
                    if not src.is_p(q, '{'): raise SpliceError('unsupported: select! arm body is not a block in fn %s' % it.name)
                    be = src.match(q)
                    arms.append((ps, pe, fs_, fe, q, be))
                    q = be + 1
                    if src.is_p(q, ','): q += 1
                if len(arms) != 2: raise SpliceError('unsupported: select! with %d arms in fn %s' % (len(arms), it.name))
                parts = []
                for (ps, pe, fs_, fe, bo, be) in arms:
                    fut = self.ed.apply(self.text, src.t(fs_).start, src.t(fe - 1).end)
                    callee = None
                    if src.is_p(fe - 1, ')'):
                        oo = src.match(fe - 1)
                        if src.is_id(oo - 1): callee = src.t(oo - 1).text
                    aw = '' if callee in self.deasync_strip else '.vx_await()'
                    body = self.ed.apply(self.text, src.t(bo).start, src.t(be).end)
                    parts.append('let %s = %s%s; %s' % (src.text_of(ps, pe), fut, aw, body))
                self.ed.drop_range(src.t(start).start, src.t(c).end)
                self.ed.replace(src.t(start).start, src.t(c).end, 'if tokio::vx_select2() { %s } else { %s }' % (parts[0], parts[1]))
                applied.append('N3'); found = True
                k = c + 1; continue
            k += 1
        if not found:
            raise SpliceError('lost anchor: fn %s has no select!' % it.name)

    def n1(self, it: Item, applied):
        """strip tracing: #[tracing::instrument], statement macros, `let x = span!(..);`, `.instrument(..)` adapters"""
        src = self.src
        for at in it.attrs:
            if 'tracing::instrument' in at:
                i0 = self.text.find(at, it.lo, src.t(it.kw_si).start)
                self.ed.delete(i0, i0 + len(at)); applied.append('N1')
        k = it.body_open
        while k < it.body_close:
            t = src.t(k)
            if t.kind == 'ident' and t.text in TRACING_MACROS and src.is_p(k + 1, '!') and src.is_p(k + 2, '('):
                prev = src.t(k - 1)
                if prev.kind == 'punct' and prev.text in ('{', '}', ';'):
                    e = src.match(k + 2)
                    endtok = e + 1 if src.is_p(e + 1, ';') else e
                    self.ed.delete(t.start, src.t(endtok).end); applied.append('N1')
                    k = endtok + 1; continue
                if prev.kind == 'punct' and prev.text == '>' and src.is_p(k - 2, '='):
                    e = src.match(k + 2)
                    self.ed.replace(t.start, src.t(e).end, '{}'); applied.append('N1')
                    k = e + 1; continue
            # `let NAME = span!(..);`
            if t.kind == 'ident' and t.text == 'let' and src.is_id(k + 1) and src.is_p(k + 2, '=') and src.is_id(k + 3, 'span') and src.is_p(k + 4, '!'):
                e = src.match(k + 5)
                endtok = e + 1 if src.is_p(e + 1, ';') else e
                self.ed.delete(t.start, src.t(endtok).end); applied.append('N1')
                k = endtok + 1; continue
            # `.instrument(..)`
            if src.is_p(k, '.') and src.is_id(k + 1, 'instrument') and src.is_p(k + 2, '('):
                e = src.match(k + 2)
                self.ed.delete(t.start, src.t(e).end); applied.append('N1')
                k = e + 1; continue
            k += 1

    def n2(self, it: Item, applied):
        src = self.src
        for q in range(it.head_si, it.kw_si):
            if src.is_id(q, 'async'):
                self.ed.delete(src.t(q).start, src.t(q + 1).start); applied.append('N2')
        for k in range(it.body_open, it.body_close):
            if src.is_p(k, '.') and src.is_id(k + 1, 'await'):
                callee = None
                q = k - 1
                while src.is_p(q, ')'):
                    o = src.match(q)
                    if src.is_id(o - 1): callee = src.t(o - 1).text
                    if callee == 'instrument' and src.is_p(o - 2, '.'):
                        q = o - 3; continue       # `F(..).instrument(span).await`: the awaited future is F(..)
                    break
                if callee in self.deasync_strip:
                    self.ed.delete(src.t(k).start, src.t(k + 1).end)
                else:
                    self.ed.replace(src.t(k).start, src.t(k + 1).end, '.vx_await()')
                applied.append('N2')

    def find_closures(self, it: Item):
        """closures in textual order: (params '|' open si, params '|' close si, body first si, body last si, body_is_block)"""
        src = self.src
        out = []
        k = it.body_open + 1
        while k < it.body_close:
            if src.is_p(k, '|'):
                prev = src.t(k - 1)
                starts = (prev.kind == 'punct' and prev.text in ('(', ',', '=', '{', ';', '>')) or (prev.kind == 'ident' and prev.text in ('move', 'return'))
                if starts:
                    po = k
                    if src.is_p(k + 1, '|') and src.t(k).end == src.t(k + 1).start:
                        pc = k + 1
                    else:
                        pc = k + 1
                        while not src.is_p(pc, '|'):
                            pc = src.skip_group(pc)
                    b = pc + 1
                    if src.is_p(b, '-') and src.is_p(b + 1, '>'):
                        # explicit return type: body must be a block
                        while not src.is_p(b, '{'): b += 1
                    if src.is_p(b, '{'):
                        out.append((po, pc, b, src.match(b), True))
                        k = pc + 1; continue
                    e = b
                    while e < it.body_close:
                        t = src.t(e)
                        if t.kind == 'punct' and t.text in (',', ';'): break
                        if t.kind == 'punct' and t.text in CLOSE: break
                        e = src.skip_group(e)
                    out.append((po, pc, b, e - 1, False))
                    k = pc + 1; continue
            k += 1
        return out

    def postfix_start(self, k):
        """sig index where the postfix expression ending at sig index k starts"""
        src = self.src
        while True:
            t = src.t(k)
            if t.kind == 'punct' and t.text in (')', ']'):
                k = src.match(k)
                # fall through to look at what precedes the group
                p = src.t(k - 1)
                if p.kind == 'ident' and p.text not in ('return', 'in', 'if', 'match', 'while', 'let', 'else', 'break'):
                    k -= 1; continue
                if p.kind == 'punct' and p.text in (')', ']'):
                    k -= 1; continue
                if p.kind == 'punct' and p.text == '!' and src.t(k - 2).kind == 'ident':
                    k -= 2; continue
                return k
            if t.kind in ('ident', 'num', 'str', 'char'):
                p = src.t(k - 1)
                if p.kind == 'punct' and p.text == '.':
                    k -= 2; continue
                if p.kind == 'punct' and p.text == ':' and src.is_p(k - 2, ':'):
                    k -= 3; continue
                return k
            if t.kind == 'punct' and t.text == '>':
                # turbofish / generic args: find '<'
                depth = 0
                while True:
                    tt = src.t(k)
                    if tt.kind == 'punct' and tt.text == '>': depth += 1
                    if tt.kind == 'punct' and tt.text == '<':
                        depth -= 1
                        if depth == 0: break
                    k -= 1
                k -= 1
                if src.is_p(k, ':') and src.is_p(k - 1, ':'): k -= 2
                continue
            raise SpliceError('unsupported: cannot find operand start of `?`')

    def stmt_bounds(self, si, lo_limit, hi_limit):
        src = self.src
        # innermost enclosing brace block
        q = si - 1
        blk_open = lo_limit
        while q > lo_limit:
            t = src.t(q)
            if t.kind == 'punct' and t.text in CLOSE:
                q = src.match(q) - 1; continue
            if t.kind == 'punct' and t.text == '{':
                blk_open = q; break
            q -= 1
        blk_close = src.match(blk_open)
        # statement start
        q = si - 1
        while q > blk_open:
            t = src.t(q)
            if t.kind == 'punct' and t.text == ';': break
            if t.kind == 'punct' and t.text in CLOSE:
                m = src.match(q)
                if t.text == '}':
                    nxt = src.t(q + 1)
                    cont = (nxt.kind == 'punct' and nxt.text in ('.', '?')) or (nxt.kind == 'ident' and nxt.text in ('else',))
                    if not cont: break
                q = m - 1; continue
            q -= 1
        sa = q + 1
        # block-like statements end at their closing brace, not at the next ';'
        t0 = src.t(sa)
        if t0.kind == 'lifetime' and src.is_p(sa + 1, ':'):
            t0 = src.t(sa + 2); first = sa + 2
        else:
            first = sa
        if t0.kind == 'ident' and t0.text in ('for', 'while', 'loop', 'if', 'match'):
            q = first + 1
            while True:
                while not src.is_p(q, '{'):
                    q = src.skip_group(q)
                e = src.match(q)
                if t0.text == 'if' and src.is_id(e + 1, 'else'):
                    q = e + 2
                    continue
                break
            if not (src.is_p(e + 1, '.') or src.is_p(e + 1, '?')):
                if e >= si:
                    return sa, (e + 1 if src.is_p(e + 1, ';') else e)
        q = si
        while q < blk_close:
            t = src.t(q)
            if t.kind == 'punct' and t.text in OPEN:
                q = src.match(q) + 1; continue
            if t.kind == 'punct' and t.text == ';':
                return sa, q
            q += 1
        return sa, blk_close - 1

    def tail_start(self, it: Item):
        """sig index of the first token of the tail expression of the fn body"""
        src = self.src
        q = it.body_close - 1
        if src.is_p(q, ';'):
            raise SpliceError('lost anchor: fn %s has no tail expression' % it.name)
        if src.t(q).kind == 'punct' and src.t(q).text in CLOSE:
            q = src.match(q)
        sa, _ = self.stmt_bounds(q, it.body_open, it.body_close)
        return sa

    def orsplit(self, it: Item, applied):
        src = self.src
        k = it.body_open + 1
        while k < it.body_close:
            if src.is_p(k, '=') and src.is_p(k + 1, '>') and src.t(k).end == src.t(k + 1).start:
                # pattern start: scan back to ',' '{' or '}' at depth 0
                q = k - 1
                while True:
                    t = src.t(q)
                    if t.kind == 'punct' and t.text in CLOSE:
                        if t.text == '}':
                            # could be a struct pattern `X { a, .. }` : part of the pattern if followed by '|' or '=>' or 'if'
                            nxt = src.t(q + 1)
                            if (nxt.kind == 'punct' and nxt.text in ('|', '=')) or (nxt.kind == 'ident' and nxt.text == 'if'):
                                q = src.match(q) - 1; continue
                            break
                        q = src.match(q) - 1; continue
                    if t.kind == 'punct' and t.text in (',', '{'): break
                    q -= 1
                ps = q + 1
                # top-level '|' in [ps, k)
                bars = []
                j = ps
                guard = None
                while j < k:
                    t = src.t(j)
                    if t.kind == 'punct' and t.text in OPEN:
                        j = src.match(j) + 1; continue
                    if t.kind == 'ident' and t.text == 'if' and guard is None: guard = j
                    if t.kind == 'punct' and t.text == '|' and guard is None and j > ps: bars.append(j)
                    j += 1
                if bars:
                    # arm body
                    bs = k + 2
                    if src.is_p(bs, '{'):
                        be = src.match(bs)
                        body = src.text_of(bs, be + 1)
                        end = be
                        if src.is_p(end + 1, ','): end += 1
                    else:
                        e = bs
                        while not (src.is_p(e, ',') or e >= it.body_close or (src.t(e).kind == 'punct' and src.t(e).text == '}')):
                            e = src.skip_group(e)
                        body = src.text_of(bs, e) + ','
                        end = e if src.is_p(e, ',') else e - 1
                    pend = guard if guard is not None else k
                    gtxt = (' ' + src.text_of(guard, k)) if guard is not None else ''
                    cuts = [ps] + [b + 1 for b in bars]
                    ends = bars + [pend]
                    arms = []
                    for c, e2 in zip(cuts, ends):
                        arms.append('%s%s => %s' % (src.text_of(c, e2), gtxt, body if body.rstrip().endswith(',') or body.rstrip().endswith('}') else body + ','))
                    self.ed.replace(src.t(ps).start, src.t(end).end, '\n'.join(arms))
                    applied.append('N4')
                    k = end + 1; continue
            k += 1

    def strmatch(self, it: Item, applied):
        """N7: `match E { "a" => X, "b" | "c" => Y, _ => Z }` on str -> if/else chain (only for matches all of whose
        non-wildcard arms are string literals). Only the `match E {` header, the arm patterns and the arm separators are
        edited; arm bodies stay where they are, so other rewrites inside them compose."""
        src = self.src
        k = it.body_open + 1
        while k < it.body_close:
            if src.is_id(k, 'match'):
                # scrutinee up to '{'
                j = k + 1
                while not src.is_p(j, '{'):
                    j = src.skip_group(j)
                mo, mc = j, src.match(j)
                arms = self.match_arms(mo, mc)
                if arms and all(a['lits'] is not None or a['wild'] for a in arms) and any(a['lits'] for a in arms):
                    if not any(a['wild'] for a in arms):
                        raise SpliceError('unsupported: str match without wildcard arm')
                    scrut = src.text_of(k + 1, mo)
                    self.ed.replace(src.t(k).start, src.t(mo).end, '{ let vx_s = %s; ' % scrut)
                    first = True
                    for a in arms:
                        if a['wild']:
                            bind = a['bind']
                            pre = ('let %s = vx_s; ' % bind) if bind and bind != '_' else ''
                            head = ' else { %s' % pre
                        else:
                            cond = ' || '.join('vx_s == %s' % l for l in a['lits'])
                            head = '%sif %s { ' % ('' if first else ' else ', cond)
                            first = False
                        # pattern and `=>` -> head ; after the body -> `}` ; the separating comma goes
                        self.ed.replace(src.t(a['ps']).start, src.t(a['arrow'] + 1).end, head)
                        self.ed.insert(src.t(a['body_end'] - 1).end, ' }')
                        if a['comma'] is not None:
                            self.ed.replace(src.t(a['comma']).start, src.t(a['comma']).end, '')
                    applied.append('N7')
                    # nested matches inside the arms are handled too
                    k = mo + 1; continue
            k += 1

    def match_arms(self, mo, mc):
        src = self.src
        arms = []
        k = mo + 1
        while k < mc:
            ps = k
            while not (src.is_p(k, '=') and src.is_p(k + 1, '>') and src.t(k).end == src.t(k + 1).start):
                k = src.skip_group(k)
                if k >= mc: return None
            pe = k
            bs = k + 2
            comma = None
            if src.is_p(bs, '{'):
                be = src.match(bs)
                body = src.text_of(bs + 1, be)
                body_end = be + 1
                k = be + 1
                if src.is_p(k, ','): comma = k; k += 1
            else:
                e = bs
                while e < mc and not src.is_p(e, ','):
                    e = src.skip_group(e)
                body = src.text_of(bs, e)
                body_end = e
                if e < mc: comma = e
                k = e + 1
            # classify the pattern
            toks = [src.t(q) for q in range(ps, pe)]
            lits = []
            ok = True
            for i, t in enumerate(toks):
                if i % 2 == 0:
                    if t.kind == 'str': lits.append(t.text)
                    else: ok = False
                else:
                    if not (t.kind == 'punct' and t.text == '|'): ok = False
            wild = len(toks) == 1 and toks[0].kind == 'ident' and (toks[0].text == '_' or toks[0].text[0].islower())
            arms.append({'lits': lits if ok and lits else None, 'wild': wild, 'bind': toks[0].text if wild else None, 'body': body,
                         'ps': ps, 'arrow': pe, 'body_end': body_end, 'comma': comma})
        return arms

    # ---------------------------------------------------------------- file level
    def run(self):
        src = self.src
        fs = self.fs
        imports = ''
        appends = []
        # pass 1: file-level settings
        for d in fs.dirs:
            if d.word == 'rule':
                # rule <id> "<pattern>" "<replacement>"
                self.rules.append((d.args[0], pat_tokens(d.args[1]), d.args[2]))
            elif d.word == 'deasync':
                self.deasync_strip |= set(d.args)
        for d in fs.dirs:
            if d.word in ('rule', 'deasync'):
                continue
            if d.word in ('deasync_impl', 'deasync_fn', 'normalize_all'):
                continue
            if d.word == 'imports':
                imports += d.text + '\n'
            elif d.word == 'append':
                t, ids = mark_obligations(d.text)
                appends.append('verus!{\n' + t.replace('/*@blk*/', '').replace('/*@endblk*/', '') + '\n}\n')
                self.report['ghost_clauses'] += ids
            elif d.word == 'lemma':
                # a property-level proof fn (theorem over the contracts), verified on every run; attributed like a lifted fn
                name = d.args[0]
                props = [p for a in d.args[1:] for p in a.split(',') if p]
                t, ids = mark_obligations(d.text)
                t = t.replace('/*@blk*/', '').replace('/*@endblk*/', '')
                appends.append('verus!{\n/*@fn lemma:%s*/\n/*@blk*/%s/*@endblk*/\n/*@endfn*/\n}\n' % (name, t))
                self.report['functions'].append({'key': 'lemma:' + name, 'file': fs.path, 'line': 0, 'props': props, 'implicit': props, 'rules': [],
                                                 'clauses': ids, 'loops': 0, 'kind': 'lemma', 'verus_name': name,
                                                 'proof_fns': re.findall(r'\bproof fn (\w+)', d.text)})
            elif d.word == 'keylemma':
                # generated proof: the given string literals are pairwise different (needed because field keys are literals)
                name = d.args[0]; keys = d.args[1:]
                body = ['    ' + ' '.join('reveal_strlit("%s");' % k for k in keys)]
                body.append('    ' + ' '.join('assert("%s"@.len() == %d);' % (k, len(k)) for k in keys))
                ens = []
                for a_ in range(len(keys)):
                    for b_ in range(a_ + 1, len(keys)):
                        ka, kb = keys[a_], keys[b_]
                        ens.append('"%s"@ != "%s"@' % (ka, kb))
                        if len(ka) == len(kb):
                            ix = next(i_ for i_ in range(len(ka)) if ka[i_] != kb[i_])
                            body.append('    assert("%s"@[%d] != "%s"@[%d]);' % (ka, ix, kb, ix))
                txt = 'pub proof fn %s()\n    ensures\n        %s,\n{\n%s\n}\n' % (name, ',\n        '.join(ens), '\n'.join(body))
                appends.append('verus!{\n' + txt + '}\n')
            elif d.word == 'iclemma':
                # generated proof: the given string literals are pairwise different even ignoring ASCII case
                name = d.args[0]; keys = d.args[1:]
                body = ['    ' + ' '.join('reveal_strlit("%s");' % k for k in keys)]
                body.append('    ' + ' '.join('assert("%s"@.len() == %d);' % (k, len(k)) for k in keys))
                ens = []
                for a_ in range(len(keys)):
                    for b_ in range(a_ + 1, len(keys)):
                        ka, kb = keys[a_], keys[b_]
                        ens.append('!eq_ic("%s"@, "%s"@)' % (ka, kb)); ens.append('!eq_ic("%s"@, "%s"@)' % (kb, ka))
                        if len(ka) == len(kb):
                            ix = next(i_ for i_ in range(len(ka)) if ka[i_].lower() != kb[i_].lower())
                            body.append('    assert(ascii_lower("%s"@[%d]) != ascii_lower("%s"@[%d]));' % (ka, ix, kb, ix))
                txt = 'pub proof fn %s()\n    ensures\n        %s,\n{\n%s\n}\n' % (name, ',\n        '.join(ens), '\n'.join(body))
                appends.append('verus!{\n' + txt + '}\n')
            elif d.word == 'alllemma':
                # generated proof: SEQ_PRED holds of every literal, from CHAR_PRED of each of its characters
                name, seqp, chp = d.args[0], d.args[1], d.args[2]; keys = d.args[3:]
                body = []
                for k in keys:
                    body.append('    reveal_strlit("%s"); assert("%s"@.len() == %d); %s assert(%s("%s"@));' % (k, k, len(k), ' '.join('assert(%s("%s"@[%d]));' % (chp, k, i_) for i_ in range(len(k))), seqp, k))
                txt = 'pub proof fn %s()\n    ensures\n        %s,\n{\n%s\n}\n' % (name, ',\n        '.join('%s("%s"@)' % (seqp, k) for k in keys), '\n'.join(body))
                appends.append('verus!{\n' + txt + '}\n')
            elif d.word == 'appendraw':
                appends.append(d.text + '\n')
            elif d.word == 'delete':
                pat = d.text.strip() if d.text else d.args[0]
                i0 = self.text.find(pat)
                if i0 < 0:
                    if 'optional' in d.args: continue
                    raise SpliceError('lost anchor: text %r not in %s' % (pat[:40], fs.path))
                self.ed.delete(i0, i0 + len(pat))
                self.report['file_rules'].append({'file': fs.path, 'rule': d.args[0] if d.args else 'delete', 'text': pat})
            elif d.word == 'copy':
                srcp = os.path.join(self.cdir, d.args[0]); dst = os.path.join(self.root, d.args[1])
                shutil.copy(srcp, dst)
            elif d.word == 'ghostfield':
                self.ghostfield(d)
            elif d.word == 'replaceitem':
                it = self.find_top(d.args[0], d.args[1], int(d.args[2]) if len(d.args) > 2 else 0)
                self.ed.drop_range(it.lo, it.hi)
                self.ed.replace(it.lo, it.hi, d.text)
                self.report['file_rules'].append({'file': fs.path, 'rule': 'replaceitem', 'text': '%s %s' % (d.args[0], d.args[1])})
            elif d.word == 'lift' and d.args[0] == 'item':
                kind, name = d.args[1], d.args[2]
                ordinal = int(d.args[3]) if len(d.args) > 3 else 0
                it = self.find_top(kind, name, ordinal)
                attr = ''.join(s.text.strip() + '\n' for s in d.subs if s.word == 'attr')
                self.ed.insert(it.lo, 'verus!{\n' + attr)
                self.ed.insert(it.hi, '\n}')
                extra = ''.join(s.text + '\n' for s in d.subs if s.word == 'member')
                if extra:
                    if it.body_open < 0: raise SpliceError('unsupported: member on an item without a body: %s' % name)
                    self.ed.insert(src.t(it.body_open).end, '\n' + extra)
                for s in d.subs:
                    if s.word == 'constspec':
                        # N13: `const X: &T = LIT;` -> `#[verifier::external_body] exec const X: &'static T ensures <..> { LIT }`
                        # (Verus gives a literal no meaning: its value is an ASSUMED fact, checked by executing the constant)
                        k = it.kw_si
                        colon = k + 2
                        if not src.is_p(colon, ':'): raise SpliceError('unsupported const shape: %s' % name)
                        q = colon + 1
                        while not src.is_p(q, '='): q = src.skip_group(q)
                        semi = q
                        while not src.is_p(semi, ';'): semi = src.skip_group(semi)
                        t, ids = mark_obligations(s.text)
                        self.ed.insert(src.t(k).start, '#[verifier::external_body] exec ')
                        if src.is_p(colon + 1, '&') and src.t(colon + 2).kind != 'lifetime':
                            self.ed.insert(src.t(colon + 1).end, "'static ")
                        self.ed.replace(src.t(q).start, src.t(q).end, t + ' {')
                        self.ed.replace(src.t(semi).start, src.t(semi).end, ' }')
                        self.report['file_rules'].append({'file': fs.path, 'rule': 'N13', 'text': 'const %s (value assumed: %s)' % (name, ','.join(ids))})
                for s in d.subs:
                    if s.word == 'traitspec':
                        # contract on a trait method declaration (no body): text goes before its ';'
                        c = [x for x in it.children if x.kind == 'fn' and x.name == s.args[0]]
                        if not c: raise SpliceError('lost anchor: trait %s has no method %s' % (name, s.args[0]))
                        m = c[0]
                        t, ids = mark_obligations(s.text)
                        props = [p for a in s.args[1:] for p in a.split(',') if p]
                        if m.body_open >= 0:
                            self.ed.insert(src.t(m.body_open).start, '\n' + t + '\n')
                        else:
                            self.ed.insert(m.hi - 1, '\n' + t + '\n')
                        self.report['functions'].append({'key': '%s::%s' % (name, m.name), 'file': fs.path, 'line': self.text.count('\n', 0, src.t(m.kw_si).start) + 1,
                                                         'props': props, 'implicit': [], 'rules': [], 'clauses': ids, 'loops': 0, 'kind': 'trait-contract'})
                for s in d.subs:
                    if s.word == 'tokens':
                        pat = pat_tokens(s.args[1])
                        end_si = it.body_close
                        if end_si < 0:
                            end_si = it.head_si
                            while end_si < src.n() and src.t(end_si).start < it.hi: end_si += 1
                        hits = find_token_seq(src, it.head_si, end_si, pat)
                        if not hits: raise SpliceError('lost anchor: item %s token pattern %r' % (name, s.args[1]))
                        for k in hits:
                            self.ed.replace(src.t(k).start, src.t(k + len(pat) - 1).end, s.args[2])
                self.report['items'].append({'kind': kind, 'name': name, 'file': fs.path})
            elif d.word == 'lift' and d.args[0] == 'fn':
                key = d.args[1]
                try:
                    owner, it = self.find_fn(key)
                except SpliceError as e:
                    # the function no longer exists under this name (renamed / removed / folded into another one): ITS contract cannot be
                    # placed and its properties are undecided; the rest of the unit is still spliced and verified (callers of a renamed
                    # function call an unlifted one, which the runner lifts bare)
                    props = [q for x in d.subs if x.word == 'props' for a in x.args for q in a.split(',') if q]
                    implicit = [q for x in d.subs if x.word == 'implicit' for a in x.args for q in a.split(',') if q]
                    self.report['functions'].append({'key': key, 'file': self.fs.path, 'line': 0, 'props': list(props), 'implicit': list(implicit), 'rules': [],
                                                     'clauses': [], 'loops': 0, 'kind': 'fn', 'assumed_here': False, 'dropped': str(e), 'missing': True})
                    self.report['file_rules'].append({'file': self.fs.path, 'rule': 'degraded', 'text': 'fn %s: %s - contract not placed, its properties undecided' % (key, e)})
                    continue
                if owner is None:
                    attr = self.fn_edits(it, d, key, None)
                    self.ed.insert(it.lo, 'verus!{\n' + attr + '/*@fn %s*/\n' % key)
                    self.ed.insert(it.hi, '/*@endfn*/\n}')
                else:
                    self.impl_by_id[id(owner)] = owner
                    self.lifted_members.setdefault(id(owner), []).append((it, d, key))
            elif d.word == 'lift' and d.args[0] == 'impl':
                key = d.args[1]
                ordinal = int(d.args[2]) if len(d.args) > 2 else 0
                c = [it for it in self.items if it.kind == 'impl' and re.sub(r'\s+', '', it.name) == re.sub(r'\s+', '', key)]
                if len(c) <= ordinal: raise SpliceError('lost anchor: impl %s in %s' % (key, fs.path))
                self.whole_impls[id(c[ordinal])] = (c[ordinal], d)
                self.impl_by_id[id(c[ordinal])] = c[ordinal]
            elif d.word == 'expandmacros':
                self.report['file_rules'].append({'file': fs.path, 'rule': 'N11', 'text': 'macro_rules! %s expanded in place (%d invocations, tools/macroexp.py)' % (' '.join(d.args), self.n11)})
            else:
                raise SpliceError('unknown directive %s in %s' % (d.word, fs.path))

        # member functions
        for iid, impl in self.impl_by_id.items():
            members = self.lifted_members.get(iid, [])
            if iid in self.whole_impls:
                impl, d = self.whole_impls[iid]
                attr = ''.join(s.text.strip() + '\n' for s in d.subs if s.word == 'attr')
                extra = ''.join(s.text + '\n' for s in d.subs if s.word == 'member')
                self.ed.insert(impl.lo, 'verus!{\n' + attr)
                self.ed.insert(impl.hi, '\n}')
                if extra:
                    self.ed.insert(src.t(impl.body_open).end, '\n' + extra)
                for (it, fd, key) in members:
                    a = self.fn_edits(it, fd, key, impl)
                    self.ed.insert(it.lo, a + '/*@fn %s*/\n' % key)
                    self.ed.insert(it.hi, '/*@endfn*/')
                # members without a directive are lifted as they are
                named = {id(it) for (it, _, _) in members}
                for c in impl.children:
                    if c.kind == 'fn' and id(c) not in named:
                        key = '%s::%s' % (impl.name, c.name)
                        dd = vspec.Dir('lift', ['fn', key])
                        a = self.fn_edits(c, dd, key, impl)
                        self.ed.insert(c.lo, a + '/*@fn %s*/\n' % key)
                        self.ed.insert(c.hi, '/*@endfn*/')
            elif members:
                if impl.impl_trait is not None:
                    raise SpliceError('unsupported: fn of a trait impl lifted without `lift impl %s`' % impl.name)
                header = src.text_of(impl.kw_si, impl.body_open)
                attrs = ''.join(a + '\n' for a in impl.attrs if not a.startswith('#[doc'))
                parts = []
                for (it, fd, key) in members:
                    a = self.fn_edits(it, fd, key, impl)
                    body = self.ed.apply(self.text, it.lo, it.hi)
                    parts.append(a + '/*@fn %s*/\n' % key + body + '/*@endfn*/\n')
                for (it, fd, key) in members:
                    self.ed.drop_range(it.lo, it.hi)
                    self.ed.delete(it.lo, it.hi)
                new = '\nverus!{\n%s%s {\n%s}\n}\n' % (attrs, header, '\n'.join(parts))
                self.ed.insert(impl.hi, new)

        # N2 on the unlifted members of impls that must compile against the synchronous tokio stand-in
        for d in fs.dirs:
            if d.word == 'deasync_impl':
                key = d.args[0]; ordinal = int(d.args[1]) if len(d.args) > 1 else 0
                c = [it for it in self.items if it.kind == 'impl' and re.sub(r'\s+', '', it.name) == re.sub(r'\s+', '', key)]
                if len(c) <= ordinal: raise SpliceError('lost anchor: impl %s in %s' % (key, fs.path))
                lifted = {id(it) for (it, _, _) in self.lifted_members.get(id(c[ordinal]), [])}
                n = 0
                for ch in c[ordinal].children:
                    if ch.kind == 'fn' and id(ch) not in lifted and ch.body_open >= 0:
                        ap = []; self.n2(ch, ap); n += len(ap)
                self.report['file_rules'].append({'file': fs.path, 'rule': 'N2', 'text': 'unlifted members of impl %s (%d edits)' % (key, n)})
            if d.word == 'normalize_all':
                # N1 + N2 on every fn of this file that is not lifted (the whole module must compile against the synchronous tokio stand-in)
                lifted = set()
                for lst in self.lifted_members.values():
                    for (x, _, _) in lst: lifted.add(id(x))
                for iid, (impl, _) in self.whole_impls.items():
                    for ch in impl.children: lifted.add(id(ch))
                top_lifted = {dd.args[1] for dd in fs.dirs if dd.word == 'lift' and dd.args[0] == 'fn' and '::' not in dd.args[1]}
                n = 0
                def walk(items):
                    nonlocal n
                    for x in items:
                        if x.cfg_test: continue
                        if x.kind == 'fn' and x.body_open >= 0 and id(x) not in lifted and x.name not in top_lifted:
                            ap = []; self.n1(x, ap); self.n2(x, ap); n += len(ap)
                        elif x.kind in ('impl', 'trait'):
                            walk(x.children)
                walk(self.items)
                self.report['file_rules'].append({'file': fs.path, 'rule': 'N1+N2', 'text': 'all unlifted fns of the file (%d edits)' % n})
            if d.word == 'deasync_fn':
                _, it = self.find_fn(d.args[0])
                ap = []; self.n2(it, ap)
                self.report['file_rules'].append({'file': fs.path, 'rule': 'N2', 'text': 'unlifted fn %s (%d edits)' % (d.args[0], len(ap))})
        if imports:
            pos = self.items[0].lo if self.items else 0
            self.ed.insert(pos, imports)
        out = self.ed.apply(self.text, 0, len(self.text))
        out += '\n' + '\n'.join(appends)
        open(self.path, 'w').write(out)

    def ghostfield(self, d: vspec.Dir):
        src = self.src
        sname, decl, init = d.args[0], d.args[1], d.args[2]
        # optional per-function initialisers: ghostfield S "f: T" "default" fnname "init" fnname "init" ...
        per_fn = {d.args[i]: d.args[i + 1] for i in range(3, len(d.args) - 1, 2)}
        fn_ranges = []
        def walk(items, prefix):
            for x in items:
                if x.kind == 'fn' and x.body_open >= 0:
                    fn_ranges.append((prefix + x.name, x.body_open, x.body_close))
                elif x.kind == 'impl':
                    walk(x.children, x.name + '::')
        walk(self.items, '')
        fname = decl.split(':')[0].strip()
        it = self.find_top('struct', sname)
        if it.body_close < 0: raise SpliceError('unsupported: ghostfield on tuple struct')
        # trailing comma?
        last = src.t(it.body_close - 1)
        sep = '' if (last.kind == 'punct' and last.text == ',') else ','
        self.ed.insert(src.t(it.body_close).start, '%s %s,\n' % (sep, decl))
        n = 0
        for k in range(src.n() - 1):
            if src.is_id(k, sname) and src.is_p(k + 1, '{') and k != it.kw_si + 1:
                prev = src.t(k - 1) if k > 0 else None
                if prev is not None and prev.kind == 'ident' and prev.text in ('struct', 'impl', 'for', 'enum', 'union'):
                    continue
                # skip patterns (contain `..` at top level and no `:` values) — conservative: literal if no '..' token pair directly before '}'
                c = src.match(k + 1)
                if src.is_p(c - 1, '.') and src.is_p(c - 2, '.'):
                    continue
                ini = init
                for (fk, a_, b_) in fn_ranges:
                    if a_ < k < b_ and fk in per_fn: ini = per_fn[fk]
                self.ed.insert(src.t(k + 1).end, ' %s: %s,' % (fname, ini)); n += 1
        self.report['file_rules'].append({'file': self.fs.path, 'rule': 'N15-ghostfield', 'text': '%s.%s (%d literals)' % (sname, fname, n)})


def splice(root: str, spec_paths: List[str], contracts_dir: str, unit: str = '', extra_lifts=(), force_drop=(), canary=False) -> dict:
    report = {'functions': [], 'items': [], 'file_rules': [], 'ghost_clauses': []}
    byfile: Dict[str, vspec.FileSpec] = {}
    for sp in spec_paths:
        for fs in vspec.parse(sp, unit):
            if fs.path in byfile:
                byfile[fs.path].dirs += fs.dirs
            else:
                byfile[fs.path] = fs
    # functions lifted on the fly (helpers introduced by an edit and called from lifted code): bare, no contract
    for (path, key, props) in extra_lifts:
        d = vspec.Dir('lift', ['fn', key])
        d.subs.append(vspec.Dir('props', list(props)))
        if path not in byfile:
            fs0 = vspec.FileSpec(path)
            fs0.dirs.append(vspec.Dir('imports', [], '#[allow(unused_imports)]\nuse vstd::prelude::*;'))
            byfile[path] = fs0
        if not any(x.word == 'lift' and x.args[:2] == ['fn', key] for x in byfile[path].dirs):
            byfile[path].dirs.append(d)
    report['auto_lifted'] = [{'file': p_, 'fn': k_} for (p_, k_, _) in extra_lifts]
    for path, fs in byfile.items():
        fsp = FileSplicer(root, fs, contracts_dir, report)
        fsp.force_drop = set(force_drop)
        fsp.canary = canary
        fsp.run()
    return report


def build_linemap(path: str):
    """scan a spliced file (bytes) for marker comments -> fn ranges, inserted-block ranges, obligation markers (byte offsets)"""
    data = open(path, 'rb').read()
    fns = []; obs = []; blks = []
    stack = []; bstack = []
    for m in re.finditer(rb'/\*@(fn|endfn|ob|blk|endblk)\s*([^*]*)\*/', data):
        kind = m.group(1).decode(); arg = m.group(2).decode().strip()
        if kind == 'fn':
            stack.append((arg, m.end()))
        elif kind == 'endfn':
            if stack:
                k, s0 = stack.pop()
                fns.append({'key': k, 'lo': s0, 'hi': m.start()})
        elif kind == 'blk':
            bstack.append(m.end())
        elif kind == 'endblk':
            if bstack:
                blks.append({'lo': bstack.pop(), 'hi': m.start()})
        else:
            obs.append({'id': arg, 'pos': m.start()})
    return {'fns': fns, 'obs': obs, 'blks': blks}


if __name__ == '__main__':
    root = sys.argv[1]
    unit = os.environ.get('VX_UNIT', 'P')
    rep = splice(root, sys.argv[2:], os.path.join(os.path.dirname(os.path.abspath(__file__)), '..', 'contracts'), unit)
    json.dump(rep, sys.stdout, indent=1)

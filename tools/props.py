"""Per-property configuration: which verification units a property's obligations live in, which proved spec modules it
uses, the bounded stand-ins / Kani harnesses attached to it, and the assumptions listed in its evidence."""

TRUSTED_COMMON = [
    'Verus 0.2026.09.13 + Z3 (verifier), rustc 1.98.1 front end; usize = 64 bit',
    'normalisation rules N1-N18 of DESIGN §3 (syntactic, applied to lifted items only, logged per function)',
]
TRUSTED_BYTES = 'assumed contracts on bytes::BytesMut (len,is_empty,zeroed,with_capacity,clear,split_to,split_off,unsplit,resize,truncate,advance,put_u8,put_slice,Deref,DerefMut, len<=isize::MAX) in contracts/prelude/vx_base.rs'
TRUSTED_NOM = ('nom is replaced by the stand-in crate contracts/prelude/vx_nom.rs for the verification runs: ASSUMED relational contracts of the combinators parser.rs uses (tag, take, take_until [one-byte tag], take_while, take_while1, char, newline, digit1, is_alphabetic, map_res, opt, cut, delimited, separated_pair, terminated, tuple [arity 3]), written from nom 7.1.3 bytes::streaming / character::streaming / combinator / sequence; '
    'every sub-parser of parser.rs (greeting, number, error, error_code_and_index, error_current_command, key_value_field, field_value, binary_prefix, binary_field, into_owned_error) is PROVED against the wire grammar on top of them; '
    'NOT verified: ParsedComponent::parse (the closure of its last `map` captures &mut field_cache, which Verus rejects) keeps the ASSUMED contract == spec_component, i.e. the alt-glue of the five proved alternatives and the result conversions; the bounded conformance run (real nom against the reference parser) stands in for the glue and for the combinator contracts (bounded_standins); '
    'ASSUMED about std: core::str::from_utf8 succeeds exactly on vstd::utf8::valid_utf8 bytes; u64/usize::from_str of a non-empty ASCII digit string = its decimal value, error iff above MAX (axiom_parse_*_digits in vx_base.rs)')
TRUSTED_STD = 'assumed contracts on std (mem::replace, io::Read::read returns n<=buf.len(), io::Error::new wrapper, str/String/Vec specs shipped with vstd)'
TRUSTED_TOKIO = 'tokio stand-in crate (contracts/prelude/vx_tokio.rs): read_buf appends what it returns (0 = EOF), write_all, unbounded mpsc FIFO, oneshot pairing, timeout, select! = arbitrary choice (N3)'
TRUSTED_DERIVE = 'compiler-derived PartialEq on ResponseState given its structural meaning (only comparison with the field-less Initial variant is interpreted)'

PROPS = {
    'C03': {
        'units': ['P'], 'spec_tags': ['wire', 'fold', 'sub'],
        'trusted': [TRUSTED_BYTES, TRUSTED_NOM, TRUSTED_STD, TRUSTED_DERIVE,
                    'ResponseFieldCache::insert (ahash HashSet) unverified: returns an Arc<str> equal to its argument (part of the parser contract)'],
        'bounded': ['conformance', 'search'],
    },
}
for _k in ('C02', 'C09', 'C10', 'C18'):
    PROPS[_k] = {'units': ['P'], 'spec_tags': ['wire', 'fold', 'sub'],
                 'trusted': [TRUSTED_BYTES, TRUSTED_NOM, TRUSTED_STD, TRUSTED_DERIVE, TRUSTED_TOKIO], 'bounded': ['conformance', 'search']}

# which proved lemmas of vx_spec belong to which property (by module)
SPEC_MODULE_PROPS = {
    'wire': ['C02', 'C03', 'C09', 'C10', 'C18'],
    'sub': ['C02', 'C03', 'C09', 'C18'],
    'fold': ['C02', 'C03', 'C09', 'C10'],
    'tok': ['C06', 'C07', 'C11', 'C15'],
    'filt': ['C11'],
    'sess': ['C01', 'C04', 'C05', 'C08', 'C17', 'C18'],
}

TRUSTED_STRSPEC = 'assumed contracts on std str/iterator functions (str::contains/starts_with via Pattern, char_indices, Filter::count, slice::Iter::position, Iterator::find/sum wrappers, String::with_capacity, Cow deref, char::is_ascii_alphabetic, BytesMut::from(&str), Bytes) in contracts/prelude/vx_base.rs'
TRUSTED_TOK = "oracle: spec port of MPD's Tokenizer (NextWord/NextParam/NextString/NextUnquoted/StripLeft) in contracts/spec/tok.rs, transcribed from the MPD sources from memory; char-level model of a byte-level tokenizer (every byte of a multi-byte UTF-8 scalar is >= 0x80, so no byte of it is a separator, quote or backslash)"
TRUSTED_MEM = 'a str in memory is shorter than 2^62 bytes and the lengths of simultaneously live buffers sum to less than 2^62 (capacity arithmetic in escape_argument / CommandList::render)'
for _k, _b in (('C06', ['cmdsearch']), ('C07', ['cmdsearch', 'literals']), ('C13', ['cmdsearch', 'literals'])):
    PROPS[_k] = {'units': ['P', 'Pc'], 'spec_tags': ['tok'], 'trusted': [TRUSTED_BYTES, TRUSTED_STRSPEC, TRUSTED_TOK, TRUSTED_MEM, TRUSTED_STD], 'bounded': _b}
PROPS['C13']['trusted'].append('the values of the byte-string literals COMMAND_LIST_BEGIN/END are assumed in Verus (contract C13.literal.*) and decided by executing them (bounded_standins: literals)')

PROPS['C19'] = {'units': ['P'], 'spec_tags': [], 'bounded': ['frameops'],
                'trusted': [TRUSTED_BYTES, TRUSTED_STD,
                            'Frame::get and Frame::find are proved on top of the ASSUMED contract of std\'s provided Iterator::find_map (wrappers vx_slots_find_map_mut over slice::IterMut with a ghost relation implied by the closure\'s own contract, declared no_unwind; vx_fields_find_map on the Fields iterator: the closure is applied in order up to the first Some, later slots untouched) and of str == str (vx_str_eq); bounded differential stand-in frameops as a cross-check',
                            "assumed contracts of std's default Iterator::count on the repository's Fields iterator (wrapper vx_fields_count), Option::as_deref, Arc/String::as_ref, vstd's slice::Iter / vec::IntoIter laws",
                            'termination of the hole-skipping recursion in Fields/IntoIter::{next,next_back} is not checked (exec_allows_no_decreases_clause): each recursive call consumes one slot of a finite vector',
                            'a slice / Vec of non-zero-sized elements has at most isize::MAX elements (size_hint arithmetic)']}

TRUSTED_SESS = "oracle: MPD session model (contracts/spec/sess.rs): while the server waits in idle only noidle may be written; noidle outside idle is ignored without a reply; every other command is answered exactly once and in order (transcribed from the MPD protocol reference)"
TRUSTED_ASYNC = 'N2 de-async: suspension points are dropped; sound for single-task reasoning because everything a task touches between two awaits is owned or &mut-borrowed by it; other tasks are visible only through channels whose contracts are nondeterministic; N3: select! is an arbitrary choice (any polling order, no fairness); cancellation of the losing future is NOT modelled beyond the cancel-safety obligation of AsyncConnection::receive (C04.cancel_safe)'
TRUSTED_CHAN = 'concurrency between client handles is abstracted by the queue contract (unbounded mpsc FIFO across all sender clones, items travel as tuples), not explored schedule by schedule; drop semantics of Rust (State, responders and the transport are dropped when run_loop returns) are assumed, not checked'
for _k in ('C01', 'C04', 'C05', 'C08'):
    PROPS[_k] = {'units': ['C'], 'spec_tags': ['sess'], 'trusted': [TRUSTED_TOKIO, TRUSTED_SESS, TRUSTED_ASYNC, TRUSTED_CHAN, TRUSTED_BYTES, TRUSTED_STD], 'bounded': ['clientsim']}

PROPS['C18']['units'] = ['P', 'C']
PROPS['C18']['spec_tags'] = ['wire', 'fold', 'sub', 'sess']
PROPS['C18']['bounded'] = list(PROPS['C18'].get('bounded', [])) + ['clientsim']
PROPS['C18']['trusted'] = PROPS['C18']['trusted'] + [TRUSTED_ASYNC, 'the password is one argument the command builder accepts (no LF / NUL after rendering): precondition of do_connect, otherwise Command::argument panics (observation, DESIGN §10)']

TRUSTED_PARSE = "assumed contracts on std: str::parse::<T>() is an uninterpreted function parse_spec::<T> of the text (what Rust accepts as a number is not re-specified), f64 -> Duration conversion uninterpreted (dur_of_f64), str::split_once / String::as_str / to_owned per vx_base.rs"
TRUSTED_FRAMEGET = 'Frame::get / Frame::find are PROVED (ordered multimap: first field with the key, taken out by get) on top of the ASSUMED contracts of std\'s provided Iterator::find_map on the repository\'s Fields iterator and on slice::IterMut (N10 wrappers vx_fields_find_map / vx_slots_find_map_mut: the closure is applied in order up to the first Some, later slots untouched); cross-checked by the bounded stand-in frameops under C19'
TRUSTED_ORACLE_FIELDS = "oracle: MPD's reply field names and value domains (status, stats, replay_gain_status, ...) transcribed from the protocol reference into the spec functions of contracts/mpd_client/responses.vspec"
PROPS['C16'] = {'units': ['C'], 'spec_tags': [], 'trusted': [TRUSTED_PARSE, TRUSTED_FRAMEGET, TRUSTED_ORACLE_FIELDS, TRUSTED_STD], 'bounded': ['typeddiff']}
PROPS['C12'] = {'units': ['C'], 'spec_tags': [], 'trusted': [TRUSTED_PARSE, TRUSTED_FRAMEGET, TRUSTED_STD,
                'panic freedom is an implicit obligation of every LIFTED function (panic!/unreachable!/assert!/unwrap/indexing/overflow carry preconditions); functions not lifted are covered only by the bounded fuzz (bounded_standins: typedfuzz), listed in functions_not_under_contract'],
                'bounded': ['typedfuzz']}

PROPS['C20'] = {'units': ['C'], 'spec_tags': [], 'bounded': ['tagtable'],
                'trusted': ["oracle: MPD's tag names (tag_item_names) and idle subsystem names, and the MusicBrainz meaning of the *_ID tags, transcribed into Tag::name / Subsystem::name (contracts/mpd_client/tag.vspec, client.vspec)",
                            'assumed contracts of std: str::eq_ignore_ascii_case == eq_ic, Cow<str>/str ==, cmp (uninterpreted total order str_cmp of the texts) and Hash::hash (new hasher state = uninterpreted function hash_str of old state and text) through N10 wrappers; char_indices yields the chars in order with byte offsets equal to the index over an ASCII prefix; Box<str>::from(&str), to_string (vx_base.rs)',
                            'N11: match_ignore_case! expanded by tools/macroexp.py from the macro_rules! definition in the same file',
                            'Eq/Ord/Hash LAWS (reflexivity, consistency of hash with ==) follow from comparing one derived value (the name) only if std str ==/cmp/hash obey them: assumed', TRUSTED_STD]}

PROPS['C14'] = {'units': ['C'], 'spec_tags': [], 'bounded': ['typeddiff'],
                'trusted': [TRUSTED_PARSE, TRUSTED_FRAMEGET, TRUSTED_STD,
                            "the song decoder's tag map (HashMap<Tag, Vec<String>> with the repository's own Hash/Eq on Tag) is outside vstd's HashMap model: the per-song attribute/tag content is decided only by the bounded differential stand-in (typeddiff)"]}

PROPS['C13']['units'] = ['P', 'Pc', 'C']
PROPS['C13']['bounded'] = list(PROPS['C13']['bounded']) + ['listpair']
PROPS['C13']['trusted'] = PROPS['C13']['trusted'] + ['N11: impl_command_list_tuple! expanded by tools/macroexp.py from the macro_rules! definition in the same file',
    '<Vec<C> as CommandList>::command_list (map with a trait-method path, Extend) is NOT under contract (external_body; its trait-level postcondition `non-empty raw list` is assumed): bounded stand-in listpair; its responses half (zip loop) IS proved',
    'pairing is stated over the relational trait spec Command::resp_ok / resp_err (the i-th value is a faithful decoding of the i-th frame; a refusal means some command refuses its frame): heap values (Vec, String) have no spec-level constructor, so a functional spec is not expressible',
    "vstd's specification of vec::IntoIter::next (prophetic remaining sequence)"]

TRUSTED_FILT = "oracle: spec port of MPD's SongFilter::ParseExpression / ExpectWord / ExpectQuoted (contracts/spec/filt.rs) and its Rust twin (replay/src/mpdfilter.rs), transcribed from the MPD sources from memory"
PROPS['C11'] = {'units': ['C'], 'spec_tags': ['tok', 'filt'], 'bounded': ['filtersearch'],
                'trusted': [TRUSTED_TOK, TRUSTED_FILT, TRUSTED_BYTES, TRUSTED_STD,
                            'N9: write!(buf, "..{}..", ..) with plain {} placeholders of str-like arguments expanded to appends of the pieces (BytesMut as fmt::Write appends the UTF-8 bytes; fails only beyond usize::MAX bytes)',
                            'assumed contracts of std through N10 wrappers: str::contains(char), str::replace(char, &str) (every occurrence replaced, left to right), Cow/AsRef<str> views',
                            'tags inside a filter are valid field names (Tag::Other built by hand may not be: documented precondition of the crate)',
                            'termination of the recursive FilterType::render is not checked (exec_allows_no_decreases_clause): it recurses on strict sub-terms']}

# ---- per-property wording of the claimed level (used by tools/mkmanifest.py)
PROPS['C14']['category'] = 'exploration'
PROPS['C14']['level_text'] = ("BOUNDED, not proved: the song decoder keeps tags in a HashMap keyed by the repository's own Hash/Eq on Tag, which vstd cannot model, so no contract within reach pins the decoded songs down. "
    "The property is decided by a bounded differential run (abstract listing -> MPD wire text -> real parser -> real decoder -> compared attribute by attribute); Verus contributes only the contracts of the pieces it shares with other properties (Frame iteration, Tag parsing/equality, duration and number conversion)")
PROPS['C14']['level_note'] = 'bounded stand-in typeddiff (stated bound in evidence); no obligation of this property is counted as proved'
PROPS['C14']['technique'] = 'bounded differential execution of the real decoder against an abstract listing (stand-in inside the contract-based framework; the deductive part covers only shared callees)'
PROPS['C12']['level_text'] = ("Panic freedom is an IMPLICIT obligation of every function lifted into Verus (panic!/unreachable!/assert!/unwrap/indexing/slicing/overflow/division carry preconditions that must be discharged for all inputs): proved for the lifted decoders "
    "(responses/mod.rs, count.rs from_frame, sticker get/value, tag.rs, filter.rs, command_list.rs tuples, client handle functions). The remaining decoders (song.rs, list.rs, playlist.rs, grouped count, sticker list/find, definitions.rs response fns, Vec command lists) are covered only by the bounded fuzz typedfuzz")
PROPS['C12']['level_note'] = 'mixed: proof for the functions listed under functions_under_contract, bounded (typedfuzz, labelled bounded) for functions_not_under_contract; built without the chrono feature'
PROPS['C16']['level_text'] = ("Status, Stats, ReplayGainStatus, Count (plain), AlbumArt, StickerGet and the field extraction helpers are PROVED equal to field oracles evaluated on the ORIGINAL frame (every optional-field subset, any field order, values outside the domain => error), for all frames. "
    "Also proved: listplaylists (Playlist::parse_frame) for well-formed replies, and the grouped-list state machine (List::grouped_values, GroupedListValuesIter::next) against a grouping oracle. "
    "Grouped count, List::from_frame and the plain list iterators, sticker list/find, channels, messages, tag types are generic-iterator / iterator-adaptor / HashMap code outside Verus' reach: bounded differential stand-in typeddiff")
PROPS['C16']['level_note'] = 'mixed: proof for the decoders under contract, bounded (typeddiff) for the rest; number/duration parsing of std is an uninterpreted function of the text'
PROPS['C20']['level_text'] = ("Proved for all tags / subsystems / candidate strings: as_str equals the oracle name table, ==, cmp, partial_cmp and hash are functions of the protocol name only, parsing is total and case-insensitive for known names with the exact error for the first offending character, "
    "named variants round-trip; one clause fails and is a known finding (catch-all holding a known name in another letter case)")
PROPS['C11']['level_text'] = ("Proved for all filter trees and all value strings: every constructor builds the stated tree (AND flattened), the bytes written are the MPD expression text with the library's value escaping, and - by a lemma over a spec port of MPD's tokenizer and filter grammar - the server reads back the same tree "
    "whenever each value is written as esc(esc(v)); that side condition is proved for every value without a double quote (backslashes included, after the fix) and fails for values with a double quote (known finding)")
PROPS['C13']['level_text'] = ("Proved: list rendering (one begin/end block for N >= 2, the bare command for N = 1) for all lists, and positional pairing of all eight tuple impls (expanded from the macro) against ghost command/response specs of the Command trait. "
    "positional pairing of the Vec<C> impl (zip loop, count check) is proved too; only its command_list half (iterator adaptors) is bounded: stand-in listpair (by parametricity nearly exhaustive); the framing literals are decided by execution")

PROPS['C17'] = {'units': ['C'], 'spec_tags': ['sess'], 'bounded': ['clientsim'],
    'trusted': ['ENVIRONMENT MODEL (hypothesis of the property, introduced by `assume` at the four request sites of Client::album_art and nowhere else): the server holds, per URI, an optional embedded picture and an optional cover file (bytes + MIME type), '
                'knows readpicture or answers it with error code 5, has a chunk limit >= 1, and answers every albumart/readpicture request at offset o either with an error or with the total size, the type and the bytes [o, min(o+limit, size)); albumart carries no type field',
                'the reply of a typed command is what Client::command returns; its relation to the frame is the separately proved contract of AlbumArt::from_frame (C17.album_art.*) and Client::command (frame of the right request: C01)',
                TRUSTED_ASYNC, TRUSTED_BYTES, TRUSTED_STD,
                'observation (outside the quantifier): a server sending EMPTY chunks (limit 0) would make the loop repeat the same offset forever'],
    'level_text': "Proved for all picture sizes, chunk limits >= 1, both sources and every error placement, relative to an explicit model of an honest server: the result is byte-identical to the picture, carries the embedded picture's MIME type, falls back exactly when readpicture yields nothing or is unknown (code 5), "
                  "reports absence exactly when neither source has data, propagates every other error (`?`), issues requests at strictly increasing offsets and terminates (decreases clause)",
    'level_note': 'the environment model is an assumption (listed); concurrency with other callers is covered by C01 (each request gets its own reply)'}

PROPS['C15'] = {'units': ['P', 'C'], 'spec_tags': ['tok'], 'bounded': ['cmddiff'],
    'trusted': [TRUSTED_TOK, TRUSTED_BYTES, TRUSTED_STD,
                "oracle: per-command expectation table written from the MPD protocol reference (replay/src/bin/cmd_diff.rs), position-set meaning of a:b / a: ranges",
                "vstd's specification of RangeBounds for the std range types; for a generic range the spec functions are tied to start_bound/end_bound by N10 wrappers (definitional)",
                'strings without a blank that contain a quote or backslash are excluded from the differential run (C06 known finding); Move::range with an open end, TagTypes with an empty list and strings with LF/NUL panic by documentation and are excluded'],
    'category': 'exploration',
    'level_text': "PROVED only for the range mechanism: SongRange::new_usize denotes exactly the positions of the Rust range for every RangeBounds value (saturating at usize::MAX), and the command builder it feeds (C06/C07 contracts). "
                  "The per-command table itself (58 commands, 125 constructor/builder paths) is macro- and fmt-heavy code that was not brought under contract in the time available: it is decided by a BOUNDED differential run against an expectation table",
    'level_note': 'bounded (cmddiff) for the command table, proof for range normalisation; never counted as proved beyond the functions under contract',
    'technique': 'contract-based deductive verification (Verus) of the range normalisation; bounded differential execution of the real command builders against an expectation table for the rest'}

# C14 after the song builder was brought under contract
PROPS['C14'].pop('category', None); PROPS['C14'].pop('technique', None)
PROPS['C14']['trusted'] = [TRUSTED_PARSE, TRUSTED_FRAMEGET, TRUSTED_STD,
    "oracle: the listing fold (contracts/mpd_client/song.vspec: start_step / song_step / run / songs_of), an operational transcription of the property's mechanism (entries start at file / directory / playlist; attributes collected since the last file line; duration preferred over the legacy Time; everything else is a tag filed under its protocol name)",
    "ASSUMED (N10 same-body wrappers): HashMap<Tag, Vec<String>>::entry(tag).or_default().push(v) appends v to the values filed under the tag's protocol name (std HashMap + the repository's Hash/Eq on Tag, which go by name: proved under C20); the compiler-derived SongBuilder::default() / mem::take leave every field empty / zero / None; &Arc<str> derefs to its text",
    "field names are non-empty and consist of ASCII letters, '_' and '-': PROVED as a type invariant of mpd_protocol's field container (push_field requires a wire key; ResponseBuilder::parse discharges it from the parser's contract; lemma_frame_keys), required by Command::response at the trait level and discharged in Client::command / raw_command_list. It rests on: the derived Clone keeps the slots' keys; Vec::push and iter_mut().find_map (with the closure of Frame::get) do not unwind (N10 wrappers vx_slots_push, vx_slots_find_map_mut)",
    'verified WITHOUT the chrono feature (every Last-Modified text is accepted; with chrono a text that is no RFC 3339 timestamp is an error)',
    'termination of the loops over the frame iterator is not checked (exec_allows_no_decreases_clause)']
PROPS['C14']['level_text'] = ("Proved for all listings: Song::from_frame_multi, SongInQueue::from_frame_multi and from_frame_single compute exactly the fold of the listing oracle over the frame's fields (one song per file entry, server order, each with the url, duration, position/id/priority/range, format, "
    "last-modified text and the tag values per tag name in order that appeared between its file line and the next entry), every rejected line is an error, nothing panics; relative to an assumed contract for the std HashMap holding the tags. The bounded differential run typeddiff checks the same end to end, including that assumption")
PROPS['C14']['level_note'] = 'proof modulo the listed assumed contracts (HashMap entry API, derived Default); the field-name alphabet is proved (type invariant of the frame); the Command::response fns of the five song-listing commands are proved against the listing oracle; typeddiff is a bounded cross-check, not counted as proved'

# C15 after the per-command contracts were generated (tools/gen_defs.py)
PROPS['C15'].pop('category', None); PROPS['C15'].pop('technique', None)
PROPS['C15']['level_text'] = ("Proved for all parameter values: all 58 predefined commands write exactly the request documented for them (command word, every argument in the documented position; strings as one escape_argument-rendered argument, numbers as decimal text, booleans 0/1, enum keywords, ranges START:END / START:, durations as seconds with three decimals rounded half-up to the millisecond, `+`/`-` in front for relative seeks), "
    "checked against an oracle table written from the protocol reference (tools/gen_defs.py; List, TagTypes and Seek hand-written with loop invariants / the format! expansion N9b); range normalisation (SongRange::new_usize / new) denotes exactly the positions of the Rust range, saturating at usize::MAX; integer / SongId / SongPosition / range / bool / Duration Argument impls append what the table says; "
    "relative positions (+N / -N), optional arguments and keyword groups included. All 62 public constructors / builder methods (Count::group_by, Find::sort / window, Add::before_current, Move::range, TagTypes::enable, StickerFind::where_eq, ...) are proved to yield a value whose request is the documented one for their parameters (builder table in tools/gen_defs.py; chained builders through closed accessors; the five builders with a generic Into<..> parameter only as 'the documented request for some position / id'; documented panics - Move::range with an open end, TagTypes::enable/disable of an empty list - are preconditions). The bounded stand-in cmddiff runs all 125 builder paths as a cross-check and as the source of failing inputs")
PROPS['C15']['level_note'] = 'proof for the 58 commands and the mechanisms listed under functions_under_contract (constructors and builder methods included); Display of unsigned integers is an uninterpreted function assumed to consist of ASCII digits, `{:03}` of a number below 1000 is assumed to be its three digits; Duration::as_nanos uninterpreted'
PROPS['C15']['trusted'] = PROPS['C15']['trusted'] + ['ASSUMED about Display of unsigned integers: a non-empty string of ASCII digits (dec_text, uninterpreted otherwise), `{:03}` of n < 1000 is exactly its three digits; Duration::as_secs / as_nanos are uninterpreted (as_nanos bounded by u64::MAX s + 999_999_999 ns)',
    'N11: argless_command! / single_arg_command! expanded by tools/macroexp.py; the `response` member of commands with a typed reply is PROVED against the relational trait spec resp_ok / resp_err (= the postcondition of the decoder via call_ensures, or the listing oracle) except for five whose decoder is iterator-adaptor code (List, CountGrouped, StickerList, StickerFind, ReadChannelMessages: external_body, resp_ok = true)',
    'documented panics are preconditions: string parameters must be writable (no LF / NUL after rendering): trait-level `cmd_ok` / `list_ok`, required by Client::command / album_art']

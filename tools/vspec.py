#!/usr/bin/env python3
"""Parser for /verif/contracts/**/*.vspec contract files.

Line oriented.  A directive is `word arg arg ...`; if the line ends with `<<<` the following lines up
to a line consisting of `>>>` are the directive's text block.  `#` starts a comment line outside text
blocks.  Structure: `file <path>` opens a file section; `lift fn`/`lift impl`/`lift item` open an
item section whose sub-directives follow until the next top-level directive.
"""
import re, shlex
from dataclasses import dataclass, field
from typing import List, Optional, Dict, Tuple

SUB = {'ret', 'attr', 'spec', 'prologue', 'epilogue', 'loop', 'after', 'before', 'try', 'breakret', 'orsplit',
       'shape', 'props', 'member', 'strmatch', 'forwhile', 'tailbind', 'sig', 'swap', 'note', 'selfret', 'tokens', 'vis', 'unwrap_tail', 'implicit', 'breakassign', 'closure', 'foriter', 'bindrecv', 'wrapcall', 'traitspec', 'constspec', 'mutself', 'norules', 'mutparam', 'callmon', 'select', 'whilelet', 'forloop', 'callfn', 'fmtwrite', 'bytelits', 'strmatches', 'predclosures'}


@dataclass
class Dir:
    word: str
    args: List[str]
    text: str = ''
    line: int = 0
    subs: List['Dir'] = field(default_factory=list)
    optional: bool = False


@dataclass
class FileSpec:
    path: str
    dirs: List[Dir] = field(default_factory=list)


class VspecError(Exception):
    pass


def parse(path: str, unit: str = '') -> List[FileSpec]:
    files: List[FileSpec] = []
    cur_file: Optional[FileSpec] = None
    cur_item: Optional[Dir] = None
    lines = []
    active = True
    for raw in open(path).read().split('\n'):
        st = raw.strip()
        # conditional sections: `@begin U1 U2` ... `@end` are kept only when the unit being spliced is listed
        if st.startswith('@begin '):
            active = unit in st.split()[1:]
            continue
        if st == '@end':
            active = True
            continue
        if active:
            lines.append(raw)
    i = 0
    while i < len(lines):
        raw = lines[i]
        ln = raw.strip()
        i += 1
        if not ln or ln.startswith('#'):
            continue
        text = ''
        if ln.endswith('<<<'):
            ln = ln[:-3].strip()
            buf = []
            start = i
            while i < len(lines) and lines[i].strip() != '>>>':
                buf.append(lines[i]); i += 1
            if i >= len(lines):
                raise VspecError('%s:%d: unterminated <<<' % (path, start))
            i += 1
            text = '\n'.join(buf)
        parts = shlex.split(ln)
        d = Dir(parts[0], parts[1:], text, i)
        if d.word == 'file':
            cur_file = FileSpec(d.args[0]); files.append(cur_file); cur_item = None
            continue
        if cur_file is None:
            raise VspecError('%s:%d: directive outside a file section' % (path, i))
        if d.word.endswith('?'):
            d.word = d.word[:-1]; d.optional = True
        if d.word in SUB and cur_item is not None:
            cur_item.subs.append(d)
            continue
        cur_file.dirs.append(d)
        cur_item = d if d.word in ('lift', 'external') else None
    return files

#!/usr/bin/env python3
"""Trivia-preserving Rust lexer + item locator + function anatomy (no third-party packages).

Only what the splice tool needs: byte-exact spans of items, impl members, function signatures,
bodies, loops, call sites and `?` sites.  It is *not* a parser of Rust expressions.
"""
import re
from dataclasses import dataclass, field
from typing import List, Optional

IDENT_START = re.compile(r'[A-Za-z_\u0080-\U0010ffff]')
IDENT_RE = re.compile(r'(?:r#)?[A-Za-z_\u0080-\U0010ffff][A-Za-z0-9_\u0080-\U0010ffff]*')
NUM_RE = re.compile(r'(?:0x[0-9a-fA-F_]+|0o[0-7_]+|0b[01_]+|[0-9][0-9_]*(?:\.[0-9][0-9_]*)?(?:[eE][+-]?[0-9_]+)?)(?:[iuf](?:8|16|32|64|128|size))?')


@dataclass
class Tok:
    kind: str   # ws comment ident lifetime char str num punct
    text: str
    start: int
    end: int

    @property
    def trivia(self):
        return self.kind in ('ws', 'comment')


class LexError(Exception):
    pass


def lex(src: str) -> List[Tok]:
    toks = []
    i = 0
    n = len(src)
    while i < n:
        c = src[i]
        if c.isspace():
            j = i + 1
            while j < n and src[j].isspace():
                j += 1
            toks.append(Tok('ws', src[i:j], i, j)); i = j; continue
        if src.startswith('//', i):
            j = src.find('\n', i)
            if j < 0: j = n
            toks.append(Tok('comment', src[i:j], i, j)); i = j; continue
        if src.startswith('/*', i):
            depth = 1; j = i + 2
            while j < n and depth:
                if src.startswith('/*', j): depth += 1; j += 2
                elif src.startswith('*/', j): depth -= 1; j += 2
                else: j += 1
            toks.append(Tok('comment', src[i:j], i, j)); i = j; continue
        # raw strings / byte strings / c strings
        m = re.match(r'(?:b|c)?r(#*)"', src[i:i + 40])
        if m:
            hashes = m.group(1)
            close = '"' + hashes
            j = src.find(close, i + m.end())
            if j < 0: raise LexError('unterminated raw string at %d' % i)
            j += len(close)
            toks.append(Tok('str', src[i:j], i, j)); i = j; continue
        if c == '"' or (c in 'bc' and src.startswith('"', i + 1)):
            j = i + (1 if c == '"' else 2)
            while j < n and src[j] != '"':
                j += 2 if src[j] == '\\' else 1
            j += 1
            toks.append(Tok('str', src[i:j], i, j)); i = j; continue
        if c == "'" or (c == 'b' and src.startswith("'", i + 1)):
            k = i + (1 if c == "'" else 2)
            # char literal or lifetime
            if k < n and src[k] == '\\':
                j = k + 2
                while j < n and src[j] != "'": j += 1
                j += 1
                toks.append(Tok('char', src[i:j], i, j)); i = j; continue
            if k + 1 < n and src[k + 1] == "'" :
                j = k + 2
                toks.append(Tok('char', src[i:j], i, j)); i = j; continue
            if c == "'":
                m = IDENT_RE.match(src, k)
                if m:
                    # multi-codepoint char literal cannot happen; this is a lifetime
                    toks.append(Tok('lifetime', src[i:m.end()], i, m.end())); i = m.end(); continue
            raise LexError('bad quote at %d' % i)
        m = IDENT_RE.match(src, i)
        if m and IDENT_START.match(c):
            toks.append(Tok('ident', m.group(0), i, m.end())); i = m.end(); continue
        if c.isdigit():
            m = NUM_RE.match(src, i)
            j = m.end()
            # avoid eating `..` of a range as a fraction: NUM_RE requires digit after '.', fine
            toks.append(Tok('num', src[i:j], i, j)); i = j; continue
        toks.append(Tok('punct', c, i, i + 1)); i += 1
    return toks


OPEN = {'(': ')', '[': ']', '{': '}'}
CLOSE = {')', ']', '}'}


class Src:
    """A lexed source text with helpers working on significant (non-trivia) token indices."""

    def __init__(self, text: str):
        self.text = text
        self.toks = lex(text)
        self.sig = [k for k, t in enumerate(self.toks) if not t.trivia]   # indices of significant tokens
        self._match = {}
        stack = []
        for si, k in enumerate(self.sig):
            t = self.toks[k]
            if t.kind == 'punct' and t.text in OPEN:
                stack.append(si)
            elif t.kind == 'punct' and t.text in CLOSE:
                if not stack:
                    raise LexError('unbalanced %r at %d' % (t.text, t.start))
                o = stack.pop()
                self._match[o] = si; self._match[si] = o
        if stack:
            raise LexError('unclosed delimiter at %d' % self.toks[self.sig[stack[-1]]].start)

    def t(self, si) -> Tok:
        return self.toks[self.sig[si]]

    def n(self):
        return len(self.sig)

    def match(self, si):
        return self._match[si]

    def is_p(self, si, text):
        if si < 0 or si >= len(self.sig): return False
        t = self.t(si)
        return t.kind == 'punct' and t.text == text

    def is_id(self, si, text=None):
        if si < 0 or si >= len(self.sig): return False
        t = self.t(si)
        return t.kind == 'ident' and (text is None or t.text == text)

    def skip_group(self, si):
        """if si opens a group return index after the closer else si+1"""
        if self.t(si).kind == 'punct' and self.t(si).text in OPEN:
            return self.match(si) + 1
        return si + 1

    def skip_angle(self, si):
        """si is at '<' : return index after the matching '>' (handles ->, nested groups)."""
        assert self.is_p(si, '<')
        depth = 0
        k = si
        while k < self.n():
            t = self.t(k)
            if t.kind == 'punct':
                if t.text == '<': depth += 1
                elif t.text == '>':
                    if not (self.is_p(k - 1, '-') and self.t(k - 1).end == t.start) and \
                       not (self.is_p(k - 1, '=') and self.t(k - 1).end == t.start):
                        depth -= 1
                        if depth == 0: return k + 1
                elif t.text in OPEN:
                    k = self.match(k)
            k += 1
        raise LexError('unclosed <')

    def text_of(self, si_a, si_b):
        """source text from start of sig token si_a to end of sig token si_b-1"""
        if si_b <= si_a: return ''
        return self.text[self.t(si_a).start:self.t(si_b - 1).end]

    def norm(self, si_a, si_b):
        return ' '.join(self.t(k).text for k in range(si_a, si_b))


@dataclass
class Item:
    kind: str                 # fn struct enum union impl trait mod use const static type macro_rules macro other
    name: str                 # identifier, or impl key
    lo: int                   # byte offset where the item (incl. attributes and doc comments) starts
    hi: int                   # byte offset just after the item
    kw_si: int                # sig index of the defining keyword
    head_si: int = -1         # sig index of first token of the item proper (after attributes)
    body_open: int = -1       # sig index of '{' (or -1)
    body_close: int = -1
    attrs: List[str] = field(default_factory=list)    # attribute texts (no doc comments)
    children: List['Item'] = field(default_factory=list)
    impl_generics: str = ''
    impl_trait: Optional[str] = None
    impl_type: str = ''       # full self type text
    impl_where: str = ''
    type_name: str = ''       # bare self type identifier
    cfg_test: bool = False


ITEM_KW = {'fn', 'struct', 'enum', 'union', 'impl', 'trait', 'mod', 'use', 'const', 'static', 'type', 'macro_rules', 'extern'}
QUALS = {'pub', 'async', 'unsafe', 'default', 'const', 'extern'}


def _leading_lo(src: Src, first_si: int) -> int:
    """byte offset where doc comments directly above sig token first_si begin (else the token start)."""
    k = src.sig[first_si]
    lo = src.toks[k].start
    j = k - 1
    while j >= 0 and src.toks[j].trivia:
        t = src.toks[j]
        if t.kind == 'comment' and (t.text.startswith('///') or t.text.startswith('/**')):
            lo = t.start
        elif t.kind == 'comment':
            break
        elif t.kind == 'ws' and t.text.count('\n') > 1:
            break
        j -= 1
    return lo


def parse_items(src: Src, a: int, b: int) -> List[Item]:
    """items between sig indices [a, b)"""
    items = []
    k = a
    while k < b:
        first = k
        attrs = []
        # attributes
        while src.is_p(k, '#'):
            j = k + 1
            if src.is_p(j, '!'):
                # inner attribute: standalone
                k = src.match(j + 1) + 1
                first = k
                continue
            if not src.is_p(j, '['): break
            e = src.match(j) + 1
            attrs.append(src.text_of(k, e))
            k = e
        head = k
        # visibility / qualifiers
        while True:
            if src.is_id(k, 'pub'):
                k += 1
                if src.is_p(k, '('): k = src.match(k) + 1
                continue
            if src.is_id(k) and src.t(k).text in ('async', 'unsafe', 'default') :
                k += 1; continue
            if src.is_id(k, 'const') and src.is_id(k + 1) and src.t(k + 1).text in ('fn', 'unsafe', 'async', 'extern'):
                k += 1; continue
            if src.is_id(k, 'extern') and src.t(k + 1).kind == 'str' and src.is_id(k + 2, 'fn'):
                k += 2; continue
            break
        if k >= b: break
        t = src.t(k)
        kw = t.text if t.kind == 'ident' else None
        it = None
        if kw == 'fn':
            name = src.t(k + 1).text
            j = k + 2
            if src.is_p(j, '<'): j = src.skip_angle(j)
            assert src.is_p(j, '('), 'fn %s: expected (' % name
            j = src.match(j) + 1
            # scan to body '{' or ';' at depth 0
            while not (src.is_p(j, '{') or src.is_p(j, ';')):
                if src.is_p(j, '<'): j = src.skip_angle(j)
                else: j = src.skip_group(j)
            if src.is_p(j, '{'):
                e = src.match(j)
                it = Item('fn', name, 0, src.t(e).end, k, head, j, e)
                k = e + 1
            else:
                it = Item('fn', name, 0, src.t(j).end, k, head)
                k = j + 1
        elif kw in ('struct', 'enum', 'union', 'trait', 'mod'):
            name = src.t(k + 1).text
            j = k + 2
            while not (src.is_p(j, '{') or src.is_p(j, ';')):
                if src.is_p(j, '<'): j = src.skip_angle(j)
                else: j = src.skip_group(j)
            if src.is_p(j, '{'):
                e = src.match(j)
                it = Item(kw, name, 0, src.t(e).end, k, head, j, e)
                k = e + 1
                if kw in ('trait', 'mod'):
                    it.children = parse_items(src, j + 1, e)
            else:
                it = Item(kw, name, 0, src.t(j).end, k, head)
                k = j + 1
        elif kw == 'impl':
            j = k + 1
            gen = ''
            if src.is_p(j, '<'):
                e = src.skip_angle(j); gen = src.text_of(j, e); j = e
            hstart = j
            for_si = -1; where_si = -1
            while not src.is_p(j, '{'):
                if src.is_id(j, 'for') and for_si < 0 and where_si < 0: for_si = j
                if src.is_id(j, 'where') and where_si < 0: where_si = j
                if src.is_p(j, '<'): j = src.skip_angle(j)
                else: j = src.skip_group(j)
            e = src.match(j)
            hend = where_si if where_si >= 0 else j
            if for_si >= 0:
                tr = src.text_of(hstart, for_si); ty = src.text_of(for_si + 1, hend); ty_a = for_si + 1
            else:
                tr = None; ty = src.text_of(hstart, hend); ty_a = hstart
            wh = src.text_of(where_si, j) if where_si >= 0 else ''
            # bare type name: last ident of the path before generics
            tn = ''
            q = ty_a
            while q < hend:
                if src.is_p(q, '<'): break
                if src.is_id(q) and src.t(q).text not in ('dyn', 'mut'): tn = src.t(q).text
                q += 1
            trn = re.sub(r'\s+', '', tr) if tr is not None else None
            if ty.lstrip().startswith('&'): tn = '&' + tn
            if ty.lstrip().startswith('('): tn = re.sub(r'\s+', '', ty)     # tuple self type: the whole type text
            name = ('<%s as %s>' % (tn, trn)) if tr is not None else tn
            it = Item('impl', name, 0, src.t(e).end, k, head, j, e)
            it.impl_generics = gen; it.impl_trait = tr; it.impl_type = ty; it.impl_where = wh; it.type_name = tn
            it.children = parse_items(src, j + 1, e)
            k = e + 1
        elif kw in ('use', 'const', 'static', 'type', 'extern'):
            name = src.t(k + 1).text if kw != 'use' else 'use'
            if kw in ('const', 'static') and src.is_id(k + 1, 'mut'): name = src.t(k + 2).text
            j = k + 1
            while not src.is_p(j, ';'):
                j = src.skip_group(j)
            it = Item(kw, name, 0, src.t(j).end, k, head)
            k = j + 1
        elif t.kind == 'ident' and src.is_p(k + 1, '!'):
            # macro invocation or macro_rules! definition
            name = t.text
            j = k + 2
            if name == 'macro_rules':
                name = src.t(j).text; j += 1; kind = 'macro_rules'
            else:
                kind = 'macro'
            e = src.match(j)
            endsi = e
            if not src.is_p(j, '{') and src.is_p(e + 1, ';'): endsi = e + 1
            it = Item(kind, name, 0, src.t(endsi).end, k, head, j, e)
            k = endsi + 1
        else:
            # unknown token at item level: skip it
            k = src.skip_group(k)
            continue
        it.attrs = attrs
        it.lo = _leading_lo(src, first)
        it.cfg_test = any(re.sub(r'\s+', '', x) == '#[cfg(test)]' for x in attrs)
        items.append(it)
    return items


@dataclass
class Loop:
    kind: str         # loop while for
    kw_si: int
    body_open: int
    body_close: int
    label: str = ''


@dataclass
class FnAnatomy:
    item: Item
    name_si: int
    params_open: int
    params_close: int
    arrow_si: int          # sig index of '-' of '->' or -1
    ret_a: int             # [ret_a, ret_b) = return type tokens
    ret_b: int
    where_si: int          # index of 'where' or -1
    body_open: int
    body_close: int
    loops: List[Loop]
    is_async: bool


def fn_anatomy(src: Src, it: Item) -> FnAnatomy:
    k = it.kw_si
    name_si = k + 1
    j = k + 2
    if src.is_p(j, '<'): j = src.skip_angle(j)
    po = j; pc = src.match(j)
    j = pc + 1
    arrow = -1; ra = rb = -1; wh = -1
    if src.is_p(j, '-') and src.is_p(j + 1, '>'):
        arrow = j; ra = j + 2
        q = ra
        while not (src.is_p(q, '{') or src.is_p(q, ';') or src.is_id(q, 'where')):
            if src.is_p(q, '<'): q = src.skip_angle(q)
            else: q = src.skip_group(q)
        rb = q; j = q
    if src.is_id(j, 'where'):
        wh = j
    is_async = any(src.is_id(q, 'async') for q in range(it.head_si, it.kw_si))
    loops = []
    if it.body_open >= 0:
        q = it.body_open + 1
        while q < it.body_close:
            t = src.t(q)
            if t.kind == 'ident' and t.text in ('loop', 'while', 'for') and not src.is_p(q - 1, '.'):
                if t.text == 'for' and src.is_p(q + 1, '<'):   # for<'a> bound
                    q += 1; continue
                b = q + 1
                while not src.is_p(b, '{'):
                    b = src.skip_group(b) if not src.is_p(b, '<') or True else b + 1
                    if b >= it.body_close: break
                if b < it.body_close and src.is_p(b, '{'):
                    loops.append(Loop(t.text, q, b, src.match(b)))
            q += 1
    return FnAnatomy(it, name_si, po, pc, arrow, ra, rb, wh, it.body_open, it.body_close, loops, is_async)


def find_token_seq(src: Src, a: int, b: int, pat: List[str]) -> List[int]:
    """all sig indices in [a,b) where the token texts match pat"""
    out = []
    n = len(pat)
    for k in range(a, b - n + 1):
        if all(src.t(k + d).text == pat[d] for d in range(n)):
            out.append(k)
    return out


def pat_tokens(s: str) -> List[str]:
    return [t.text for t in lex(s) if not t.trivia]


def stmt_bounds(src: Src, si: int, lo_limit: int, hi_limit: int):
    """(start_si, end_si_inclusive) of the statement containing sig index si, inside a block whose
    tokens lie in (lo_limit, hi_limit). The statement ends at the next ';' at the same nesting depth
    (or at the block end)."""
    # walk outwards to the innermost enclosing '{' block
    depth_open = lo_limit
    k = si
    # find innermost enclosing brace block: scan backwards
    q = si
    while q > lo_limit:
        t = src.t(q)
        if t.kind == 'punct' and t.text in CLOSE and q != si:
            q = src.match(q) - 1; continue
        if t.kind == 'punct' and t.text == '{' and q != si:
            depth_open = q; break
        if t.kind == 'punct' and t.text in ('(', '[') and q != si:
            # inside parens: keep going outwards
            pass
        q -= 1
    blk_close = src.match(depth_open)
    # statement start: after previous ';' or '{' or '}' at depth of this block
    s = si
    q = si - 1
    while q > depth_open:
        t = src.t(q)
        if t.kind == 'punct' and t.text in CLOSE:
            if t.text == '}':
                # a preceding block statement ends here (if at block depth)
                m = src.match(q)
                # is that '}' at block depth? it is if scanning linear from depth_open we are at depth 0 -> we are (we skip groups)
                # but `match x {..}` could be part of current statement (e.g. `let a = match .. {..};`) - we are scanning backwards from si,
                # so a '}' before si at block depth ends a previous statement unless followed by an operator/method; good enough
                nxt = src.t(q + 1)
                if nxt.kind == 'punct' and nxt.text in ('.', '?', ';', ',') or (nxt.kind == 'ident' and nxt.text in ('else', 'as')):
                    q = m - 1; continue
                break
            q = src.match(q) - 1; continue
        if t.kind == 'punct' and t.text == ';':
            break
        if t.kind == 'punct' and t.text in ('(', '['):
            q -= 1; continue
        q -= 1
    s = q + 1
    # statement end
    q = si
    while q < blk_close:
        t = src.t(q)
        if t.kind == 'punct' and t.text in OPEN:
            q = src.match(q) + 1; continue
        if t.kind == 'punct' and t.text == ';':
            return s, q
        q += 1
    return s, blk_close - 1

"""Replay of witnesses / counterexamples against the REAL crates (native build of /verif/replay against the scratch copy)."""
import os, sys, json
import runner as R


def run_witness(kf, scratch, root):
    return {'ran': False, 'reason': 'replay crate under construction'}


def replay_file(path):
    d = json.load(open(path))
    print(json.dumps({k: d.get(k) for k in ('property', 'obligation', 'function', 'message', 'where')}, indent=1))
    print(d.get('verifier_output', ''))
    return 0

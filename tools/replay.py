"""Replay of witnesses / counterexamples against the REAL crates: /verif/replay is copied next to a PRISTINE copy of
/repo's working tree (no splice) and built natively with the repository's own toolchain; each witness binary exits 0
when the property holds for its input and 1 when the real code violates it."""
import subprocess, os, sys, json, shutil, fcntl
import runner as R

_built = {}


def _prune(tgt, limit_gb=4):
    """the shared target directory only caches; throw it away when it grows (stale artefacts of earlier trees)"""
    try:
        out = subprocess.run(['du', '-s', '--block-size=1M', tgt], stdout=subprocess.PIPE).stdout.decode().split()
        if out and int(out[0]) > limit_gb * 1024: shutil.rmtree(tgt, ignore_errors=True)
    except Exception:
        pass


def build(scratch):
    if scratch in _built: return _built[scratch]
    work = os.path.join(scratch, 'native')
    os.makedirs(work, exist_ok=True)
    rc, out, err, _ = R.run(['rsync', '-a', '--delete', '--exclude', 'target', '--exclude', '.git', R.REPO + '/', os.path.join(work, 'repo') + '/'])
    if rc != 0: raise R.Undecided('replay: snapshot failed')
    shutil.copytree(os.path.join(R.VERIF, 'replay'), os.path.join(work, 'replay'), dirs_exist_ok=True)
    lock = os.path.join(work, 'repo', 'Cargo.lock')
    if os.path.exists(lock): shutil.copy(lock, os.path.join(work, 'replay', 'Cargo.lock'))
    tgt = os.path.join(R.CACHE, 'replay-target')
    os.makedirs(R.CACHE, exist_ok=True)
    with open(os.path.join(R.CACHE, 'replay.lock'), 'w') as lk:
        fcntl.flock(lk, fcntl.LOCK_EX)
        _prune(tgt)
        rc, out, err, wall = R.run(['cargo', 'build', '--offline', '--bins'], cwd=os.path.join(work, 'replay'), env={'CARGO_TARGET_DIR': tgt, 'CARGO_INCREMENTAL': '0'}, timeout=1800)
        if rc != 0:
            _built[scratch] = (None, err[-3000:])
            return _built[scratch]
        # copy the binaries out so that concurrent checks do not overwrite each other's
        bindir = os.path.join(work, 'bin'); os.makedirs(bindir, exist_ok=True)
        for f in os.listdir(os.path.join(R.VERIF, 'replay', 'src', 'bin')):
            b = f[:-3]
            p = os.path.join(tgt, 'debug', b)
            if os.path.exists(p): shutil.copy(p, os.path.join(bindir, b))
    _built[scratch] = (bindir, '')
    return _built[scratch]


def run_bin(name, scratch, args=(), stdin=None, timeout=120, env=None):
    bindir, err = build(scratch)
    if bindir is None:
        return {'ran': False, 'reason': 'native build of the real crates failed: ' + err[-500:]}
    p = os.path.join(bindir, name)
    if not os.path.exists(p):
        return {'ran': False, 'reason': 'no witness binary ' + name}
    import subprocess
    try:
        e = dict(os.environ)
        if env: e.update(env)
        pr = subprocess.run([p] + list(args), input=stdin, stdout=subprocess.PIPE, stderr=subprocess.PIPE, timeout=timeout, env=e)
    except subprocess.TimeoutExpired:
        return {'ran': True, 'fails': True, 'output': 'TIMEOUT after %ds (hang)' % timeout}
    full = pr.stdout.decode('utf-8', 'replace')
    return {'ran': True, 'fails': pr.returncode != 0, 'rc': pr.returncode, 'output': full[-1500:], 'full_output': full[-2000000:], 'stderr': pr.stderr.decode('utf-8', 'replace')[-600:]}


def run_witness(kf, scratch, root):
    r = run_bin(kf['witness'], scratch, kf.get('witness_args', []))
    r.pop('full_output', None)
    return r


def replay_file(path):
    d = json.load(open(path))
    print(json.dumps({k: d.get(k) for k in ('property', 'obligation', 'function', 'message', 'where', 'failing_input')}, indent=1))
    print(d.get('verifier_output') or '')
    if d.get('replay_bin'):
        import tempfile
        scratch = tempfile.mkdtemp(prefix='vx-replay-', dir='/var/tmp')
        try:
            r = run_bin(d['replay_bin'], scratch, d.get('replay_args', []), (d.get('replay_stdin') or '').encode() or None)
            print(json.dumps(r, indent=1))
            return 1 if r.get('fails') else 0
        finally:
            shutil.rmtree(scratch, ignore_errors=True)
    return 0

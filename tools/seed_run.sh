#!/bin/bash
# usage: seed_run.sh <seeded-id> <prop> [<prop>...]
# Applies /verif/seeded/<id>/patch.diff in a scratch worktree of /repo (VERIF_REPO points the checks at it, so /repo itself is
# untouched and other work can go on), runs the checks, removes the change again.
ID=$1; shift
WT=${SEED_WT:-/tmp/wt-seed}
[ -d $WT ] || git -C /repo worktree add -q --detach $WT HEAD
cd $WT && git checkout -q --detach $(git -C /repo rev-parse HEAD) && git checkout -q -- . && git clean -fdq
git apply /verif/seeded/$ID/patch.diff || { echo "$ID: patch does not apply"; exit 3; }
cd /verif
RES=""
for p in "$@"; do
  out=$(VERIF_REPO=$WT ./check $p 2>/dev/null); rc=$?
  RES="$RES $p=$rc"
  echo "$out" | grep -E "^VIOLATION|^UNDECIDED|^  obligation" | head -6 | cut -c1-260 | sed "s/^/   [$p] /"
done
cd $WT && git checkout -q -- . && git clean -fdq
echo "$ID:$RES"
echo "$RES" > /verif/seeded/$ID/checks.txt

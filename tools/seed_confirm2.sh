#!/bin/bash
# usage: seed_confirm2.sh <prop> <k> <srcdir>
# Fourth-round layout: <srcdir> holds patch.diff, seed_demo.rs, demo_path.txt, notes.md (written by a sub-agent that saw only the
# property text). Confirms in the scratch worktree /tmp/wt-seed2 (never in /repo): the change applies and compiles, the pinned suite
# passes with it, the demonstration fails with it and passes without it. Stores the result under /verif/seeded/<prop>-<k>/.
set -u
P=$1; K=$2; SRC=$3
ID=$P-$K; OUT=/verif/seeded/$ID; mkdir -p $OUT
WT=/tmp/wt-seed2
export CARGO_NET_OFFLINE=true CARGO_TARGET_DIR=/tmp/wt-seed2-target
[ -d $WT ] || git -C /repo worktree add -q --detach $WT HEAD
cd $WT && git checkout -q --detach $(git -C /repo rev-parse HEAD) && git checkout -q -- . && git clean -fdq
git apply $SRC/patch.diff || { echo "$ID: patch does not apply"; exit 3; }
T1=$(cargo test --workspace --no-fail-fast --offline 2>&1 | grep -E "^test result" | awk '{p+=$4; f+=$6} END {print p" passed "f" failed"}')
DP=$(cat $SRC/demo_path.txt | tr -d ' \n'); CRATE=${DP%%/*}
mkdir -p $(dirname $DP) && cp $SRC/seed_demo.rs $DP
FEAT=""; [ $CRATE = mpd_protocol ] && FEAT="--features async"
D1=$(cargo test --offline -p $CRATE $FEAT --test seed_demo 2>&1 | grep -E "^test result|^error" | head -1)
git checkout -q -- .
D0=$(cargo test --offline -p $CRATE $FEAT --test seed_demo 2>&1 | grep -E "^test result|^error" | head -1)
rm -f $DP; git clean -fdq
cp $SRC/patch.diff $OUT/patch.diff; cp $SRC/seed_demo.rs $OUT/demo.rs; cp $SRC/notes.md $OUT/notes.txt 2>/dev/null; echo "$DP" > $OUT/demo_path.txt
echo "$ID suite-with-change: $T1 | demo with change: $D1 | demo without: $D0"
echo "$T1|$D1|$D0" > $OUT/confirm.txt

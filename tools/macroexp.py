#!/usr/bin/env python3
"""N11: expansion of the repository's own `macro_rules!` macros (a deliberately small expander: single-level `$( .. ) sep rep`
repetitions, fragments ident / literal / tt / ty / expr / path / pat / lifetime / block / stmt / item / vis).

The macro definition is read from the same file on every run; nothing about a macro is written by hand. An invocation the
expander cannot match raises MacroError (-> exit 2, never an alarm). `rustc -Zunpretty=expanded` was measured as the
alternative (26 s per run, loses spans and hygiene names); this expander keeps the surrounding text byte-identical."""
from rustlex import Src

OPEN = {'(': ')', '[': ']', '{': '}'}


class MacroError(Exception):
    pass


class Node:
    pass


class Lit(Node):
    def __init__(self, text, glue=False): self.text = text; self.glue = glue   # glue: no blank before (`::`, `->`, `=>`)


class Var(Node):
    def __init__(self, name, frag): self.name = name; self.frag = frag


class Rep(Node):
    def __init__(self, body, sep, op): self.body = body; self.sep = sep; self.op = op


class Grp(Node):
    def __init__(self, open_, body): self.open = open_; self.body = body


def _toks(src: Src, a, b):
    return [src.t(k) for k in range(a, b)]


def parse_matcher(src: Src, a, b, transcriber=False):
    """token range [a,b) of a matcher / transcriber -> list of nodes"""
    out = []
    k = a
    while k < b:
        t = src.t(k)
        if t.kind == 'punct' and t.text == '$':
            n = src.t(k + 1)
            if n.kind == 'punct' and n.text == '(':
                c = src.match(k + 1)
                body = parse_matcher(src, k + 2, c, transcriber)
                q = c + 1
                sep = None
                tq = src.t(q)
                if not (tq.kind == 'punct' and tq.text in ('*', '+', '?')):
                    sep = tq.text; q += 1
                op = src.t(q).text
                if op not in ('*', '+', '?'): raise MacroError('repetition operator expected')
                out.append(Rep(body, sep, op)); k = q + 1; continue
            if n.kind == 'ident':
                if not transcriber and src.is_p(k + 2, ':'):
                    out.append(Var(n.text, src.t(k + 3).text)); k += 4; continue
                out.append(Var(n.text, None)); k += 2; continue
            raise MacroError('unsupported `$` form')
        if t.kind == 'punct' and t.text in OPEN:
            c = src.match(k)
            out.append(Grp(t.text, parse_matcher(src, k + 1, c, transcriber))); k = c + 1; continue
        p_ = src.t(k - 1) if k > a else None
        out.append(Lit(t.text, bool(p_ and p_.kind == 'punct' and t.kind == 'punct' and p_.end == t.start and p_.text not in OPEN and p_.text not in OPEN.values()))); k += 1
    return out


def find_macro(src: Src, name):
    """rules of `macro_rules! name { (m) => { t }; ... }` as [(matcher nodes, transcriber nodes)]"""
    for k in range(src.n() - 3):
        if src.is_id(k, 'macro_rules') and src.is_p(k + 1, '!') and src.is_id(k + 2, name):
            o = k + 3; c = src.match(o)
            rules = []
            q = o + 1
            while q < c:
                mo = q; mc = src.match(mo)
                if not (src.is_p(mc + 1, '=') and src.is_p(mc + 2, '>')): raise MacroError('malformed rule in macro ' + name)
                to = mc + 3; tc = src.match(to)
                rules.append((parse_matcher(src, mo + 1, mc), parse_matcher(src, to + 1, tc, True)))
                q = tc + 1
                if q < c and src.is_p(q, ';'): q += 1
            return rules, (k, c)
    raise MacroError('macro_rules! %s not found in this file' % name)


class Inp:
    """the tokens of one invocation"""
    def __init__(self, src, a, b): self.src = src; self.a = a; self.b = b

    def tree_end(self, k):
        t = self.src.t(k)
        if t.kind == 'punct' and t.text in OPEN: return self.src.match(k) + 1
        return k + 1


def _follow_lits(nodes, idx, outer_follow):
    """literal token texts that may follow nodes[idx] (used to delimit expr / ty fragments)"""
    if idx + 1 < len(nodes):
        n = nodes[idx + 1]
        if isinstance(n, Lit): return [n.text]
        return []
    return outer_follow


def match_nodes(inp: Inp, k, end, nodes, binds, follow):
    """match nodes against tokens [k,end); returns new k or None"""
    src = inp.src
    for idx, n in enumerate(nodes):
        if isinstance(n, Lit):
            if k >= end or src.t(k).text != n.text: return None
            k += 1
        elif isinstance(n, Grp):
            if k >= end or src.t(k).text != n.open: return None
            c = src.match(k)
            r = match_nodes(inp, k + 1, c, n.body, binds, [])
            if r is None or r != c: return None
            k = c + 1
        elif isinstance(n, Var):
            fl = _follow_lits(nodes, idx, follow)
            if n.frag in ('ident', 'lifetime'):
                if k >= end or src.t(k).kind not in ('ident', 'lifetime'): return None
                binds.setdefault(n.name, []).append(src.text_of(k, k + 1)); k += 1
            elif n.frag == 'literal':
                if k >= end: return None
                e = k + 1
                if src.is_p(k, '-'): e = k + 2
                if src.t(e - 1).kind not in ('str', 'num', 'char') and src.t(e - 1).text not in ('true', 'false'): return None
                binds.setdefault(n.name, []).append(src.text_of(k, e)); k = e
            elif n.frag in ('tt', 'block'):
                if k >= end: return None
                e = inp.tree_end(k)
                binds.setdefault(n.name, []).append(src.text_of(k, e)); k = e
            elif n.frag in ('expr', 'ty', 'path', 'pat', 'stmt', 'item', 'vis', 'meta'):
                e = k; angle = 0
                while e < end:
                    t = src.t(e)
                    if angle == 0 and t.text in fl and t.kind == 'punct':
                        # `=>` is two tokens
                        if t.text == '=' and not src.is_p(e + 1, '>'):
                            pass
                        else:
                            break
                    if n.frag in ('ty', 'path') and t.kind == 'punct':
                        if t.text == '<': angle += 1
                        elif t.text == '>' and angle > 0: angle -= 1
                    e = inp.tree_end(e)
                if e == k and n.frag != 'vis': return None
                binds.setdefault(n.name, []).append(src.text_of(k, e)); k = e
            else:
                raise MacroError('unsupported fragment specifier :' + str(n.frag))
        elif isinstance(n, Rep):
            fl = _follow_lits(nodes, idx, follow)
            count = 0
            names = _vars_of(n.body)
            for nm in names: binds.setdefault(nm, [])
            while k < end:
                if fl and src.t(k).text in fl and not _could_start(n.body, src.t(k).text): break
                snap = {nm: list(binds[nm]) for nm in names}
                r = match_nodes(inp, k, end, n.body, binds, ([n.sep] if n.sep else []) + fl)
                if r is None:
                    for nm in names: binds[nm] = snap[nm]
                    break
                k = r; count += 1
                if n.op == '?': break
                if n.sep:
                    if k < end and src.t(k).text == n.sep: k += 1
                    else: break
            if n.op == '+' and count == 0: return None
            binds.setdefault('#' + str(id(n)), []).append(count)
    return k


def _could_start(body, text):
    return bool(body) and isinstance(body[0], Lit) and body[0].text == text


def _vars_of(nodes):
    out = []
    for n in nodes:
        if isinstance(n, Var): out.append(n.name)
        elif isinstance(n, (Rep,)): out += _vars_of(n.body)
        elif isinstance(n, Grp): out += _vars_of(n.body)
    return out


def transcribe(nodes, binds, idx=None):
    out = []
    for n in nodes:
        if isinstance(n, Lit): out.append(('\x00' if n.glue else '') + n.text)
        elif isinstance(n, Grp):
            out.append(n.open); out.append(transcribe(n.body, binds, idx)); out.append(OPEN[n.open])
        elif isinstance(n, Var):
            if n.name == 'crate': out.append('crate'); continue
            vals = binds.get(n.name)
            if vals is None: raise MacroError('unbound metavariable $' + n.name)
            out.append(vals[idx] if idx is not None and len(vals) > 1 or (idx is not None and n.name in binds.get('@rep', ())) else vals[0])
        elif isinstance(n, Rep):
            names = [v for v in _vars_of(n.body) if v in binds and v != 'crate']
            reps = [v for v in names if v in binds.get('@rep', ())]
            cnt = max([len(binds[v]) for v in reps], default=0)
            parts = [transcribe(n.body, binds, i) for i in range(cnt)]
            out.append((' ' + (n.sep or '') + ' ').join(parts))
    return ' '.join(out).replace(' \x00', '').replace('\x00', '')


def _rep_vars(nodes, inside=False, acc=None):
    acc = set() if acc is None else acc
    for n in nodes:
        if isinstance(n, Var) and inside: acc.add(n.name)
        elif isinstance(n, Rep): _rep_vars(n.body, True, acc)
        elif isinstance(n, Grp): _rep_vars(n.body, inside, acc)
    return acc


def expand_all(text: str, names):
    """expand every invocation `name!(..)` / `name!{..}` / `name![..]` (with its trailing `;`) of the named macros, which
    must be defined by macro_rules! in this text. Returns (new text, number of expansions)."""
    n_exp = 0
    for name in names:
        while True:
            src = Src(text)
            rules, (dk, dc) = find_macro(src, name)
            hit = None
            for k in range(src.n() - 2):
                if src.is_id(k, name) and src.is_p(k + 1, '!') and src.t(k + 2).text in OPEN and not src.is_id(k - 1, 'macro_rules') and not (dk <= k <= dc):
                    hit = k; break
            if hit is None: break
            o = hit + 2; c = src.match(o)
            done = False
            for (m, t) in rules:
                binds = {}
                r = match_nodes(Inp(src, o + 1, c), o + 1, c, m, binds, [])
                if r is not None and r == c:
                    binds['@rep'] = _rep_vars(m)
                    exp = transcribe(t, binds)
                    end = src.t(c).end
                    if src.is_p(c + 1, ';') and src.t(o).text != '{': end = src.t(c + 1).end
                    text = text[:src.t(hit).start] + '/* N11 ' + name + '! */ ' + exp + text[end:]
                    n_exp += 1; done = True
                    break
            if not done:
                raise MacroError('no rule of %s! matches the invocation at byte %d' % (name, src.t(hit).start))
    return text, n_exp


if __name__ == '__main__':
    import sys
    t, n = expand_all(open(sys.argv[1]).read(), sys.argv[2:])
    sys.stdout.write(t)
    sys.stderr.write('%d expansions\n' % n)

#!/usr/bin/env python3
"""Generates the per-command contracts of mpd_client/src/commands/definitions.rs (C15) between the markers
`# >>> generated` / `# <<< generated` of contracts/mpd_client/definitions.vspec, from the ORACLE TABLE below, which is written
from the MPD protocol reference (command word + arguments in the documented order), not from the code.

Per command: the struct is lifted, the `impl Command` is lifted with
  cmd_spec  = the documented request line (command word, then a blank and the argument's bytes for every argument)
  cmd_ok    = the string parameters can be written (no LF / NUL after rendering: the builder panics otherwise, as documented)
  resp_spec = Some(()) for commands without a typed reply; commands with a typed reply keep their `response` unverified here
              (`external_body`: the decoders carry their own contracts), because a trait impl cannot be lifted half.
`command()` itself is verified against the builder contracts of mpd_protocol (Command::new / argument / add_argument)."""
import os, re, sys
V = os.path.dirname(os.path.dirname(os.path.abspath(__file__)))

S = 'vx_spec::tok::sbytes'
def strarg(e): return '%s(vx_spec::tok::render(%s))' % (S, e)            # a string parameter: one argument, rendered by escape_argument (C06)
def num(e): return '%s(dec_text(%s as nat))' % (S, e)                      # a number: decimal text
def boolarg(e): return '(if %s { seq![0x31u8] } else { seq![0x30u8] })' % e
def lit(s): return '%s("%s"@)' % (S, s)
def okstr(e): return 'mpd_protocol::command::arg_ok(%s)' % strarg(e)
KW = []
def kw(w):
    """a literal keyword argument: sent as it is (the oracle says the word; the builder renders it through escape_argument)"""
    if w not in KW: KW.append(w)
    return lit(w)

# name of the struct, impl key, (command word, [argument byte specs]), [cmd_ok conjuncts], unit response?, literals used, extra directives
T = []
def cmd(struct, key, word, args=(), ok=(), unit=True, lits=(), extra='', spec=None, private=False):
    T.append(dict(struct=struct, key=key, word=word, args=list(args), ok=list(ok), unit=unit, lits=[word] + list(lits), extra=extra, spec=spec, private=private))

for s_, w in (('ClearQueue', 'clear'), ('Next', 'next'), ('Ping', 'ping'), ('Previous', 'previous'), ('Stop', 'stop')):
    cmd(s_, s_, w)
for s_, w in (('ClearPlaylist', 'playlistclear'), ('DeletePlaylist', 'rm'), ('SaveQueueAsPlaylist', 'save'), ('SubscribeToChannel', 'subscribe'), ('UnsubscribeFromChannel', 'unsubscribe')):
    cmd(s_, s_, w, [strarg('self.0@')], [okstr('self.0@')])
for s_, w in (('SetConsume', 'consume'), ('SetPause', 'pause'), ('SetRandom', 'random'), ('SetRepeat', 'repeat')):
    cmd(s_, s_, w, [boolarg('self.0')])
for s_, w in (('ReplayGainStatus', 'replay_gain_status'), ('Status', 'status'), ('Stats', 'stats'), ('Queue', 'playlistinfo'), ('CurrentSong', 'currentsong'),
              ('GetPlaylists', 'listplaylists'), ('GetEnabledTagTypes', 'tagtypes')):
    cmd(s_, s_, w, unit=False)
cmd('GetPlaylist', 'GetPlaylist', 'listplaylistinfo', [strarg('self.0@')], [okstr('self.0@')], unit=False)
cmd('SetVolume', 'SetVolume', 'setvol', [num('(if self.0 <= 100 { self.0 } else { 100u8 })')], extra='  tokens N10 "min(self.0, 100)" "vx_min_u8(self.0, 100)"')
cmd('SetBinaryLimit', 'SetBinaryLimit', 'binarylimit', [num('self.0')])
cmd('RenamePlaylist', 'RenamePlaylist', 'rename', [strarg('self.from@'), strarg('self.to@')], [okstr('self.from@'), okstr('self.to@')], private=True)
cmd('MoveInPlaylist', 'MoveInPlaylist', 'playlistmove', [strarg('self.playlist@'), num('self.from'), num('self.to')], [okstr('self.playlist@')], private=True)
for s_, verb, extra_args, unit_ in (('StickerGet', 'get', ['self.name@'], False), ('StickerSet', 'set', ['self.name@', 'self.value@'], True), ('StickerDelete', 'delete', ['self.name@'], True), ('StickerList', 'list', [], False)):
    cmd(s_, s_, 'sticker', [kw(verb), kw('song'), strarg('self.uri@')] + [strarg(a) for a in extra_args], [okstr('self.uri@')] + [okstr(a) for a in extra_args], unit=unit_, private=True)
cmd('SendChannelMessage', 'SendChannelMessage', 'sendmessage', [strarg('self.channel@'), strarg('self.message@')], [okstr('self.channel@'), okstr('self.message@')], private=True)
cmd('ReadChannelMessages', 'ReadChannelMessages', 'readmessages', unit=False)
cmd('ListChannels', 'ListChannels', 'channels', unit=False)
cmd('SetSingle', 'SetSingle', 'single', spec='(match self.0 { SingleMode::Disabled => %s, SingleMode::Enabled => %s, SingleMode::Oneshot => %s })' % tuple('%s.push(0x20u8) + %s' % (lit('single'), kw(w)) for w in ('0', '1', 'oneshot')))
cmd('SetReplayGainMode', 'SetReplayGainMode', 'replay_gain_mode', spec='(match self.0 { ReplayGainMode::Off => %s, ReplayGainMode::Track => %s, ReplayGainMode::Album => %s, ReplayGainMode::Auto => %s })' % tuple('%s.push(0x20u8) + %s' % (lit('replay_gain_mode'), kw(w)) for w in ('off', 'track', 'album', 'auto')))
RANGE = 'range_bytes'    # spec fn in definitions.vspec: bytes of `from:to` / `from:`
def rng(e): return '%s(%s)' % (RANGE, e)
W = lambda w, *a: ''.join([lit(w)] + ['.push(0x20u8) + %s' % x for x in a])
cmd('Crossfade', 'Crossfade', 'crossfade', [num('dur_secs(self.0)')])
cmd('Count', 'Count', 'count', ['self.filter.arg_bytes()'], ['mpd_protocol::command::arg_ok(self.filter.arg_bytes())'], unit=False, private=True)
cmd('Shuffle', 'Shuffle', 'shuffle', spec='(match self.0 { None => %s, Some(r) => %s })' % (W('shuffle'), W('shuffle', rng('r'))), private=True)
cmd('Play', 'Play', 'play', lits=['playid'], spec='(match self.0 { None => %s, Some(Song::Position(p)) => %s, Some(Song::Id(i)) => %s })' % (W('play'), W('play', num('p.0')), W('playid', num('i.0'))), private=True)
cmd('Delete', 'Delete', 'delete', lits=['deleteid'], spec='(match self.0 { Target::Id(i) => %s, Target::Range(r) => %s })' % (W('deleteid', num('i.0')), W('delete', rng('r'))), private=True)
cmd('QueueRange', 'QueueRange', 'playlistinfo', lits=['playlistid'], unit=False, private=True,
    spec='(match self.0 { SongOrSongRange::Single(Song::Id(i)) => %s, SongOrSongRange::Single(Song::Position(p)) => %s, SongOrSongRange::Range(r) => %s })' % (W('playlistid', num('i.0')), W('playlistinfo', num('p.0')), W('playlistinfo', rng('r'))))
cmd('LoadPlaylist', 'LoadPlaylist', 'load', ok=[okstr('self.name@')], private=True,
    spec='(match self.range { None => %s, Some(r) => %s })' % (W('load', strarg('self.name@')), W('load', strarg('self.name@'), rng('r'))))
cmd('AddToPlaylist', 'AddToPlaylist', 'playlistadd', ok=[okstr('self.playlist@'), okstr('self.song_url@')], private=True,
    spec='(match self.position { None => %s, Some(p) => %s })' % (W('playlistadd', strarg('self.playlist@'), strarg('self.song_url@')), W('playlistadd', strarg('self.playlist@'), strarg('self.song_url@'), num('p.0'))))
cmd('RemoveFromPlaylist', 'RemoveFromPlaylist', 'playlistdelete', ok=[okstr('self.playlist@')], private=True,
    spec='(match self.target { PositionOrRange::Position(p) => %s, PositionOrRange::Range(r) => %s })' % (W('playlistdelete', strarg('self.playlist@'), num('p')), W('playlistdelete', strarg('self.playlist@'), rng('r'))))
for s_, w in (('Update', 'update'), ('Rescan', 'rescan')):
    cmd(s_, s_, w, ok=['(self.0 matches Some(u) ==> %s)' % okstr('u@')], unit=False, private=True, spec='(match self.0 { None => %s, Some(u) => %s })' % (W(w), W(w, strarg('u@'))))
cmd('ListAllIn', 'ListAllIn', 'listallinfo', ok=[okstr('self.directory@')], unit=False, private=True,
    spec='(if self.directory@.len() == 0 { %s } else { %s })' % (W('listallinfo'), W('listallinfo', strarg('self.directory@'))), extra='  tokens N10 "self.directory.is_empty()" "(vx_str_len(self.directory) == 0)"')
POR = lambda e: 'vx_spec::tok::sbytes(por_text(%s))' % e
cmd('Add', 'Add', 'addid', ok=[okstr('self.uri@')], unit=False, private=True,
    spec='(match self.position { None => %s, Some(p) => %s })' % (W('addid', strarg('self.uri@')), W('addid', strarg('self.uri@'), POR('p'))))
cmd('Move', 'Move', 'move', lits=['moveid'], private=True,
    spec='(match self.from { Target::Id(i) => %s, Target::Range(r) => %s })' % (W('moveid', num('i.0'), POR('self.to')), W('move', rng('r'), POR('self.to'))))
cmd('StickerFind', 'StickerFind', 'sticker', ok=[okstr('self.uri@'), okstr('self.name@'), '(self.filter matches Some(f) ==> %s)' % okstr('f.1@')], unit=False, private=True,
    spec='(match self.filter { None => %s, Some((o, v)) => %s })' % (W('sticker', kw('find'), kw('song'), strarg('self.uri@'), strarg('self.name@')),
         W('sticker', kw('find'), kw('song'), strarg('self.uri@'), strarg('self.name@'), '(match o { StickerFindOperator::Equals => %s, StickerFindOperator::GreaterThan => %s, StickerFindOperator::LessThan => %s })' % (kw('='), kw('>'), kw('<')), strarg('v@'))))
DUR = lambda e: 'vx_spec::tok::sbytes(dur_arg_text(%s))' % e
TAGB = lambda e: 'vstd::utf8::encode_utf8(%s.name())' % e
cmd('SeekTo', 'SeekTo', 'seek', lits=['seekid'], spec='(match self.0 { Song::Position(p) => %s, Song::Id(i) => %s })' % (W('seek', num('p.0'), DUR('self.1')), W('seekid', num('i.0'), DUR('self.1'))))
cmd('CountGrouped', 'CountGrouped', 'count', unit=False, private=True,
    ok=['(self.filter matches Some(f) ==> mpd_protocol::command::arg_ok(f.arg_bytes()))', 'mpd_protocol::command::arg_ok(%s)' % TAGB('self.group_by')],
    spec='(match self.filter { None => %s, Some(f) => %s })' % (W('count', kw('group'), TAGB('self.group_by')), W('count', 'f.arg_bytes()', kw('group'), TAGB('self.group_by'))))
cmd('Find', 'Find', 'find', unit=False, private=True,
    ok=['mpd_protocol::command::arg_ok(self.filter.arg_bytes())', '(self.sort matches Some(t) ==> %s)' % okstr('t.name()')],
    spec='({ let b0 = %s; let b1 = (match self.sort { None => b0, Some(t) => b0.push(0x20u8) + %s.push(0x20u8) + %s }); match self.window { None => b1, Some(w) => b1.push(0x20u8) + %s.push(0x20u8) + %s } })' % (W('find', 'self.filter.arg_bytes()'), kw('sort'), strarg('t.name()'), kw('window'), rng('w')),
    extra='  prologue <<<\n        broadcast use cow_ref_str;\n  >>>')
cmd('AlbumArt', 'AlbumArt', 'albumart', [strarg('self.uri@'), num('self.offset')], [okstr('self.uri@')], unit=False, private=True)
cmd('AlbumArtEmbedded', 'AlbumArtEmbedded', 'readpicture', [strarg('self.uri@'), num('self.offset')], [okstr('self.uri@')], unit=False, private=True)


# ---------------------------------------------------------------------------------------------------------------------------------
# BUILDER TABLE (C15): every constructor / builder method of the predefined commands. Written from the documentation of the
# builders and the MPD protocol reference: what request the value built this way stands for (`cmd_spec`), whether it can be written
# (`cmd_ok`), and - for builders that are chained - which parameters of the receiver are kept. Private parameters are named through
# closed accessor spec fns (ACC below). 
B = []
def bld(path, ens, req=(), extra='', mutself=False, props='C15'):
    B.append(dict(path=path, ens=list(ens), req=list(req), extra=extra, mutself=mutself, props=props))
def HAS_SP(x): return 'forall|q: usize| q < usize::MAX ==> (#[trigger] %s.has(q) <==> sp_bounds_have(range.spec_start_bound(), range.spec_end_bound(), q))' % x
def HAS_US(x): return 'forall|q: usize| q < usize::MAX ==> (#[trigger] %s.has(q) <==> bounds_have(range.spec_start_bound(), range.spec_end_bound(), q))' % x
def HAS_ONE(x, p): return 'forall|q: usize| q < usize::MAX ==> (#[trigger] %s.has(q) <==> q == %s)' % (x, p)
REL = lambda sign, e: 'vx_spec::tok::sbytes(seq![\'%s\'] + dec_text(%s as nat))' % (sign, e)
ENC = lambda e: 'vstd::utf8::encode_utf8(%s)' % e
AOK = lambda e: 'mpd_protocol::command::arg_ok(%s)' % e

bld('Queue::all', ['r.cmd_spec() == %s' % W('playlistinfo')])
bld('Queue::range', ['r.cmd_spec() == %s' % W('playlistinfo', rng('r.rng()')), HAS_SP('r.rng()')])
bld('QueueRange::range', ['r.cmd_spec() == %s' % W('playlistinfo', rng('r.rng()')), HAS_SP('r.rng()')])
bld('Shuffle::all', ['r.cmd_spec() == %s' % W('shuffle')])
bld('Shuffle::range', ['r.cmd_spec() == %s' % W('shuffle', rng('r.rng()')), HAS_SP('r.rng()')])
bld('Play::current', ['r.cmd_spec() == %s' % W('play')])
bld('Add::uri', ['r.cmd_spec() == %s' % W('addid', strarg('uri@')), 'r.cmd_ok() == %s' % okstr('uri@'), 'r.uri_view() == uri@'])
bld('Add::before_current', ['r.cmd_spec() == %s' % W('addid', strarg('self.uri_view()'), REL('-', 'delta')), 'r.cmd_ok() == self.cmd_ok()', 'r.uri_view() == self.uri_view()'], mutself=True)
bld('Add::after_current', ['r.cmd_spec() == %s' % W('addid', strarg('self.uri_view()'), REL('+', 'delta')), 'r.cmd_ok() == self.cmd_ok()', 'r.uri_view() == self.uri_view()'], mutself=True)
bld('Delete::id', ['r.cmd_spec() == %s' % W('deleteid', num('id.0'))])
bld('Delete::position', ['r.cmd_spec() == %s' % W('delete', rng('r.rng()')), HAS_ONE('r.rng()', 'pos.0')])
bld('Delete::range', ['r.cmd_spec() == %s' % W('delete', rng('r.rng()')), HAS_SP('r.rng()')])
bld('Move::id', ['r.from_bytes() == %s' % W('moveid', num('id.0'))])
bld('Move::position', ['r.from_bytes() == %s' % W('move', rng('r.rng()')), HAS_ONE('r.rng()', 'position.0')])
bld('Move::range', ['r.from_bytes() == %s' % W('move', rng('r.rng()')), HAS_SP('r.rng()')],
    req=['[C12.move.range.closed_end|C15] !(range.spec_end_bound() is Unbounded)'], extra='  tokens N10 "range.end_bound()" "vx_end_bound(&range)"')
bld('MoveBuilder::to_position', ['r.cmd_spec() == self.from_bytes().push(0x20u8) + %s' % num('position.0')])
bld('MoveBuilder::after_current', ['r.cmd_spec() == self.from_bytes().push(0x20u8) + %s' % REL('+', 'delta')])
bld('MoveBuilder::before_current', ['r.cmd_spec() == self.from_bytes().push(0x20u8) + %s' % REL('-', 'delta')])
bld('Find::new', ['r.cmd_spec() == %s' % W('find', 'filter.arg_bytes()'), 'r.cmd_ok() == %s' % AOK('filter.arg_bytes()'), 'r.filter_b() == filter.arg_bytes()', 'r.sort_n() is None', 'r.win() is None'])
bld('Find::sort', ['r.filter_b() == self.filter_b()', 'r.sort_n() == Some(sort_by.name())', 'r.win() == self.win()'], mutself=True)
bld('Find::window', ['r.filter_b() == self.filter_b()', 'r.sort_n() == self.sort_n()', 'r.win() is Some', HAS_US('r.win()->0').replace('range.', 'window.')], mutself=True)
bld('List::new', ['r.cmd_spec() == %s.push(0x20u8) + %s' % (lit('list'), ENC('tag.name()')), 'r.tag_n() == tag.name()', 'r.filter_b() is None', 'r.groups().len() == 0'])
bld('List::filter', ['r.tag_n() == self.tag_n()', 'r.filter_b() == Some(filter.arg_bytes())', 'r.groups() == self.groups()'], mutself=True)
bld('List::group_by', ['r.tag_n() == self.tag_n()', 'r.filter_b() == self.filter_b()', 'r.groups() == group_by@'])
bld('Count::new', ['r.cmd_spec() == %s' % W('count', 'filter.arg_bytes()'), 'r.cmd_ok() == %s' % AOK('filter.arg_bytes()'), 'r.filter_b() == filter.arg_bytes()'])
bld('Count::group_by', ['r.cmd_spec() == %s' % W('count', 'self.filter_b()', kw('group'), TAGB('group_by')), 'r.cmd_ok() == (self.cmd_ok() && %s)' % AOK(TAGB('group_by'))])
bld('CountGrouped::new', ['r.cmd_spec() == %s' % W('count', kw('group'), TAGB('group_by')), 'r.tag_n() == group_by.name()'])
bld('CountGrouped::filter', ['r.cmd_spec() == %s' % W('count', 'filter.arg_bytes()', kw('group'), ENC('self.tag_n()')), 'r.tag_n() == self.tag_n()'], mutself=True)
bld('RenamePlaylist::new', ['r.cmd_spec() == %s' % W('rename', strarg('from@'), strarg('to@')), 'r.cmd_ok() == (%s && %s)' % (okstr('from@'), okstr('to@'))])
bld('LoadPlaylist::name', ['r.cmd_spec() == %s' % W('load', strarg('name@')), 'r.cmd_ok() == %s' % okstr('name@'), 'r.name_view() == name@'])
bld('LoadPlaylist::range', ['r.cmd_spec() == %s' % W('load', strarg('self.name_view()'), rng('r.rng()')), 'r.cmd_ok() == self.cmd_ok()', HAS_US('r.rng()')], mutself=True)
bld('AddToPlaylist::new', ['r.cmd_spec() == %s' % W('playlistadd', strarg('playlist@'), strarg('song_url@')), 'r.cmd_ok() == (%s && %s)' % (okstr('playlist@'), okstr('song_url@'))])
bld('RemoveFromPlaylist::position', ['r.cmd_spec() == %s' % W('playlistdelete', strarg('playlist@'), num('position')), 'r.cmd_ok() == %s' % okstr('playlist@')])
bld('RemoveFromPlaylist::range', ['r.cmd_spec() == %s' % W('playlistdelete', strarg('playlist@'), rng('r.rng()')), 'r.cmd_ok() == %s' % okstr('playlist@'), HAS_SP('r.rng()')])
bld('MoveInPlaylist::new', ['r.cmd_spec() == %s' % W('playlistmove', strarg('playlist@'), num('from'), num('to')), 'r.cmd_ok() == %s' % okstr('playlist@')])
bld('ListAllIn::root', ['r.cmd_spec() == %s' % W('listallinfo')], extra='  prologue <<<\n        proof { reveal_strlit(""); }\n  >>>')
bld('ListAllIn::directory', ['r.cmd_spec() == (if directory@.len() == 0 { %s } else { %s })' % (W('listallinfo'), W('listallinfo', strarg('directory@'))), 'r.cmd_ok() == %s' % okstr('directory@')])
bld('TagTypes::enable_all', ['r.cmd_spec() == %s' % W('tagtypes', kw('all'))])
bld('TagTypes::disable_all', ['r.cmd_spec() == %s' % W('tagtypes', kw('clear'))])
bld('TagTypes::disable', ['r.cmd_spec() == %s + tags_bytes(tags@, 0)' % W('tagtypes', kw('disable')), 'r.cmd_ok() == tags_ok(tags@)'], req=['[C12.tagtypes.disable.nonempty|C15] tags@.len() != 0'])
bld('TagTypes::enable', ['r.cmd_spec() == %s + tags_bytes(tags@, 0)' % W('tagtypes', kw('enable')), 'r.cmd_ok() == tags_ok(tags@)'], req=['[C12.tagtypes.enable.nonempty|C15] tags@.len() != 0'])
bld('StickerGet::new', ['r.cmd_spec() == %s' % W('sticker', kw('get'), kw('song'), strarg('uri@'), strarg('name@')), 'r.cmd_ok() == (%s && %s)' % (okstr('uri@'), okstr('name@'))])
bld('StickerSet::new', ['r.cmd_spec() == %s' % W('sticker', kw('set'), kw('song'), strarg('uri@'), strarg('name@'), strarg('value@')), 'r.cmd_ok() == (%s && %s && %s)' % (okstr('uri@'), okstr('name@'), okstr('value@'))])
bld('StickerDelete::new', ['r.cmd_spec() == %s' % W('sticker', kw('delete'), kw('song'), strarg('uri@'), strarg('name@')), 'r.cmd_ok() == (%s && %s)' % (okstr('uri@'), okstr('name@'))])
bld('StickerList::new', ['r.cmd_spec() == %s' % W('sticker', kw('list'), kw('song'), strarg('uri@')), 'r.cmd_ok() == %s' % okstr('uri@')])
bld('StickerFind::new', ['r.cmd_spec() == %s' % W('sticker', kw('find'), kw('song'), strarg('uri@'), strarg('name@')), 'r.cmd_ok() == (%s && %s)' % (okstr('uri@'), okstr('name@')), 'r.uri_view() == uri@', 'r.name_view() == name@'])
for f_, op in (('where_eq', '='), ('where_gt', '>'), ('where_lt', '<')):
    bld('StickerFind::%s' % f_, ['r.cmd_spec() == %s' % W('sticker', kw('find'), kw('song'), strarg('self.uri_view()'), strarg('self.name_view()'), kw(op), strarg('value@')),
                                  'r.uri_view() == self.uri_view()', 'r.name_view() == self.name_view()'])
bld('StickerFind::add_filter', ['r.uri_view() == self.uri_view()', 'r.name_view() == self.name_view()', 'r.flt() == Some((operator, value@))'])
for s_, w in (('Update', 'update'), ('Rescan', 'rescan')):
    bld('%s::new' % s_, ['r.cmd_spec() == %s' % W(w)])
    bld('%s::uri' % s_, ['r.cmd_spec() == %s' % W(w, strarg('uri@')), 'r.cmd_ok() == %s' % okstr('uri@')])
bld('SendChannelMessage::new', ['r.cmd_spec() == %s' % W('sendmessage', strarg('channel@'), strarg('message@')), 'r.cmd_ok() == (%s && %s)' % (okstr('channel@'), okstr('message@'))])

# generic `Into<..>` parameters: the conversion is the caller's (a trait method of an unknown type), so the contract can only say that
# the request is the documented one for SOME position / id
bld('Queue::song', ['(exists|p: usize| r.cmd_spec() == #[trigger] (%s)) || (exists|i: u64| r.cmd_spec() == #[trigger] (%s))' % (W('playlistinfo', num('p')), W('playlistid', num('i')))], extra='  tailbind r <<<\n        proof { match r.0 { SongOrSongRange::Single(Song::Position(p)) => { assert(r.cmd_spec() == ' + W('playlistinfo', num('p.0')) + '); } SongOrSongRange::Single(Song::Id(i)) => { assert(r.cmd_spec() == ' + W('playlistid', num('i.0')) + '); } _ => {} } }\n  >>>')
bld('QueueRange::song', ['(exists|p: usize| r.cmd_spec() == #[trigger] (%s)) || (exists|i: u64| r.cmd_spec() == #[trigger] (%s))' % (W('playlistinfo', num('p')), W('playlistid', num('i')))], extra='  tailbind r <<<\n        proof { match r.0 { SongOrSongRange::Single(Song::Position(p)) => { assert(r.cmd_spec() == ' + W('playlistinfo', num('p.0')) + '); } SongOrSongRange::Single(Song::Id(i)) => { assert(r.cmd_spec() == ' + W('playlistid', num('i.0')) + '); } _ => {} } }\n  >>>')
bld('Play::song', ['(exists|p: usize| r.cmd_spec() == #[trigger] (%s)) || (exists|i: u64| r.cmd_spec() == #[trigger] (%s))' % (W('play', num('p')), W('playid', num('i')))], extra='  tailbind r <<<\n        proof { match r.0 { Some(Song::Position(p)) => { assert(r.cmd_spec() == ' + W('play', num('p.0')) + '); } Some(Song::Id(i)) => { assert(r.cmd_spec() == ' + W('playid', num('i.0')) + '); } _ => {} } }\n  >>>')
bld('Add::at', ['exists|p: usize| r.cmd_spec() == #[trigger] (%s)' % W('addid', strarg('self.uri_view()'), num('p')), 'r.cmd_ok() == self.cmd_ok()', 'r.uri_view() == self.uri_view()'], mutself=True, extra='  tailbind r <<<\n        proof { match r.position { Some(PositionOrRelative::Absolute(p)) => { assert(r.cmd_spec() == ' + W('addid', strarg('self.uri_view()'), num('p.0')) + '); } _ => {} } }\n  >>>')
bld('AddToPlaylist::at', ['exists|p: usize| r.cmd_spec() == #[trigger] (%s)' % W('playlistadd', strarg('self.pl_view()'), strarg('self.url_view()'), num('p')), 'r.cmd_ok() == self.cmd_ok()'], mutself=True, extra='  tailbind r <<<\n        proof { match r.position { Some(p) => { assert(r.cmd_spec() == ' + W('playlistadd', strarg('self.pl_view()'), strarg('self.url_view()'), num('p.0')) + '); } _ => {} } }\n  >>>')

# closed accessor spec fns (the parameters a chained builder keeps; public types only)
ACC = """
#[verifier::external_body]
fn vx_string_str(s: &String) -> (r: &str) ensures r@ == s@ { s.as_str() }
#[verifier::external_body]
fn vx_arc_str(a: &std::sync::Arc<str>) -> (r: &str) ensures r@ == arc_str_view(*a) { a }
#[verifier::external_body]
fn vx_arc_eq(a: &std::sync::Arc<str>, b: &str) -> (r: bool) ensures r == (arc_str_view(*a) == b@) { a.as_ref() == b }
impl QueueRange { pub closed spec fn rng(&self) -> SongRange { match self.0 { SongOrSongRange::Range(x) => x, _ => arbitrary() } } }
impl Shuffle { pub closed spec fn rng(&self) -> SongRange { match self.0 { Some(x) => x, _ => arbitrary() } } }
impl<'a> Add<'a> { pub closed spec fn uri_view(&self) -> Seq<char> { self.uri@ } }
impl Delete { pub closed spec fn rng(&self) -> SongRange { match self.0 { Target::Range(x) => x, _ => arbitrary() } } }
impl MoveBuilder {
    /// [C15 oracle] `moveid ID` / `move START:END`: the request up to the destination argument
    pub closed spec fn from_bytes(&self) -> Seq<u8> { match self.0 { Target::Id(i) => %(moveid)s, Target::Range(x) => %(move)s } }
    pub closed spec fn rng(&self) -> SongRange { match self.0 { Target::Range(x) => x, _ => arbitrary() } }
}
impl Find {
    pub closed spec fn filter_b(&self) -> Seq<u8> { self.filter.arg_bytes() }
    pub closed spec fn sort_n(&self) -> Option<Seq<char>> { match self.sort { Some(t) => Some(t.name()), None => None } }
    pub closed spec fn win(&self) -> Option<SongRange> { self.window }
}
impl<const N: usize> List<N> {
    pub closed spec fn tag_n(&self) -> Seq<char> { self.tag.name() }
    pub closed spec fn filter_b(&self) -> Option<Seq<u8>> { match self.filter { Some(f) => Some(f.arg_bytes()), None => None } }
    pub closed spec fn groups(&self) -> Seq<Tag> { self.group_by@ }
}
impl<'a> AddToPlaylist<'a> {
    pub closed spec fn pl_view(&self) -> Seq<char> { self.playlist@ }
    pub closed spec fn url_view(&self) -> Seq<char> { self.song_url@ }
}
impl Count { pub closed spec fn filter_b(&self) -> Seq<u8> { self.filter.arg_bytes() } }
impl CountGrouped { pub closed spec fn tag_n(&self) -> Seq<char> { self.group_by.name() } }
impl<'a> LoadPlaylist<'a> {
    pub closed spec fn name_view(&self) -> Seq<char> { self.name@ }
    pub closed spec fn rng(&self) -> SongRange { match self.range { Some(x) => x, _ => arbitrary() } }
}
impl<'a> RemoveFromPlaylist<'a> { pub closed spec fn rng(&self) -> SongRange { match self.target { PositionOrRange::Range(x) => x, _ => arbitrary() } } }
impl<'a> StickerFind<'a> {
    pub closed spec fn uri_view(&self) -> Seq<char> { self.uri@ }
    pub closed spec fn name_view(&self) -> Seq<char> { self.name@ }
    pub closed spec fn flt(&self) -> Option<(StickerFindOperator, Seq<char>)> { match self.filter { Some((o, v)) => Some((o, v@)), None => None } }
}
""" % dict(moveid=W('moveid', num('i.0')), move=W('move', rng('x')))

def _builder_params():
    """parameter names of every builder as the repository has them NOW (read at generation time): the generated contracts name the
    parameters positionally (`$A1`, `$A2`, ... resolved by tools/splice.py at check time), so that a renamed parameter keeps its contract"""
    sys.path.insert(0, os.path.join(V, 'tools'))
    import rustlex, splice
    f = os.path.join(os.environ.get('VERIF_REPO', '/repo'), 'mpd_client', 'src', 'commands', 'definitions.rs')
    src = rustlex.Src(open(f).read()); items = rustlex.parse_items(src, 0, src.n())
    out = {}
    for it in items:
        if it.kind == 'impl' and it.impl_trait is None:
            for c in it.children:
                if c.kind == 'fn': out['%s::%s' % (it.type_name, c.name)] = splice.fn_param_names(src, rustlex.fn_anatomy(src, c))
    return out

def _positional(text, names):
    for k, n in enumerate(names):
        if n == '_': continue
        text = re.sub(r'(?<![\w.$])%s(?![\w(])' % re.escape(n), '$A%d' % (k + 1), text)
    return text

def builders_text():
    out = []
    PN = _builder_params()
    for b in B:
        names = PN.get(b['path'], [])
        b = dict(b, ens=[_positional(e, names) for e in b['ens']], req=[_positional(e, names) for e in b['req']],
                 extra=_positional(b['extra'], names) if 'tailbind' in b['extra'] else b['extra'])
        out.append('lift fn %s' % b['path'])
        out.append('  props %s\n  implicit C12\n  ret r' % b['props'])
        if b['mutself']: out.append('  mutself')
        if b['extra']: out.append(b['extra'].rstrip('\n'))
        name = b['path'].replace('::', '.').lower()
        out.append('  spec <<<')
        if b['req']:
            out.append('        requires')
            for q in b['req']: out.append('            %s,' % q)
        out.append('        ensures')
        for i, e in enumerate(b['ens']):
            out.append('            [C15.builder.%s.%d] %s,' % (name, i, e))
        out.append('  >>>')
        if not ('prologue' in b['extra']):
            out.append('  prologue <<<\n        proof { lemma_command_words(); lemma_keywords(); }\n  >>>')
        out.append('')
    return out

# ---------------------------------------------------------------------------------------------------------------------------------
# RESPONSE TABLE (C16 / C14 / C17 / C13): what `Command::response` does with the frame, per command with a typed reply.
#   dec(path, props)      the body hands the frame to the decoder `path`, which is under contract in contracts/mpd_client/*.vspec:
#                         resp_ok / resp_err ARE that decoder's postcondition (call_ensures of the fn item, for a frame with these fields)
#   inline(ok, err, ...)  the body decodes in place; resp_ok / resp_err written here from the protocol reference
#   (absent)              the decoder is iterator-adaptor code outside the verified text: `response` stays external_body, resp_ok/err = true
RESP = {}
def dec(path, props='C16'): return dict(kind='dec', path=path, props=props)
def inline(ok, err, props='C16', extra=''): return dict(kind='inline', ok=ok, err=err, props=props, extra=extra)
for s_ in ('ReplayGainStatus', 'Status', 'Stats'): RESP[s_] = dec('res::%s::from_frame' % s_)
# the song listings and listplaylists: stated through the listing oracles of song.vspec / playlist.vspec directly (the same predicates the
# decoders are proved against). call_ensures of these decoders cannot be used: they reach the trait impls TryFrom for Tag /
# FromFieldValue for Timestamp, and a spec fn of a Command impl that depends on them puts those impls into one dependency cycle with
# the Command impls (Verus then hides the impls' own spec members from their bodies: measured, Tag::try_from stopped verifying)
SO = 'crate::responses::'
for s_ in ('Queue', 'QueueRange'):
    RESP[s_] = inline('%ssongs_of(cv) matches Some(vs) && %ssiq_views(x@) == vs' % (SO, SO), '%ssongs_of(cv) is None' % SO, props='C14')
RESP['CurrentSong'] = inline('(match %srun(cv, cv.len()) { Some((b, done)) => done.len() == 0 ==> (if b.url.len() == 0 { x is None } else { x matches Some(s) && %ssiq_view(&s) == %ssong_of(b) }), None => false })' % (SO, SO, SO), '(match %srun(cv, cv.len()) { Some((b, done)) => done.len() != 0, None => true })' % SO, props='C14')
for s_ in ('GetPlaylist', 'Find', 'ListAllIn'):
    RESP[s_] = inline('%ssongs_of(cv) matches Some(vs) && %ssong_views(x@) == %sstrip_all(vs)' % (SO, SO, SO), '%ssongs_of(cv) is None' % SO, props='C14')
RESP['GetPlaylists'] = inline('%spl_wf(cv) ==> (x@.len() * 2 == cv.len() && forall|i: int| 0 <= i < x@.len() ==> (#[trigger] x@[i]).name@ == cv[2 * i].1 && x@[i].last_modified.raw_view() == cv[2 * i + 1].1)' % SO, '!%spl_wf(cv)' % SO)
RESP['Count'] = dec('res::Count::from_frame')
for s_ in ('AlbumArt', 'AlbumArtEmbedded'): RESP[s_] = dec('res::AlbumArt::from_frame', 'C17 C16')
RESP['StickerGet'] = dec('res::StickerGet::from_frame')
# grouped count: the decoder is under a panic-freedom contract only (generic iterator): resp_ok / resp_err say nothing, but the body is verified
RESP['CountGrouped'] = inline('true', 'true', props='C12')
# [C16 oracle] addid answers `Id: <song id>`; update / rescan answer `updating_db: <job id>`
RESP['Add'] = inline('req::<u64>(cv, "Id"@) == Some(x.0)', 'req::<u64>(cv, "Id"@) is None',
                     extra='  mutparam frame\n  try? all\n  tokens? N17 ".map(SongId)" ".map(|vx_x: u64| -> (vx_r: SongId) ensures vx_r == SongId(vx_x) { SongId(vx_x) })"')
for s_ in ('Update', 'Rescan'):
    RESP[s_] = inline('req::<u64>(cv, "updating_db"@) == Some(x)', 'req::<u64>(cv, "updating_db"@) is None', extra='  mutparam frame\n  try? all')

# [C16 oracle] `channels` answers one `channel: <name>` line per channel; every line must be one
LOOP_COMMON = """  attr <<<
    #[verifier::exec_allows_no_decreases_clause]
  >>>
  forloop 0
  prologue <<<
        let ghost vx_cv = frame.cv();
        let ghost mut vx_n: int = 0;
        proof { reveal_strlit("%(key)s"); }
  >>>
  loop 0 pre <<<
        proof { assert(vx_cv.skip(0) =~= vx_cv); }
  >>>
  loop 0 mid <<<
            proof { assert(vx_cv.skip(vx_n)[0] == vx_cv[vx_n]); assert(vx_cv.skip(vx_n).skip(1) =~= vx_cv.skip(vx_n + 1)); }
  >>>
  loop 0 tail <<<
            proof { vx_n = vx_n + 1; }
  >>>"""
RESP['ListChannels'] = inline(
    'x@.len() == cv.len() && forall|i: int| 0 <= i < cv.len() ==> (#[trigger] cv[i]).0 == "channel"@ && x@[i]@ == cv[i].1',
    'exists|i: int| 0 <= i < cv.len() && (#[trigger] cv[i]).0 != "channel"@',
    extra="""  tokens N15 "let mut response = Vec::with_capacity(" "let mut response: Vec<String> = Vec::with_capacity("
  tokens N10 "&*key != \\"channel\\"" "!vx_arc_eq(&key, \\"channel\\")"
  tokens N10 "&*key)" "vx_arc_str(&key))"
""" + LOOP_COMMON % dict(key='channel') + """
  loop 0 spec <<<
            invariant
                0 <= vx_n <= vx_cv.len(), vx_it.rest() == vx_cv.skip(vx_n), vx_cv == frame.cv(),
                response@.len() == vx_n, forall|i: int| 0 <= i < vx_n ==> (#[trigger] vx_cv[i]).0 == "channel"@ && response@[i]@ == vx_cv[i].1,
            ensures vx_n == vx_cv.len(),
  >>>
  before 0 "return Err(TypedResponseError::unexpected_field" <<<
                proof { assert(vx_cv[vx_n].0 != "channel"@); }
  >>>""")

# [C16 oracle] `tagtypes` answers one `tagtype: <tag name>` line per enabled tag; each value is a tag name (parsed as C20 says)
TAGP = 'crate::tag::tag_parsed'
RESP['GetEnabledTagTypes'] = inline(
    'x@.len() == cv.len() && forall|i: int| 0 <= i < cv.len() ==> (#[trigger] cv[i]).0 == "tagtype"@ && %s(cv[i].1, x@[i])' % TAGP,
    'exists|i: int| 0 <= i < cv.len() && ((#[trigger] cv[i]).0 != "tagtype"@ || cv[i].1.len() == 0 || !crate::tag::tag_text_ok(cv[i].1))',
    extra="""  try all <<<
proof { assert(vx_cv[vx_n].1.len() == 0 || !crate::tag::tag_text_ok(vx_cv[vx_n].1)); }
  >>>
  tokens N15 "let mut out = Vec::with_capacity(" "let mut out: Vec<Tag> = Vec::with_capacity("
  tokens N10 "&*key != \\"tagtype\\"" "!vx_arc_eq(&key, \\"tagtype\\")"
  tokens N10 "key.as_ref()," "vx_arc_str(&key),"
  tokens N10 "Tag::try_from(&*value)" "Tag::try_from(vx_string_str(&value))"
  closure in:map_err params="e: crate::tag::TagError" <<<
-> (vx_e: TypedResponseError)
  >>>
""" + LOOP_COMMON % dict(key='tagtype') + """
  loop 0 spec <<<
            invariant
                0 <= vx_n <= vx_cv.len(), vx_it.rest() == vx_cv.skip(vx_n), vx_cv == frame.cv(),
                out@.len() == vx_n, forall|i: int| 0 <= i < vx_n ==> (#[trigger] vx_cv[i]).0 == "tagtype"@ && %s(vx_cv[i].1, out@[i]),
            ensures vx_n == vx_cv.len(),
  >>>
  before 0 "return Err(TypedResponseError::unexpected_field" <<<
                proof { assert(vx_cv[vx_n].0 != "tagtype"@); }
  >>>""" % TAGP)

def resp_members(c):
    """resp_ok / resp_err members + the directives of the `response` fn"""
    sig_ok = 'spec fn resp_ok(&self, cv: Seq<(Seq<char>, Seq<char>)>, bin: Option<Seq<u8>>, x: Self::Response) -> bool'
    sig_er = 'spec fn resp_err(&self, cv: Seq<(Seq<char>, Seq<char>)>, bin: Option<Seq<u8>>) -> bool'
    k = c['key']
    if c['unit']:
        return ['    /// no typed reply: every frame is accepted', '    open %s { true }' % sig_ok, '    open %s { false }' % sig_er], None
    r = RESP.get(c['struct'])
    if r is None:
        return ['    open %s { true }' % sig_ok, '    open %s { true }' % sig_er], \
               'lift fn "<%s as Command>::response"\n  props\n  implicit\n  attr <<<\n    #[verifier::external_body]\n  >>>' % k
    if r['kind'] == 'dec':
        ok = 'exists|f: Frame| #![trigger f.cv()] f.cv() == cv && f.bin() == bin && call_ensures(%s, (f,), Ok::<Self::Response, TypedResponseError>(x))' % r['path']
        er = 'exists|f: Frame, e: TypedResponseError| #![trigger call_ensures(%s, (f,), Err::<Self::Response, TypedResponseError>(e))] f.cv() == cv && f.bin() == bin && call_ensures(%s, (f,), Err::<Self::Response, TypedResponseError>(e))' % (r['path'], r['path'])
        mem = ['    /// [%s] the reply is decoded by %s: what that decoder\'s contract says about a frame with these fields' % (r['props'].split()[0], r['path']),
               '    closed %s { %s }' % (sig_ok, ok), '    closed %s { %s }' % (sig_er, er)]
        # the witnesses are stated right at the decoder call (N18 callfn), wherever it stands (tail expression, `let x = ..?;`, ...)
        last = r['path'].split('::')[-1]
        fn = ('lift fn "<%s as Command>::response"\n  props %s C13\n  implicit C12\n  ret r\n  try? all\n  callfn %s <<<\nlet ghost vx_f = $ARG1;\n----\n'
              'proof { assert(call_ensures(%s, (vx_f,), vx_r)); assert(vx_f.cv() == vx_f.cv()); if vx_r is Err { assert(call_ensures(%s, (vx_f,), Err::<Self::Response, TypedResponseError>(vx_r->Err_0))); } }\n  >>>') % (k, r['props'], last, r['path'], r['path'])
        return mem, fn
    mem = ['    closed %s { %s }' % (sig_ok, r['ok']), '    closed %s { %s }' % (sig_er, r['err'])]
    fn = 'lift fn "<%s as Command>::response"\n  props %s C13\n  implicit C12\n  ret r\n%s' % (k, r['props'], r['extra'])
    return mem, fn

def name_lemma(words):
    """proof that every literal command word is a name the builder accepts (letters / '_', first a letter, not a command_list word)"""
    body = ['    reveal_strlit("command_list");']
    ens = []
    for w in words:
        ens.append('mpd_protocol::command::valid_name("%s"@)' % w)
        body.append('    reveal_strlit("%s"); assert("%s"@.len() == %d);' % (w, w, len(w)))
        body.append('    ' + ' '.join('assert(vx_spec::tok::word_first("%s"@[%d]) || "%s"@[%d] == \'_\');' % (w, i, w, i) for i in range(len(w))))
        if len(w) >= 12:
            k = next(i for i in range(12) if w[i] != 'command_list'[i])
            body.append('    assert("%s"@.subrange(0, 12)[%d] == "%s"@[%d]); assert("command_list"@[%d] != "%s"@[%d]);' % (w, k, w, k, k, w, k))
        body.append('    assert(mpd_protocol::command::valid_name("%s"@));' % w)
    return 'pub proof fn lemma_command_words()\n    ensures\n        %s,\n{\n%s\n}\n' % (',\n        '.join(ens), '\n'.join(body))


def kw_lemma(words):
    """every literal keyword argument is a plain word: escape_argument sends it as it is, and it can be written (no LF / NUL)"""
    body = []; ens = []
    for w in words:
        ens.append('vx_spec::tok::render("%s"@) == "%s"@ && mpd_protocol::command::arg_ok(vx_spec::tok::sbytes("%s"@))' % (w, w, w))
        body.append('    reveal_strlit("%s"); assert("%s"@.len() == %d);' % (w, w, len(w)))
        body.append('    ' + ' '.join('assert(("%s"@[%d] as u32) > 0x20 && ("%s"@[%d] as u32) < 128 && !vx_spec::tok::special("%s"@[%d]));' % (w, i, w, i, w, i) for i in range(len(w))))
        body.append('    assert(!vx_spec::tok::needs_quotes("%s"@)); vx_spec::tok::lemma_esc_plain("%s"@); assert(vstd::utf8::is_ascii_chars("%s"@)); vstd::utf8::is_ascii_chars_encode_utf8("%s"@);' % (w, w, w, w))
        body.append('    assert(mpd_protocol::command::arg_ok(vx_spec::tok::sbytes("%s"@)));' % w)
    return 'pub proof fn lemma_keywords()\n    ensures\n        %s,\n{\n%s\n}\n' % (',\n        '.join(ens), '\n'.join(body))


def main():
    kw('group'); kw('all'); kw('clear'); kw('disable'); kw('enable')
    out = ['# >>> generated by tools/gen_defs.py (oracle table there) - do not edit by hand']
    words = ['list', 'tagtypes', 'seekcur']
    for c in T:
        line = lit(c['word'])
        for a in c['args']:
            line = '%s.push(0x20u8) + %s' % (line, a)
        spec = c['spec'] or line
        ok = ' && '.join(c['ok']) if c['ok'] else 'true'
        for w in c['lits']:
            if w not in words: words.append(w)
        k = c['key']
        out.append('lift item struct %s' % c['struct'])
        out.append('lift impl "<%s as Command>"' % k)
        out.append('  member <<<')
        out.append('    /// [C15 oracle] MPD protocol reference: `%s`%s' % (c['word'], ' + %d argument(s)' % len(c['args']) if c['args'] else ''))
        vis = 'closed' if c['private'] else 'open'
        out.append('    %s spec fn cmd_spec(&self) -> Seq<u8> { %s }' % (vis, spec))
        out.append('    %s spec fn cmd_ok(&self) -> bool { %s }' % (vis, ok))
        mem, respfn = resp_members(c)
        out.extend(mem)
        out.append('  >>>')
        out.append('lift fn "<%s as Command>::command"' % k)
        out.append('  props C15\n  implicit C12 C15')
        if c['extra']: out.append(c['extra'].rstrip('\n'))
        out.append('  prologue <<<\n        proof { lemma_command_words(); lemma_keywords(); }\n        broadcast use dec_text_digits, lemma_num_arg_ok, lemma_range_arg_ok, lemma_por_arg_ok, lemma_dur_arg_ok;\n  >>>')
        if respfn: out.append(respfn)
        out.append('')
    out.append('lift item struct MoveBuilder')
    out.extend(builders_text())
    out.append('append <<<\n' + ACC + name_lemma(words) + kw_lemma(KW) + '''/// a duration text can always be written as an argument (digits and a dot)
pub broadcast proof fn lemma_dur_arg_ok(x: std::time::Duration)
    ensures #[trigger] mpd_protocol::command::arg_ok(vx_spec::tok::sbytes(dur_arg_text(x)))
{
    broadcast use dur_arg_text_chars;
    let d = dur_arg_text(x);
    assert(vstd::utf8::is_ascii_chars(d)) by { assert forall|i: int| 0 <= i < d.len() implies (d[i] as u32) < 128 by { assert(('0' <= d[i] && d[i] <= '9') || d[i] == '.'); } }
    vstd::utf8::is_ascii_chars_encode_utf8(d);
    assert forall|i: int| 0 <= i < vx_spec::tok::sbytes(d).len() implies #[trigger] vx_spec::tok::sbytes(d)[i] != 0x0Au8 && vx_spec::tok::sbytes(d)[i] != 0u8 by { assert(('0' <= d[i] && d[i] <= '9') || d[i] == '.'); }
}
/// a number written as decimal digits can always be written as an argument (no LF / NUL)
pub broadcast proof fn lemma_num_arg_ok(n: nat)
    ensures #[trigger] mpd_protocol::command::arg_ok(vx_spec::tok::sbytes(dec_text(n)))
{
    broadcast use dec_text_digits;
    let d = dec_text(n);
    assert(vstd::utf8::is_ascii_chars(d)) by { assert forall|i: int| 0 <= i < d.len() implies (d[i] as u32) < 128 by { assert('0' <= d[i] && d[i] <= '9'); } }
    vstd::utf8::is_ascii_chars_encode_utf8(d);
    assert forall|i: int| 0 <= i < vx_spec::tok::sbytes(d).len() implies #[trigger] vx_spec::tok::sbytes(d)[i] != 0x0Au8 && vx_spec::tok::sbytes(d)[i] != 0u8 by { assert('0' <= d[i] && d[i] <= '9'); }
}
''' + '>>>')
    out.append('# <<< generated')
    p = os.path.join(V, 'contracts', 'mpd_client', 'definitions.vspec')
    s = open(p).read()
    if '# >>> generated' in s:
        s = s[:s.index('# >>> generated')] + '\n'.join(out) + s[s.index('# <<< generated') + len('# <<< generated'):]
    else:
        s = s.rstrip('\n') + '\n\n' + '\n'.join(out) + '\n'
    open(p, 'w').write(s)
    print('%d commands, %d words' % (len(T), len(words)))


if __name__ == '__main__':
    main()

#!/usr/bin/env python3
"""Generates the per-command contracts of mpd_client/src/commands/definitions.rs (C15) between the markers
`# >>> generated` / `# <<< generated` of contracts/mpd_client/definitions.vspec, from the ORACLE TABLE below, which is written
from the MPD protocol reference (command word + arguments in the documented order), not from the code.

Per command: the struct is lifted, the `impl Command` is lifted with
  cmd_spec  = the documented request line (command word, then a blank and the argument's bytes for every argument)
  cmd_ok    = the string parameters can be written (no LF / NUL after rendering: the builder panics otherwise, as documented)
  resp_spec = Some(()) for commands without a typed reply; commands with a typed reply keep their `response` unverified here
              (`external_body`: the decoders carry their own contracts), because a trait impl cannot be lifted half.
`command()` itself is verified against the builder contracts of mpd_protocol (Command::new / argument / add_argument)."""
import os, re, sys
V = os.path.dirname(os.path.dirname(os.path.abspath(__file__)))

S = 'vx_spec::tok::sbytes'
def strarg(e): return '%s(vx_spec::tok::render(%s))' % (S, e)            # a string parameter: one argument, rendered by escape_argument (C06)
def num(e): return '%s(dec_text(%s as nat))' % (S, e)                      # a number: decimal text
def boolarg(e): return '(if %s { seq![0x31u8] } else { seq![0x30u8] })' % e
def lit(s): return '%s("%s"@)' % (S, s)
def okstr(e): return 'mpd_protocol::command::arg_ok(%s)' % strarg(e)
KW = []
def kw(w):
    """a literal keyword argument: sent as it is (the oracle says the word; the builder renders it through escape_argument)"""
    if w not in KW: KW.append(w)
    return lit(w)

# name of the struct, impl key, (command word, [argument byte specs]), [cmd_ok conjuncts], unit response?, literals used, extra directives
T = []
def cmd(struct, key, word, args=(), ok=(), unit=True, lits=(), extra='', spec=None, private=False):
    T.append(dict(struct=struct, key=key, word=word, args=list(args), ok=list(ok), unit=unit, lits=[word] + list(lits), extra=extra, spec=spec, private=private))

for s_, w in (('ClearQueue', 'clear'), ('Next', 'next'), ('Ping', 'ping'), ('Previous', 'previous'), ('Stop', 'stop')):
    cmd(s_, s_, w)
for s_, w in (('ClearPlaylist', 'playlistclear'), ('DeletePlaylist', 'rm'), ('SaveQueueAsPlaylist', 'save'), ('SubscribeToChannel', 'subscribe'), ('UnsubscribeFromChannel', 'unsubscribe')):
    cmd(s_, s_, w, [strarg('self.0@')], [okstr('self.0@')])
for s_, w in (('SetConsume', 'consume'), ('SetPause', 'pause'), ('SetRandom', 'random'), ('SetRepeat', 'repeat')):
    cmd(s_, s_, w, [boolarg('self.0')])
for s_, w in (('ReplayGainStatus', 'replay_gain_status'), ('Status', 'status'), ('Stats', 'stats'), ('Queue', 'playlistinfo'), ('CurrentSong', 'currentsong'),
              ('GetPlaylists', 'listplaylists'), ('GetEnabledTagTypes', 'tagtypes')):
    cmd(s_, s_, w, unit=False)
cmd('GetPlaylist', 'GetPlaylist', 'listplaylistinfo', [strarg('self.0@')], [okstr('self.0@')], unit=False)
cmd('SetVolume', 'SetVolume', 'setvol', [num('(if self.0 <= 100 { self.0 } else { 100u8 })')], extra='  tokens N10 "min(self.0, 100)" "vx_min_u8(self.0, 100)"')
cmd('SetBinaryLimit', 'SetBinaryLimit', 'binarylimit', [num('self.0')])
cmd('RenamePlaylist', 'RenamePlaylist', 'rename', [strarg('self.from@'), strarg('self.to@')], [okstr('self.from@'), okstr('self.to@')], private=True)
cmd('MoveInPlaylist', 'MoveInPlaylist', 'playlistmove', [strarg('self.playlist@'), num('self.from'), num('self.to')], [okstr('self.playlist@')], private=True)
for s_, verb, extra_args, unit_ in (('StickerGet', 'get', ['self.name@'], False), ('StickerSet', 'set', ['self.name@', 'self.value@'], True), ('StickerDelete', 'delete', ['self.name@'], True), ('StickerList', 'list', [], False)):
    cmd(s_, s_, 'sticker', [kw(verb), kw('song'), strarg('self.uri@')] + [strarg(a) for a in extra_args], [okstr('self.uri@')] + [okstr(a) for a in extra_args], unit=unit_, private=True)
cmd('SendChannelMessage', 'SendChannelMessage', 'sendmessage', [strarg('self.channel@'), strarg('self.message@')], [okstr('self.channel@'), okstr('self.message@')], private=True)
cmd('ReadChannelMessages', 'ReadChannelMessages', 'readmessages', unit=False)
cmd('ListChannels', 'ListChannels', 'channels', unit=False)
cmd('SetSingle', 'SetSingle', 'single', spec='(match self.0 { SingleMode::Disabled => %s, SingleMode::Enabled => %s, SingleMode::Oneshot => %s })' % tuple('%s.push(0x20u8) + %s' % (lit('single'), kw(w)) for w in ('0', '1', 'oneshot')))
cmd('SetReplayGainMode', 'SetReplayGainMode', 'replay_gain_mode', spec='(match self.0 { ReplayGainMode::Off => %s, ReplayGainMode::Track => %s, ReplayGainMode::Album => %s, ReplayGainMode::Auto => %s })' % tuple('%s.push(0x20u8) + %s' % (lit('replay_gain_mode'), kw(w)) for w in ('off', 'track', 'album', 'auto')))
RANGE = 'range_bytes'    # spec fn in definitions.vspec: bytes of `from:to` / `from:`
def rng(e): return '%s(%s)' % (RANGE, e)
W = lambda w, *a: ''.join([lit(w)] + ['.push(0x20u8) + %s' % x for x in a])
cmd('Crossfade', 'Crossfade', 'crossfade', [num('dur_secs(self.0)')])
cmd('Count', 'Count', 'count', ['self.filter.arg_bytes()'], ['mpd_protocol::command::arg_ok(self.filter.arg_bytes())'], unit=False, private=True)
cmd('Shuffle', 'Shuffle', 'shuffle', spec='(match self.0 { None => %s, Some(r) => %s })' % (W('shuffle'), W('shuffle', rng('r'))), private=True)
cmd('Play', 'Play', 'play', lits=['playid'], spec='(match self.0 { None => %s, Some(Song::Position(p)) => %s, Some(Song::Id(i)) => %s })' % (W('play'), W('play', num('p.0')), W('playid', num('i.0'))), private=True)
cmd('Delete', 'Delete', 'delete', lits=['deleteid'], spec='(match self.0 { Target::Id(i) => %s, Target::Range(r) => %s })' % (W('deleteid', num('i.0')), W('delete', rng('r'))), private=True)
cmd('QueueRange', 'QueueRange', 'playlistinfo', lits=['playlistid'], unit=False, private=True,
    spec='(match self.0 { SongOrSongRange::Single(Song::Id(i)) => %s, SongOrSongRange::Single(Song::Position(p)) => %s, SongOrSongRange::Range(r) => %s })' % (W('playlistid', num('i.0')), W('playlistinfo', num('p.0')), W('playlistinfo', rng('r'))))
cmd('LoadPlaylist', 'LoadPlaylist', 'load', ok=[okstr('self.name@')], private=True,
    spec='(match self.range { None => %s, Some(r) => %s })' % (W('load', strarg('self.name@')), W('load', strarg('self.name@'), rng('r'))))
cmd('AddToPlaylist', 'AddToPlaylist', 'playlistadd', ok=[okstr('self.playlist@'), okstr('self.song_url@')], private=True,
    spec='(match self.position { None => %s, Some(p) => %s })' % (W('playlistadd', strarg('self.playlist@'), strarg('self.song_url@')), W('playlistadd', strarg('self.playlist@'), strarg('self.song_url@'), num('p.0'))))
cmd('RemoveFromPlaylist', 'RemoveFromPlaylist', 'playlistdelete', ok=[okstr('self.playlist@')], private=True,
    spec='(match self.target { PositionOrRange::Position(p) => %s, PositionOrRange::Range(r) => %s })' % (W('playlistdelete', strarg('self.playlist@'), num('p')), W('playlistdelete', strarg('self.playlist@'), rng('r'))))
for s_, w in (('Update', 'update'), ('Rescan', 'rescan')):
    cmd(s_, s_, w, ok=['(self.0 matches Some(u) ==> %s)' % okstr('u@')], unit=False, private=True, spec='(match self.0 { None => %s, Some(u) => %s })' % (W(w), W(w, strarg('u@'))))
cmd('ListAllIn', 'ListAllIn', 'listallinfo', ok=[okstr('self.directory@')], unit=False, private=True,
    spec='(if self.directory@.len() == 0 { %s } else { %s })' % (W('listallinfo'), W('listallinfo', strarg('self.directory@'))), extra='  tokens N10 "self.directory.is_empty()" "(vx_str_len(self.directory) == 0)"')
POR = lambda e: 'vx_spec::tok::sbytes(por_text(%s))' % e
cmd('Add', 'Add', 'addid', ok=[okstr('self.uri@')], unit=False, private=True,
    spec='(match self.position { None => %s, Some(p) => %s })' % (W('addid', strarg('self.uri@')), W('addid', strarg('self.uri@'), POR('p'))))
cmd('Move', 'Move', 'move', lits=['moveid'], private=True,
    spec='(match self.from { Target::Id(i) => %s, Target::Range(r) => %s })' % (W('moveid', num('i.0'), POR('self.to')), W('move', rng('r'), POR('self.to'))))
cmd('StickerFind', 'StickerFind', 'sticker', ok=[okstr('self.uri@'), okstr('self.name@'), '(self.filter matches Some(f) ==> %s)' % okstr('f.1@')], unit=False, private=True,
    spec='(match self.filter { None => %s, Some((o, v)) => %s })' % (W('sticker', kw('find'), kw('song'), strarg('self.uri@'), strarg('self.name@')),
         W('sticker', kw('find'), kw('song'), strarg('self.uri@'), strarg('self.name@'), '(match o { StickerFindOperator::Equals => %s, StickerFindOperator::GreaterThan => %s, StickerFindOperator::LessThan => %s })' % (kw('='), kw('>'), kw('<')), strarg('v@'))))
DUR = lambda e: 'vx_spec::tok::sbytes(dur_arg_text(%s))' % e
TAGB = lambda e: 'vstd::utf8::encode_utf8(%s.name())' % e
cmd('SeekTo', 'SeekTo', 'seek', lits=['seekid'], spec='(match self.0 { Song::Position(p) => %s, Song::Id(i) => %s })' % (W('seek', num('p.0'), DUR('self.1')), W('seekid', num('i.0'), DUR('self.1'))))
cmd('CountGrouped', 'CountGrouped', 'count', unit=False, private=True,
    ok=['(self.filter matches Some(f) ==> mpd_protocol::command::arg_ok(f.arg_bytes()))', 'mpd_protocol::command::arg_ok(%s)' % TAGB('self.group_by')],
    spec='(match self.filter { None => %s, Some(f) => %s })' % (W('count', kw('group'), TAGB('self.group_by')), W('count', 'f.arg_bytes()', kw('group'), TAGB('self.group_by'))))
cmd('Find', 'Find', 'find', unit=False, private=True,
    ok=['mpd_protocol::command::arg_ok(self.filter.arg_bytes())', '(self.sort matches Some(t) ==> %s)' % okstr('t.name()')],
    spec='({ let b0 = %s; let b1 = (match self.sort { None => b0, Some(t) => b0.push(0x20u8) + %s.push(0x20u8) + %s }); match self.window { None => b1, Some(w) => b1.push(0x20u8) + %s.push(0x20u8) + %s } })' % (W('find', 'self.filter.arg_bytes()'), kw('sort'), strarg('t.name()'), kw('window'), rng('w')),
    extra='  prologue <<<\n        broadcast use cow_ref_str;\n  >>>')
cmd('AlbumArt', 'AlbumArt', 'albumart', [strarg('self.uri@'), num('self.offset')], [okstr('self.uri@')], unit=False, private=True)
cmd('AlbumArtEmbedded', 'AlbumArtEmbedded', 'readpicture', [strarg('self.uri@'), num('self.offset')], [okstr('self.uri@')], unit=False, private=True)


def name_lemma(words):
    """proof that every literal command word is a name the builder accepts (letters / '_', first a letter, not a command_list word)"""
    body = ['    reveal_strlit("command_list");']
    ens = []
    for w in words:
        ens.append('mpd_protocol::command::valid_name("%s"@)' % w)
        body.append('    reveal_strlit("%s"); assert("%s"@.len() == %d);' % (w, w, len(w)))
        body.append('    ' + ' '.join('assert(vx_spec::tok::word_first("%s"@[%d]) || "%s"@[%d] == \'_\');' % (w, i, w, i) for i in range(len(w))))
        if len(w) >= 12:
            k = next(i for i in range(12) if w[i] != 'command_list'[i])
            body.append('    assert("%s"@.subrange(0, 12)[%d] == "%s"@[%d]); assert("command_list"@[%d] != "%s"@[%d]);' % (w, k, w, k, k, w, k))
        body.append('    assert(mpd_protocol::command::valid_name("%s"@));' % w)
    return 'pub proof fn lemma_command_words()\n    ensures\n        %s,\n{\n%s\n}\n' % (',\n        '.join(ens), '\n'.join(body))


def kw_lemma(words):
    """every literal keyword argument is a plain word: escape_argument sends it as it is, and it can be written (no LF / NUL)"""
    body = []; ens = []
    for w in words:
        ens.append('vx_spec::tok::render("%s"@) == "%s"@ && mpd_protocol::command::arg_ok(vx_spec::tok::sbytes("%s"@))' % (w, w, w))
        body.append('    reveal_strlit("%s"); assert("%s"@.len() == %d);' % (w, w, len(w)))
        body.append('    ' + ' '.join('assert(("%s"@[%d] as u32) > 0x20 && ("%s"@[%d] as u32) < 128 && !vx_spec::tok::special("%s"@[%d]));' % (w, i, w, i, w, i) for i in range(len(w))))
        body.append('    assert(!vx_spec::tok::needs_quotes("%s"@)); vx_spec::tok::lemma_esc_plain("%s"@); assert(vstd::utf8::is_ascii_chars("%s"@)); vstd::utf8::is_ascii_chars_encode_utf8("%s"@);' % (w, w, w, w))
        body.append('    assert(mpd_protocol::command::arg_ok(vx_spec::tok::sbytes("%s"@)));' % w)
    return 'pub proof fn lemma_keywords()\n    ensures\n        %s,\n{\n%s\n}\n' % (',\n        '.join(ens), '\n'.join(body))


def main():
    kw('group'); kw('all'); kw('clear'); kw('disable'); kw('enable')
    out = ['# >>> generated by tools/gen_defs.py (oracle table there) - do not edit by hand']
    words = ['list', 'tagtypes', 'seekcur']
    for c in T:
        line = lit(c['word'])
        for a in c['args']:
            line = '%s.push(0x20u8) + %s' % (line, a)
        spec = c['spec'] or line
        ok = ' && '.join(c['ok']) if c['ok'] else 'true'
        for w in c['lits']:
            if w not in words: words.append(w)
        k = c['key']
        out.append('lift item struct %s' % c['struct'])
        out.append('lift impl "<%s as Command>"' % k)
        out.append('  member <<<')
        out.append('    /// [C15 oracle] MPD protocol reference: `%s`%s' % (c['word'], ' + %d argument(s)' % len(c['args']) if c['args'] else ''))
        vis = 'closed' if c['private'] else 'open'
        out.append('    %s spec fn cmd_spec(&self) -> Seq<u8> { %s }' % (vis, spec))
        out.append('    %s spec fn cmd_ok(&self) -> bool { %s }' % (vis, ok))
        if c['unit']:
            out.append('    open spec fn resp_spec(&self, cv: Seq<(Seq<char>, Seq<char>)>, bin: Option<Seq<u8>>) -> Option<()> { Some(()) }')
        else:
            out.append('    open spec fn resp_spec(&self, cv: Seq<(Seq<char>, Seq<char>)>, bin: Option<Seq<u8>>) -> Option<Self::Response> { arbitrary() }')
        out.append('  >>>')
        out.append('lift fn "<%s as Command>::command"' % k)
        out.append('  props C15\n  implicit C12 C15')
        if c['extra']: out.append(c['extra'].rstrip('\n'))
        out.append('  prologue <<<\n        proof { lemma_command_words(); lemma_keywords(); }\n        broadcast use dec_text_digits, lemma_num_arg_ok, lemma_range_arg_ok, lemma_por_arg_ok, lemma_dur_arg_ok;\n  >>>')
        if not c['unit']:
            out.append('lift fn "<%s as Command>::response"' % k)
            out.append('  props\n  implicit\n  attr <<<\n    #[verifier::external_body]\n  >>>')
        out.append('')
    out.append('append <<<\n' + name_lemma(words) + kw_lemma(KW) + '''/// a duration text can always be written as an argument (digits and a dot)
pub broadcast proof fn lemma_dur_arg_ok(x: std::time::Duration)
    ensures #[trigger] mpd_protocol::command::arg_ok(vx_spec::tok::sbytes(dur_arg_text(x)))
{
    broadcast use dur_arg_text_chars;
    let d = dur_arg_text(x);
    assert(vstd::utf8::is_ascii_chars(d)) by { assert forall|i: int| 0 <= i < d.len() implies (d[i] as u32) < 128 by { assert(('0' <= d[i] && d[i] <= '9') || d[i] == '.'); } }
    vstd::utf8::is_ascii_chars_encode_utf8(d);
    assert forall|i: int| 0 <= i < vx_spec::tok::sbytes(d).len() implies #[trigger] vx_spec::tok::sbytes(d)[i] != 0x0Au8 && vx_spec::tok::sbytes(d)[i] != 0u8 by { assert(('0' <= d[i] && d[i] <= '9') || d[i] == '.'); }
}
/// a number written as decimal digits can always be written as an argument (no LF / NUL)
pub broadcast proof fn lemma_num_arg_ok(n: nat)
    ensures #[trigger] mpd_protocol::command::arg_ok(vx_spec::tok::sbytes(dec_text(n)))
{
    broadcast use dec_text_digits;
    let d = dec_text(n);
    assert(vstd::utf8::is_ascii_chars(d)) by { assert forall|i: int| 0 <= i < d.len() implies (d[i] as u32) < 128 by { assert('0' <= d[i] && d[i] <= '9'); } }
    vstd::utf8::is_ascii_chars_encode_utf8(d);
    assert forall|i: int| 0 <= i < vx_spec::tok::sbytes(d).len() implies #[trigger] vx_spec::tok::sbytes(d)[i] != 0x0Au8 && vx_spec::tok::sbytes(d)[i] != 0u8 by { assert('0' <= d[i] && d[i] <= '9'); }
}
''' + '>>>')
    out.append('# <<< generated')
    p = os.path.join(V, 'contracts', 'mpd_client', 'definitions.vspec')
    s = open(p).read()
    if '# >>> generated' in s:
        s = s[:s.index('# >>> generated')] + '\n'.join(out) + s[s.index('# <<< generated') + len('# <<< generated'):]
    else:
        s = s.rstrip('\n') + '\n\n' + '\n'.join(out) + '\n'
    open(p, 'w').write(s)
    print('%d commands, %d words' % (len(T), len(words)))


if __name__ == '__main__':
    main()

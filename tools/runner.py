#!/usr/bin/env python3
"""Check runner: snapshot /repo -> splice -> verus (per unit) -> attribute diagnostics to named obligations ->
decide one property -> guards -> bounded stand-ins -> replay -> evidence.   Exit codes: 0 held / 1 VIOLATION /
2 undecided (lost anchor, unsupported construct, resource limit, tool failure: never an alarm, never a pass)."""
import os, sys, json, re, time, hashlib, shutil, subprocess, tempfile, argparse, glob

VERIF = os.path.dirname(os.path.dirname(os.path.abspath(__file__)))
REPO = os.environ.get('VERIF_REPO', '/repo')
DEPS = os.path.join(VERIF, '.deps')
CACHE = os.path.join(VERIF, '.cache')
sys.path.insert(0, os.path.join(VERIF, 'tools'))
import splice as splicer
import props as P

VERUS_COMMON = ['--crate-type=lib', '--edition=2024']


def log(*a):
    print(*a, file=sys.stderr, flush=True)


def run(cmd, cwd=None, timeout=3600, env=None):
    t0 = time.time()
    e = dict(os.environ)
    e['CARGO_NET_OFFLINE'] = 'true'
    if env: e.update(env)
    p = subprocess.run(cmd, cwd=cwd, stdout=subprocess.PIPE, stderr=subprocess.PIPE, timeout=timeout, env=e)
    return p.returncode, p.stdout.decode('utf-8', 'replace'), p.stderr.decode('utf-8', 'replace'), time.time() - t0


def dep(name):
    c = sorted(glob.glob(os.path.join(DEPS, 'lib%s-*.rlib' % name)))
    if not c:
        raise Undecided('third-party rlib %s missing: run ./setup.sh' % name)
    return c[0]


class Undecided(Exception):
    pass


# ------------------------------------------------------------------------------------------------ support crates
def file_hash(paths):
    h = hashlib.sha256()
    for p in sorted(paths):
        h.update(p.encode()); h.update(open(p, 'rb').read())
    return h.hexdigest()[:16]


def parse_verus_json(out):
    i = out.find('{')
    if i < 0: return None
    try:
        return json.loads(out[i:])
    except Exception:
        return None


def function_breakdown(j):
    fns = {}
    if not j: return fns
    smt = j.get('times-ms', {}).get('smt', {})
    for m in smt.get('smt-run-module-times', []):
        for f in m.get('function-breakdown', []):
            name = f['function']
            e = fns.setdefault(name, {'success': True, 'time_us': 0, 'rlimit': 0, 'mode': f.get('mode:', ''), 'queries': 0})
            e['success'] = e['success'] and bool(f.get('success'))
            e['time_us'] += f.get('time-micros', 0); e['rlimit'] += f.get('rlimit', 0); e['queries'] += 1
    return fns


def build_support():
    """vx_base (assumed contracts), vx_spec (proved vocabulary), tokio stand-in. Independent of /repo => cached by content."""
    srcs = sorted(glob.glob(os.path.join(VERIF, 'contracts', 'prelude', '*.rs')) + glob.glob(os.path.join(VERIF, 'contracts', 'spec', '*.rs')))
    h = file_hash(srcs)
    d = os.path.join(CACHE, 'support-' + h)
    res_p = os.path.join(d, 'results.json')
    if os.path.exists(res_p):
        return d, json.load(open(res_p))
    os.makedirs(d, exist_ok=True)
    results = {}
    bytes_rlib = dep('bytes')
    steps = [
        ('vx_base', os.path.join(VERIF, 'contracts/prelude/vx_base.rs'), ['--extern', 'bytes=' + bytes_rlib], 'libvx_base.rlib', 'vx_base.vir'),
        ('vx_spec', os.path.join(VERIF, 'contracts/spec/lib.rs'), [], 'libvx_spec.rlib', 'vx_spec.vir'),
    ]
    if os.path.exists(os.path.join(VERIF, 'contracts/prelude/vx_tokio.rs')):
        steps.append(('tokio', os.path.join(VERIF, 'contracts/prelude/vx_tokio.rs'),
                      ['--extern', 'bytes=' + bytes_rlib, '--extern', 'vx_base=' + os.path.join(d, 'libvx_base.rlib'), '--import', 'vx_base=' + os.path.join(d, 'vx_base.vir')],
                      'libtokio.rlib', 'vx_tokio.vir'))
    if os.path.exists(os.path.join(VERIF, 'contracts/prelude/vx_nom.rs')):
        steps.append(('nom', os.path.join(VERIF, 'contracts/prelude/vx_nom.rs'),
                      ['--extern', 'vx_spec=' + os.path.join(d, 'libvx_spec.rlib'), '--import', 'vx_spec=' + os.path.join(d, 'vx_spec.vir')],
                      'libnom.rlib', 'vx_nom.vir'))
    for (crate, src, extra, rlib, vir) in steps:
        cmd = ['verus'] + VERUS_COMMON + ['--crate-name', crate, '-L', 'dependency=' + DEPS, '-L', 'dependency=' + d] + extra + \
              ['--compile', '--export', os.path.join(d, vir), '-o', os.path.join(d, rlib), '--output-json', '--time', '--rlimit', '60', src]
        rc, out, err, wall = run(cmd, cwd=d)
        j = parse_verus_json(out)
        vr = (j or {}).get('verification-results', {})
        if rc != 0 or not vr.get('success'):
            shutil.rmtree(d, ignore_errors=True)
            raise Undecided('support crate %s failed to verify/compile:\n%s' % (crate, err[-3000:]))
        results[crate] = {'verified': vr.get('verified'), 'errors': vr.get('errors'), 'wall_s': round(wall, 2),
                          'functions': function_breakdown(j), 'cmd': ' '.join(cmd)}
    json.dump(results, open(res_p, 'w'))
    return d, results


# ------------------------------------------------------------------------------------------------ units
class UnitResult:
    def __init__(self):
        self.name = ''; self.cmd = ''; self.wall = 0.0
        self.functions = {}; self.errors = []; self.report = None; self.linemaps = {}
        self.verified = 0; self.nerrors = 0; self.fatal = None; self.rustc_errors = []


UNITS = {
    'P': {'crate': 'mpd_protocol', 'root': 'mpd_protocol/src/lib.rs', 'specs': 'contracts/mpd_protocol/*.vspec',
          'externs': ['ahash', 'bytes', 'nom', 'tracing'], 'cfg': ['feature="async"'], 'export': True},
    # same crate, different lift set: functions whose proofs need closure contracts (call_ensures) cannot be verified while a
    # trait impl that calls them is lifted (Verus drops closure facts inside such a call-graph component); they are verified
    # here with their trait-impl callers left outside, and carry the SAME contract as `external_body` in unit P
    'Pc': {'crate': 'mpd_protocol', 'root': 'mpd_protocol/src/lib.rs', 'specs': 'contracts/mpd_protocol/*.vspec',
           'externs': ['ahash', 'bytes', 'nom', 'tracing'], 'cfg': ['feature="async"']},
    'C': {'crate': 'mpd_client', 'root': 'mpd_client/src/lib.rs', 'specs': 'contracts/mpd_client/*.vspec',
          'externs': ['bytes', 'tracing'], 'cfg': [], 'needs': ['P']},
}


def snapshot(scratch):
    dst = os.path.join(scratch, 'repo')
    rc, out, err, _ = run(['rsync', '-a', '--delete', '--exclude', 'target', '--exclude', '.git', REPO + '/', dst + '/'])
    if rc != 0: raise Undecided('snapshot failed: ' + err)
    return dst


def precheck(root, report):
    """no unsafe / mem::forget / ManuallyDrop / Box::leak in lifted sources"""
    bad = []
    for f in sorted({x['file'] for x in report['functions']}):
        txt = open(os.path.join(root, f)).read()
        for pat in (r'\bunsafe\b', r'mem::forget', r'ManuallyDrop', r'Box::leak'):
            for m in re.finditer(pat, txt):
                line = txt.count('\n', 0, m.start()) + 1
                l = txt.split('\n')[line - 1]
                if l.strip().startswith('//') or 'forbid(unsafe_code)' in l: continue
                bad.append('%s:%d: %s' % (f, line, m.group(0)))
    return bad


def run_unit(name, scratch, support_dir, tier, seed, rlimit=30, extra_flags=()):
    """splice + verify, with two repair loops that keep one odd function from making the whole unit undecided:
    * Verus rejects a call of a repository function that is not under contract (typically a helper an edit introduced): that
      function is lifted bare (no contract: its callers know nothing about its result) and the unit is re-run;
    * Verus / rustc reject a construct INSIDE a lifted function (unsupported std function, syntax our rules do not cover): that
      function is degraded (body unverified, contract assumed, its properties undecided) and the unit is re-run."""
    extra = []; drop = []
    ur = None
    for _round in range(6):
        ur = _run_unit_once(name, scratch, support_dir, tier, seed, rlimit, extra_flags, extra, drop)
        new = []; newdrop = []
        for d in ur.errors:
            m = re.search(r'cannot use function `([^`]+)` which is ignored', d.get('message', ''))
            if m:
                loc = _locate_fn(os.path.join(scratch, 'repo'), UNITS[name]['crate'], m.group(1))
                if loc and loc not in [(a, b) for (a, b, _) in extra] and loc not in new: new.append(loc)
                continue
            if classify_message(d.get('message', '')) == 'other':
                # not a verification failure: which lifted fn does it sit in?
                for sp in sorted(d.get('spans', []), key=lambda s_: 0 if s_.get('is_primary') else 1):
                    f, o, ib = locate(ur, sp['file_name'], sp['byte_start'])
                    if f and not f.startswith('lemma:'):
                        fi = next((x for x in (ur.report or {}).get('functions', []) if x['key'] == f), None)
                        if fi and not fi.get('dropped') and (fi['file'], f) not in drop and (fi['file'], f) not in newdrop and fi.get('kind') in ('fn', None, 'lift'):
                            newdrop.append((fi['file'], f))
                        break
        if not new and not newdrop: return ur
        caller_props = sorted({p for f in (ur.report or {}).get('functions', []) for p in (f.get('props') or [])})
        extra += [(a, b, caller_props) for (a, b) in new]
        drop += newdrop
        snapshot(scratch)
    return ur


def run_canary(name, scratch, support_dir, tier, seed, base_ur):
    """vacuity guard: the same unit once more with `assert(false)` at the entry of every lifted fn; returns the list of fns whose
    canary did NOT fail (their precondition / the assumptions in scope are contradictory), or None if the run itself failed"""
    extra = [(x['file'], x['fn'], []) for x in (base_ur.report or {}).get('auto_lifted', [])]
    drop = [(f['file'], f['key']) for f in (base_ur.report or {}).get('functions', []) if f.get('dropped')]
    snapshot(scratch)
    try:
        ur = _run_unit_once(name, scratch, support_dir, tier, seed, 30, (), extra, drop, canary=True)
    except Undecided:
        return None, 0
    if ur.fatal: return None, 0
    # the canary run must itself be a proper verification run: any rustc / tool error makes it meaningless
    if any(classify_message(d.get('message', '')) == 'other' for d in ur.errors): return None, 0
    failed = set()
    for d in ur.errors:
        for sp in d.get('spans', []):
            f, o, ib = locate(ur, sp['file_name'], sp['byte_start'])
            if o and o.startswith('C00.canary.'): failed.add(o)
    cans = ur.report.get('canaries', [])
    return [c for c in cans if c['id'] not in failed], len(cans)


def _locate_fn(root, crate, path):
    """`crate::mod::..::[Type::]name` -> (relative file, vspec key) if such a fn exists in the sources"""
    parts = path.split('::')
    if parts[0] != crate: return None
    parts = parts[1:]
    import rustlex
    for cut in (len(parts) - 1, len(parts) - 2):
        if cut < 0: continue
        mod, rest = parts[:cut], parts[cut:]
        for rel in (os.path.join(crate, 'src', *mod) + '.rs', os.path.join(crate, 'src', *mod, 'mod.rs'), os.path.join(crate, 'src', 'lib.rs') if not mod else None):
            if not rel or not os.path.exists(os.path.join(root, rel)): continue
            try:
                src = rustlex.Src(open(os.path.join(root, rel)).read())
                items = rustlex.parse_items(src, 0, src.n())
            except Exception:
                continue
            if len(rest) == 1:
                if any(it.kind == 'fn' and it.name == rest[0] and not it.cfg_test for it in items): return (rel, rest[0])
            else:
                for it in items:
                    if it.kind == 'impl' and it.impl_trait is None and it.type_name == rest[0] and any(c.kind == 'fn' and c.name == rest[1] for c in it.children):
                        return (rel, '%s::%s' % (rest[0], rest[1]))
    return None


def _run_unit_once(name, scratch, support_dir, tier, seed, rlimit=30, extra_flags=(), extra_lifts=(), force_drop=(), canary=False):
    u = UNITS[name]
    root = os.path.join(scratch, 'repo')
    ur = UnitResult(); ur.name = name
    specs = sorted(glob.glob(os.path.join(VERIF, u['specs'])))
    pre_bad = None
    try:
        # precheck runs on the ORIGINAL sources of the files that will be lifted
        ur.report = splicer.splice(root, specs, os.path.join(VERIF, 'contracts'), name, extra_lifts, force_drop, canary)
    except (splicer.SpliceError, splicer.vspec.VspecError) as e:
        raise Undecided('splice (%s): %s' % (name, e))
    except Exception as e:
        raise Undecided('splice (%s) crashed: %r' % (name, e))
    for f in sorted({x['file'] for x in ur.report['functions']} | {x['file'] for x in ur.report['items']}):
        ur.linemaps[f] = splicer.build_linemap(os.path.join(root, f))
    cmd = ['verus'] + VERUS_COMMON + ['--crate-name', u['crate'], '-L', 'dependency=' + DEPS, '-L', 'dependency=' + support_dir, '-L', 'dependency=' + scratch]
    nom = os.path.join(support_dir, 'libnom.rlib')
    for e in u['externs']:
        if e == 'nom' and os.path.exists(nom): continue
        cmd += ['--extern', '%s=%s' % (e, dep(e))]
    if os.path.exists(nom):
        # nom stand-in (contracts/prelude/vx_nom.rs): ASSUMED combinator contracts, in place of the real crate
        cmd += ['--extern', 'nom=' + nom, '--import', 'nom=' + os.path.join(support_dir, 'vx_nom.vir')]
    tok = os.path.join(support_dir, 'libtokio.rlib')
    if os.path.exists(tok):
        cmd += ['--extern', 'tokio=' + tok, '--import', 'tokio=' + os.path.join(support_dir, 'vx_tokio.vir')]
    else:
        cmd += ['--extern', 'tokio=' + dep('tokio')]
    for c in ('vx_base', 'vx_spec'):
        cmd += ['--extern', '%s=%s' % (c, os.path.join(support_dir, 'lib%s.rlib' % c)), '--import', '%s=%s' % (c, os.path.join(support_dir, '%s.vir' % c))]
    for n in u.get('needs', []):
        nu = UNITS[n]
        cmd += ['--extern', '%s=%s' % (nu['crate'], os.path.join(scratch, 'lib%s.rlib' % nu['crate'])), '--import', '%s=%s' % (nu['crate'], os.path.join(scratch, '%s.vir' % nu['crate']))]
    for c in u['cfg']:
        cmd += ['--cfg', c]
    if u.get('export'):
        if not canary: cmd += ['--compile', '--export', os.path.join(scratch, '%s.vir' % u['crate']), '-o', os.path.join(scratch, 'lib%s.rlib' % u['crate'])]
    cmd += ['--error-format=json', '--output-json', '--time', '--multiple-errors', '10', '--rlimit', str(rlimit),
            '--smt-option', 'smt.random_seed=%d' % (seed % 1000)]
    cmd += list(extra_flags)
    cmd += [u['root']]
    ur.cmd = ' '.join(cmd)
    rc, out, err, wall = run(cmd, cwd=root, timeout=1800)
    ur.wall = wall
    j = parse_verus_json(out)
    ur.functions = function_breakdown(j)
    vr = (j or {}).get('verification-results', {})
    ur.verified = vr.get('verified', 0); ur.nerrors = vr.get('errors', 0)
    for line in err.split('\n'):
        line = line.strip()
        if not line.startswith('{'): continue
        try:
            d = json.loads(line)
        except Exception:
            continue
        if d.get('level') != 'error': continue
        if d.get('message', '').startswith('aborting due to'): continue
        ur.errors.append(d)
    if j is None or vr.get('encountered-vir-error') or (vr.get('encountered-error') and not vr.get('errors') and not ur.errors):
        first = next((d.get('rendered') or d.get('message') for d in ur.errors), None) or err[-3000:]
        ur.fatal = 'verus rejected the spliced text of unit %s (rc=%d): %s' % (name, rc, first.replace('\n', ' | ')[:1500])
    if j is None and not ur.errors:
        ur.fatal = 'verus failed for unit %s (rc=%d):\n%s' % (name, rc, err[-4000:])
    return ur


VERIF_MSG = ('postcondition not satisfied', 'precondition not satisfied', 'assertion failed', 'invariant not satisfied',
             'possible arithmetic underflow/overflow', 'possible division by zero', 'decreases not satisfied',
             'loop invariant not preserved', 'recommendation not met', 'unreachable', 'possible bit shift',
             'index out of bounds', 'constructed value may fail to meet its declared type invariant', 'may fail to meet',
             'cannot show invariant', 'invariant not satisfied before loop', 'invariant not satisfied at end of loop body',
             'failed this postcondition', 'termination', 'unable to prove', 'post-condition of closure', 'pre-condition of closure')
RESOURCE_MSG = ('rlimit', 'resource limit', 'timed out', 'canceled')


def classify_message(msg):
    m = msg.lower()
    if any(x in m for x in RESOURCE_MSG): return 'resource'
    if any(m.startswith(x) or x in m for x in VERIF_MSG): return 'verification'
    return 'other'     # rustc error / unsupported construct


def locate(ur, file_name, byte):
    """(fn key | None, obligation id | None, in_block) for a byte offset in a spliced file"""
    lm = ur.linemaps.get(file_name)
    if lm is None:
        return None, None, False
    fn = None
    for f in lm['fns']:
        if f['lo'] <= byte < f['hi']:
            fn = f['key']; break
    ob = None; inblk = False
    for b in lm['blks']:
        if b['lo'] <= byte < b['hi']:
            inblk = True
            best = None
            for o in lm['obs']:
                if b['lo'] <= o['pos'] <= byte and (best is None or o['pos'] > best['pos']):
                    best = o
            if best: ob = best['id']
            break
    return fn, ob, inblk


def attribute(ur, unit_files_prefix=''):
    """turn each error diagnostic into {kind, fn, ob, props, message, rendered}"""
    fnprops = {f['key']: f for f in ur.report['functions']}
    out = []
    for d in ur.errors:
        kind = classify_message(d.get('message', ''))
        spans = d.get('spans', [])
        spans = sorted(spans, key=lambda s: 0 if s.get('is_primary') else 1)
        fn = ob = None; inblk = False
        ob_any = None
        for s in spans:
            f, o, ib = locate(ur, s['file_name'], s['byte_start'])
            if fn is None and f is not None:
                fn = f; inblk = ib
            if o is not None and ob_any is None:
                ob_any = o
        ob = ob_any
        props = set(); helper_rest = []
        if ob:
            parts = ob.split('|')
            props.add(parts[0].split('.')[0]); props |= set(parts[1:])
            obname = parts[0]
            if d.get('message', '').startswith('precondition not satisfied') and fn and fn in fnprops:
                # a callee's requires clause failing at a call site speaks about the properties the CALLER is under contract for
                caller = set(fnprops[fn].get('props') or [])
                if props & caller: props &= caller
                obname = '%s@%s' % (obname, fn)
        else:
            obname = None
            if fn and fn in fnprops:
                fi = fnprops[fn]
                if inblk:      # an untagged helper assertion inside an inserted proof block: a step of the proof script, it supports all of
                    # the fn's clauses. It is reported under the fn's first property; which of the others it concerns cannot be told
                    # from a broken proof step, so for them the verdict is undecided (their own clauses and stand-ins still decide)
                    pl = list(fi.get('props') or [])
                    props |= set(pl[:1]); helper_rest = pl[1:]
                else:          # an implicit obligation in the original code: callee precondition, overflow, bounds, unreachable panic
                    props |= set(fi.get('implicit') if fi.get('implicit') is not None else (fi.get('props') or []))
        msg = d.get('message', '')
        where = ''
        for s in spans:
            if s.get('is_primary'):
                where = '%s:%d' % (s['file_name'], s['line_start']); break
        if fn and fn in fnprops and where:
            # line numbers of the spliced text differ from the repository's: name the function's own position as well
            where = '%s in the spliced text; fn %s starts at %s:%s of the repository' % (where, fn, fnprops[fn].get('file', '?'), fnprops[fn].get('line', '?'))
        if obname is None and fn:
            obname = '%s#implicit(%s)' % (fn, msg)
        out.append({'kind': kind, 'fn': fn, 'ob': obname, 'props': sorted(props), 'message': msg, 'where': where,
                    'rendered': d.get('rendered', '')[:6000], 'undecided_props': helper_rest if kind == 'verification' else []})
    return out


# ------------------------------------------------------------------------------------------------ deciding a property
def fn_json_name(crate, file, key):
    """verus function name for a lifted fn"""
    mod = file.split('/src/', 1)[1][:-3]
    mod = mod.replace('/mod', '').replace('/', '::')
    if mod in ('lib',): mod = ''
    k = key
    m = re.match(r'^<&?(\w+) as .*>::(\w+)$', k)
    if m: k = '%s::%s' % (m.group(1), m.group(2))
    return '::'.join([x for x in (crate, mod, k) if x])


def main():
    ap = argparse.ArgumentParser()
    ap.add_argument('prop', nargs='?')
    ap.add_argument('--tier', default=os.environ.get('VERIF_TIER', 'quick'))
    ap.add_argument('--build-support', action='store_true')
    ap.add_argument('--replay')
    ap.add_argument('--keep', action='store_true')
    a = ap.parse_args()
    if a.build_support:
        d, res = build_support()
        print('support-dir', d)
        for k, v in res.items():
            print(k, v['verified'], 'verified', v['wall_s'], 's')
        return 0
    import decide
    return decide.check(a.prop, a.tier, int(os.environ.get('VERIF_SEED', '0') or 0), a.keep, a.replay)


if __name__ == '__main__':
    sys.exit(main())

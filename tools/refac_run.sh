#!/bin/bash
# usage: refac_run.sh <dir with refacN.diff> [N ...]
# Applies each behaviour-preserving refactoring to a scratch worktree of /repo and runs, from the snapshot of the committed /verif
# (/var/tmp/verif-snap), the quick checks of the properties anchored in the touched files. 0 = decided and held, 2 = undecided,
# 1 = ALARM (a false alarm: these changes preserve behaviour). Results: <dir>/results.txt
DIR=$(cd $1 && pwd); shift
SNAP=${SNAP:-/var/tmp/verif-snap}; WT=${REFAC_WT:-/tmp/wt-refac}
[ -d $WT ] || git -C /repo worktree add -q --detach $WT HEAD
props_of() {
  python3 - "$1" <<'PY'
import re,sys
M={'mpd_client/src/client/connection.rs':'C01 C04 C05 C08','mpd_client/src/client/mod.rs':'C01 C13 C17 C18','mpd_protocol/src/response/mod.rs':'C03 C09 C10 C01',
'mpd_protocol/src/response/frame.rs':'C19 C12','mpd_protocol/src/connection.rs':'C02 C09 C10 C18','mpd_protocol/src/parser.rs':'C03 C09 C18','mpd_protocol/src/command.rs':'C06 C07 C13',
'mpd_client/src/filter.rs':'C11','mpd_client/src/commands/definitions.rs':'C15 C16','mpd_client/src/commands/command_list.rs':'C13 C12','mpd_client/src/commands/mod.rs':'C15 C13',
'mpd_client/src/tag.rs':'C20','mpd_client/src/responses/song.rs':'C14 C12','mpd_client/src/responses/mod.rs':'C16 C12','mpd_client/src/responses/count.rs':'C16 C12',
'mpd_client/src/responses/list.rs':'C16 C12','mpd_client/src/responses/playlist.rs':'C16 C12','mpd_client/src/responses/sticker.rs':'C16 C12','mpd_client/src/responses/timestamp.rs':'C16 C12'}
ps=[]
for f in re.findall(r'^\+\+\+ b/(\S+)', open(sys.argv[1]).read(), re.M):
    for p in M.get(f,'').split():
        if p not in ps: ps.append(p)
print(' '.join(ps))
PY
}
for d in $(ls $DIR/refac*.diff | sort -V); do
  n=$(basename $d .diff); k=${n#refac}
  if [ $# -gt 0 ] && ! echo " $* " | grep -q " $k "; then continue; fi
  cd $WT && git checkout -q --detach $(git -C /repo rev-parse HEAD) && git checkout -q -- . && git clean -fdq
  git apply $d || { echo "$n: patch does not apply" | tee -a $DIR/results.txt; continue; }
  PS=$(props_of $d); RES=""
  cd $SNAP
  for p in $PS; do
    out=$(VERIF_REPO=$WT ./check $p 2>/dev/null); rc=$?; RES="$RES $p=$rc"
    [ $rc -ne 0 ] && echo "$out" | grep -E "^VIOLATION|^UNDECIDED|^  obligation" | head -4 | cut -c1-240 | sed "s/^/   [$n $p] /"
  done
  echo "$n:$RES" | tee -a $DIR/results.txt
done
cd $WT && git checkout -q -- . && git clean -fdq

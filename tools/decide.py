#!/usr/bin/env python3
"""Decide one property: run its units, attribute failures, apply known findings, guards, bounded stand-ins, evidence."""
import os, sys, json, re, time, shutil, tempfile, glob
import runner as R
import props as P

VERIF = R.VERIF


def load_known():
    p = os.path.join(VERIF, 'known_findings.json')
    if not os.path.exists(p): return {'findings': [], 'fixed': []}
    return json.load(open(p))


def assumption_scan(root, files, support_srcs):
    """mechanical scan for assume / admit / external_body / assume_specification / axiom in spliced sources + support crates"""
    pats = {'assume(': r'\bassume\s*\(', 'admit(': r'\badmit\s*\(', 'external_body': r'external_body', 'assume_specification': r'assume_specification',
            'axiom': r'\baxiom\s+fn', 'external_type_specification': r'external_type_specification', 'external_trait_specification': r'external_trait_specification',
            'exec_allows_no_decreases_clause': r'exec_allows_no_decreases_clause'}
    counts = {k: 0 for k in pats}
    per_file = {}
    for f in files:
        try:
            txt = open(f).read()
        except Exception:
            continue
        # only count inside what Verus sees; cheap approximation: whole file, comments removed
        txt = re.sub(r'//[^\n]*', '', txt)
        c = {k: len(re.findall(p, txt)) for k, p in pats.items()}
        if any(c.values()):
            per_file[os.path.relpath(f, root) if f.startswith(root) else os.path.relpath(f, VERIF)] = {k: v for k, v in c.items() if v}
        for k, v in c.items(): counts[k] += v
    return counts, per_file


def write_replay(prop, n, payload):
    d = os.path.join(VERIF, 'out', 'replay')
    os.makedirs(d, exist_ok=True)
    p = os.path.join(d, '%s-%d.json' % (prop, n))
    json.dump(payload, open(p, 'w'), indent=1)
    return p


def check(prop, tier, seed, keep=False, replay=None):
    t0 = time.time()
    if prop not in P.PROPS:
        print('property %s is not claimed by this framework' % prop)
        return 2
    cfg = P.PROPS[prop]
    if replay:
        import replay as RP
        return RP.replay_file(replay)
    scratch = tempfile.mkdtemp(prefix='vx-%s-' % prop, dir=os.environ.get('VERIF_SCRATCH', '/var/tmp'))
    try:
        try:
            rc = _check(prop, cfg, tier, seed, scratch, t0)
        except R.Undecided as e:
            print('UNDECIDED property=%s reason=%s' % (prop, str(e).split('\n')[0][:300]))
            R.log(str(e))
            write_undecided_evidence(prop, tier, seed, str(e), time.time() - t0)
            rc = 2
        return rc
    finally:
        if not keep:
            shutil.rmtree(scratch, ignore_errors=True)
        else:
            R.log('scratch kept at', scratch)


def write_undecided_evidence(prop, tier, seed, reason, wall):
    ev = {'property_id': prop, 'tier': tier if tier in ('quick', 'thorough') else 'quick', 'seed': seed, 'level': 'other',
          'coverage': {'explanation': 'UNDECIDED (exit 2): ' + reason[:2000]}, 'wall_s': round(wall, 2), 'violations': 0}
    os.makedirs(EVIDENCE_DIR(), exist_ok=True)
    json.dump(ev, open(os.path.join(EVIDENCE_DIR(), prop + '.json'), 'w'), indent=1)


def _run_units(cfg, scratch, support_dir, tier, seed):
    results = {}
    order = []
    for u in cfg['units']:
        for n in R.UNITS[u].get('needs', []):
            if n not in order: order.append(n)
        if u not in order: order.append(u)
    failed_exports = {}
    for u in order:
        R.snapshot(scratch)          # every unit is spliced from a pristine copy of the current tree
        blocked = [n for n in R.UNITS[u].get('needs', []) if n in failed_exports]
        if blocked:
            # a unit this one imports could not even be compiled for export: this unit is undecided; the bounded stand-ins still run
            ur = R.UnitResult(); ur.name = u; ur.fatal = 'unit %s cannot be exported for its dependants: %s' % (blocked[0], failed_exports[blocked[0]]); ur.report = {'functions': [], 'items': [], 'file_rules': [], 'ghost_clauses': []}
            ur.attributed = []
            results[u] = ur
            continue
        try:
            ur = R.run_unit(u, scratch, support_dir, tier, seed)
        except R.Undecided as e:
            # lost anchor / unsupported construct: this unit is undecided; bounded stand-ins and the other units still run
            ur = R.UnitResult(); ur.name = u; ur.fatal = str(e); ur.report = {'functions': [], 'items': [], 'file_rules': [], 'ghost_clauses': []}
            ur.attributed = []
            results[u] = ur
            continue
        # resource-outs are never a verdict: retry with doubled rlimit and other seeds
        att = R.attribute(ur)
        tries = 0
        while any(a['kind'] == 'resource' for a in att) and tries < 2:
            tries += 1
            R.log('resource-out in unit %s, retry %d with rlimit %d' % (u, tries, 30 * 2 ** tries))
            R.snapshot(scratch)
            ur = R.run_unit(u, scratch, support_dir, tier, seed + 17 * tries, rlimit=30 * 2 ** tries)
            att = R.attribute(ur)
        # `.summary` clauses restate a function's attributed clauses as the one predicate its callers use (derived, nothing of their
        # own): a failed summary next to a failed attributed clause of the same fn is that failure again and is dropped; a summary
        # that fails ALONE can only be solver incompleteness and counts as a resource-out (undecided), never as a violation
        att2 = []
        for a in att:
            if a['kind'] == 'verification' and (a.get('ob') or '').split('|')[0].endswith('.summary'):
                if any(b is not a and b['fn'] == a['fn'] and b['kind'] == 'verification' and not (b.get('ob') or '').split('|')[0].endswith('.summary') for b in att):
                    continue
                a = dict(a); a['kind'] = 'resource'
            att2.append(a)
        att = att2
        # a function NONE of whose result clauses can be proved any more (>= 3 of them, all failing) has lost the connection between its
        # code and its contract - e.g. a closure with a class contract was replaced by a function item; the solver then knows nothing
        # about the result, and WHICH clause the code really violates cannot be told. It is reported under the function's first
        # property; for the other properties of its clauses the verdict is undecided (their bounded stand-ins still decide)
        by_fn = {}
        for a in att:
            if a['kind'] == 'verification' and a.get('ob') and '#implicit' not in a['ob']: by_fn.setdefault(a['fn'], []).append(a)
        for f in ur.report['functions']:
            cl = [c.split('|')[0] for c in f.get('clauses', []) if not c.split('|')[0].endswith('.summary') and '.class_' not in c]
            fails = by_fn.get(f['key'], [])
            failed_ids = {(a['ob'] or '').split('|')[0] for a in fails}
            if len(cl) >= 3 and all(c in failed_ids for c in cl) and f.get('props'):
                primary = f['props'][0]
                for a in fails:
                    if primary not in a['props']:
                        a['kind'] = 'resource'; a['message'] = 'every result clause of this function failed together (connection between code and contract lost); undecided for this property: ' + a['message']
        ur.attributed = att
        # thorough: seed stability - the same unit under two other solver seeds; functions whose verdict flips are listed (reported,
        # not an exit-code matter: the primary run decides)
        ur.unstable = []
        if tier == 'thorough' and u in cfg['units']:
            base = {k: v.get('success') for k, v in ur.functions.items()}
            for ds in (101, 202):
                R.snapshot(scratch)
                try:
                    u2 = R.run_unit(u, scratch, support_dir, tier, seed + ds)
                    for k, v in u2.functions.items():
                        if k in base and base[k] != v.get('success') and k not in ur.unstable: ur.unstable.append(k)
                except R.Undecided:
                    ur.unstable.append('(re-run with seed offset %d did not complete)' % ds)
        # vacuity guard (units that carry obligations of this property only)
        ur.vacuous = []; ur.n_canaries = 0
        if u in cfg['units']:
            vac, ncan = R.run_canary(u, scratch, support_dir, tier, seed, ur)
            ur.vacuous = vac; ur.n_canaries = ncan
        results[u] = ur
        if R.UNITS[u].get('export'):
            rlib = os.path.join(scratch, 'lib%s.rlib' % R.UNITS[u]['crate'])
            dependants = [x for x in order if u in R.UNITS[x].get('needs', [])]
            if dependants and (ur.nerrors or ur.errors or not os.path.exists(rlib)):
                # export without verification so that dependants can still be checked against the contracts
                cmd = ur.cmd.split(' ')
                cmd = [c for c in cmd if c not in ('--output-json', '--time')] + ['--no-verify']
                rc, out, err, _ = R.run(cmd, cwd=os.path.join(scratch, 'repo'))
                if not os.path.exists(rlib):
                    m_ = re.search(r'"message":"([^"]{0,200})', err or '')
                    failed_exports[u] = (m_.group(1) if m_ else (err or '')[-300:]).replace('\n', ' ')
                    R.log('unit %s cannot be exported for its dependants:\n%s' % (u, (err or '')[-2000:]))
                    if not ur.fatal: ur.fatal = 'rustc rejected the spliced text of unit %s: %s' % (u, failed_exports[u])
    return results


def _check(prop, cfg, tier, seed, scratch, t0):
    support_dir, support_res = R.build_support()
    root = R.snapshot(scratch)
    results = _run_units(cfg, scratch, support_dir, tier, seed)
    known = load_known()
    open_known = {k['obligation']: k for k in known.get('findings', []) if k['property'] == prop and k.get('status', 'open') == 'open'}

    violations = []; known_hit = []; undecided = []; other_prop_failures = []
    fun_rows = []; clauses_all = []; n_obl = 0; n_dis = 0
    samples = []
    seen_fn_keys = set()
    used_anon = set()
    for uname, ur in results.items():
        if ur.fatal:
            undecided.append('unit %s: %s' % (uname, ur.fatal.split('\n')[0]))
            R.log(ur.fatal)
            continue
        for a in ur.attributed:
            if prop in (a.get('undecided_props') or []):
                undecided.append('unit %s: a step of the proof script of %s failed (%s); reported under %s, undecided for %s' % (uname, a['fn'], a['message'][:80], ','.join(a['props']), prop))
            if a['kind'] == 'other':
                undecided.append('unit %s: rustc/verus rejected the spliced text: %s at %s' % (uname, a['message'][:200], a['where']))
                R.log(a['rendered'])
            elif a['kind'] == 'resource':
                if prop in a['props'] or not a['props']:
                    undecided.append('unit %s: %s in %s' % (uname, 'solver resource limit' if 'every result clause' not in a.get('message', '') and not (a.get('ob') or '').split('|')[0].endswith('.summary') else a.get('message', '')[:160], a['fn']))
            else:
                if not a['props']:
                    undecided.append('unit %s: unattributed verification failure: %s at %s' % (uname, a['message'], a['where']))
                    R.log(a['rendered'])
                elif prop in a['props']:
                    if a['ob'] in open_known:
                        known_hit.append((open_known[a['ob']], a))
                    else:
                        violations.append(a)
                else:
                    other_prop_failures.append(a)
        # vacuity guard
        if getattr(ur, 'vacuous', []) is None:
            undecided.append('unit %s: the vacuity canary run did not complete' % uname)
        else:
            for c in getattr(ur, 'vacuous', []):
                fi = next((f for f in ur.report['functions'] if f['key'] == c['fn']), None)
                if fi and (prop in (fi.get('props') or []) or prop in (fi.get('implicit') or [])):
                    undecided.append('vacuity: `assert(false)` at the entry of %s VERIFIES - its precondition or the assumptions in scope are contradictory' % c['fn'])
        # census + obligations of this property in this unit
        crate = R.UNITS[uname]['crate']
        failed_obs = {a['ob'] for a in ur.attributed if a['kind'] == 'verification'}
        failed_fns = {a['fn'] for a in ur.attributed}
        for f in ur.report['functions']:
            if prop not in (f.get('props') or []) and prop not in (f.get('implicit') or []):
                continue
            if f.get('dropped'):
                # an anchor of this fn was lost / Verus rejected a construct in it: ITS properties are undecided, the rest of the unit is not
                undecided.append('fn %s is not verifiable as it stands (%s): left with its contract assumed' % (f['key'], f['dropped'].split('\n')[0][:200]))
                seen_fn_keys.add(f['key'])
                continue
            if f.get('assumed_here'):
                continue      # contract assumed in this unit (external_body); its body is verified in another unit of the same property
            if f['key'] in seen_fn_keys:
                continue      # already counted from an earlier unit
            if f.get('kind') == 'lemma':
                jn = R.fn_json_name(crate, f['file'], f['verus_name'])
            else:
                jn = R.fn_json_name(crate, f['file'], f['key'])
            if f.get('kind') == 'trait-contract':
                seen_fn_keys.add(f['key'])
                for c in f['clauses']:
                    if prop == c.split('|')[0].split('.')[0] or prop in c.split('|')[1:]:
                        n_obl += 1
                        if not (c in failed_obs or c.split('|')[0] in failed_obs):
                            n_dis += 1; clauses_all.append(c.split('|')[0])
                continue
            fr = ur.functions.get(jn)
            if f.get('kind') == 'lemma':
                # a lemma directive may hold several proof fns: all of them must have been checked
                mod = jn.rsplit('::', 1)[0]
                parts = [ur.functions.get('%s::%s' % (mod, n)) for n in f.get('proof_fns', [])]
                if parts and all(p is not None for p in parts):
                    fr = {'success': all(p['success'] for p in parts), 'time_us': sum(p['time_us'] for p in parts), 'rlimit': sum(p['rlimit'] for p in parts), 'queries': sum(p['queries'] for p in parts)}
                    jn = mod + '::{' + ','.join(f.get('proof_fns', [])) + '}'
            if fr is None:
                meth = f['key'].split('::')[-1]
                tyname = f['key'].split('::')[0].strip('<>&').split(' ')[0]
                cands = [k for k in ur.functions if k.endswith('::' + meth) and k.split('::')[-2] == tyname]
                if len(cands) == 1:
                    fr = ur.functions[cands[0]]; jn = cands[0]
                elif f['key'].startswith('<'):
                    # impl on a primitive / reference type: Verus names it impl&%N::m; take the anonymous ones of this module in order
                    mod = jn.rsplit('::', 2)[0]
                    anon = sorted([k for k in ur.functions if k.startswith(mod + '::impl&%') and k.endswith('::' + meth)], key=lambda k: int(re.search(r'impl&%(\d+)', k).group(1)))
                    free = [k for k in anon if k not in used_anon]
                    if free:
                        used_anon.add(free[0]); fr = ur.functions[free[0]]; jn = free[0]
            if fr is None:
                undecided.append('census: lifted fn %s was not checked by Verus' % f['key'])
                continue
            my_clauses = [c for c in f['clauses'] if (prop == c.split('|')[0].split('.')[0] or prop in c.split('|')[1:]) and not c.split('|')[0].endswith('.summary')]   # summaries are derived, not counted
            impl_mine = prop in (f.get('implicit') if f.get('implicit') is not None else f.get('props') or [])
            seen_fn_keys.add(f['key'])
            row = {'fn': f['key'], 'file': '%s:%d' % (f['file'], f['line']), 'verus_name': jn, 'rules': f['rules'],
                   'clauses': [c.split('|')[0] for c in my_clauses], 'implicit_obligations': impl_mine,
                   'smt_ms': round(fr['time_us'] / 1000.0, 1), 'rlimit': fr['rlimit'], 'queries': fr['queries']}
            fun_rows.append(row)
            for c in my_clauses:
                cid = c.split('|')[0]
                n_obl += 1
                if c in failed_obs or cid in failed_obs:
                    if cid in open_known: n_obl -= 1      # listed known finding: reported separately
                    continue
                n_dis += 1
                clauses_all.append(cid)
            if impl_mine:
                n_obl += 1
                bad = [a for a in ur.attributed if a['fn'] == f['key'] and (a['ob'] or '').startswith(f['key'] + '#implicit') and prop in a['props']]
                if not bad: n_dis += 1
    # proved lemmas of the spec crate that this property's argument uses
    lemma_rows = []
    for fname, fr in support_res.get('vx_spec', {}).get('functions', {}).items():
        parts = fname.split('::')
        if len(parts) >= 3 and parts[1] in cfg.get('spec_tags', []) and fr.get('mode') == 'proof':
            lemma_rows.append({'lemma': fname, 'smt_ms': round(fr['time_us'] / 1000.0, 1), 'rlimit': fr['rlimit'], 'discharged': bool(fr['success'])})
            n_obl += 1; n_dis += 1 if fr['success'] else 0

    # ---- guards
    spliced_files = []
    for uname, ur in results.items():
        spliced_files += [os.path.join(root, f) for f in ur.linemaps.keys()]
    support_srcs = sorted(glob.glob(os.path.join(VERIF, 'contracts', 'prelude', '*.rs')) + glob.glob(os.path.join(VERIF, 'contracts', 'spec', '*.rs')))
    counts, per_file = assumption_scan(root, spliced_files + support_srcs, support_srcs)
    reviewed_p = os.path.join(VERIF, 'contracts', 'assumptions_reviewed.json')
    reviewed = json.load(open(reviewed_p)) if os.path.exists(reviewed_p) else {}
    key = '+'.join(sorted(results.keys()))
    if reviewed.get(key) is not None and reviewed[key] != counts:
        undecided.append('assumption scan: counts %s differ from the reviewed counts %s (an assumption was added or removed; review contracts/assumptions_reviewed.json)' % (counts, reviewed[key]))
    for uname, ur in results.items():
        bad = R.precheck(REPO_ORIG(), ur.report)
        if bad:
            undecided.append('precheck: unsafe/forget in lifted sources: %s' % bad[:3])

    # ---- bounded stand-ins / extra engines
    bounded_rows = []
    import standins
    for b in cfg.get('bounded', []):
        row = standins.run(b, prop, tier, seed, scratch, root)
        bounded_rows.append(row)
        for v in row.get('violations', []):
            if prop in v.get('props', [prop]):
                if v.get('ob') in open_known:
                    known_hit.append((open_known[v['ob']], v))
                else:
                    violations.append(v)
        if row.get('undecided'):
            undecided.append('bounded stand-in %s: %s' % (b, row['undecided']))

    # ---- known findings: replay witnesses on the real code
    import replay as RP
    kf_lines = []
    seen = set()
    for (kf, a) in known_hit:
        if kf['obligation'] in seen: continue
        seen.add(kf['obligation'])
        rr = RP.run_witness(kf, scratch, root) if kf.get('witness') else {'ran': False}
        kf['replay'] = rr
        if kf.get('witness') and rr.get('ran') and not rr.get('fails'):
            # the obligation fails but the recorded witness no longer does: that is a different violation
            violations.append(a)
        else:
            kf_lines.append('KNOWN-FINDING: property=%s %s [%s]' % (prop, kf['what'], kf['obligation']))

    # the same failure seen in two units of one crate (P / Pc) is one violation
    seen_v = set(); uniq = []
    for v in violations:
        kx = (v.get('ob'), v.get('fn'), v.get('message'))
        if kx in seen_v: continue
        seen_v.add(kx); uniq.append(v)
    violations = uniq
    wall = time.time() - t0
    # ---- verdict
    rc = 0
    vio_paths = []
    if violations:
        rc = 1
        # a failing input found by a bounded stand-in is attached to verifier-reported violations that have none
        with_input = [v for v in violations if v.get('input')]
        if with_input:
            for v in violations:
                if not v.get('input'):
                    w = with_input[0]
                    v['input'] = w['input']; v['replayed'] = w.get('replayed'); v['replay_bin'] = w.get('replay_bin'); v['replay_args'] = w.get('replay_args')
                    v['input_note'] = 'failing input found by the bounded search for this property on the same tree (not produced by the verifier)'
        for n, v in enumerate(violations, 1):
            payload = {'property': prop, 'obligation': v.get('ob'), 'function': v.get('fn'), 'message': v.get('message'), 'where': v.get('where'),
                       'verifier_output': v.get('rendered'), 'failing_input': v.get('input'), 'replayed': v.get('replayed'),
                       'replay_bin': v.get('replay_bin'), 'replay_args': v.get('replay_args'),
                       'note': 'Verus gives no counterexample; the obligation was discharged on the unchanged tree and fails now' if not v.get('input') else 'failing input found by the bounded stand-in and replayed on the real code'}
            pth = write_replay(prop, n, payload)
            vio_paths.append(pth)
            suffix = '' if v.get('input') else ' no-failing-input-found'
            print('VIOLATION property=%s replay=%s%s' % (prop, pth, suffix))
            print('  obligation %s in %s: %s (%s)' % (v.get('ob'), v.get('fn'), v.get('message'), v.get('where')))
    elif undecided:
        rc = 2
        for u in undecided:
            print('UNDECIDED property=%s reason=%s' % (prop, u[:400]))
    for l in kf_lines:
        print(l)
    for a in other_prop_failures[:10]:
        R.log('note: obligation %s (property %s) failed; it is reported by that property\'s check, %s is decided modulo that contract' % (a['ob'], ','.join(a['props']), prop))

    # ---- evidence
    checker_cmds = [ur.cmd.replace(scratch, '$SCRATCH') for ur in results.values()]
    for r in sorted(fun_rows, key=lambda r: -r['smt_ms'])[:4]:
        samples.append({'obligation_group': r['fn'], 'clauses': r['clauses'], 'where': r['file'], 'smt_ms': r['smt_ms']})
    for l in lemma_rows[:3]:
        samples.append({'lemma': l['lemma'], 'smt_ms': l['smt_ms']})
    cov = {
        'obligations': n_obl, 'discharged': n_dis,
        'checker_cmd': ' ; '.join(checker_cmds),
        'trusted_base': P.TRUSTED_COMMON + cfg.get('trusted', []),
        'samples': samples,
        'functions_under_contract': fun_rows,
        'lemmas': lemma_rows,
        'back_end': 'Verus 0.2026.09.13 / Z3 (one SMT query group per function; obligations = named contract clauses + one implicit group per function (callee preconditions, overflow, bounds, unreachable panics) + proved lemmas)',
        'verus_totals': {u: {'verified': ur.verified, 'errors': ur.nerrors, 'wall_s': round(ur.wall, 2)} for u, ur in results.items()},
        'unstable_obligations': {u: getattr(ur, 'unstable', []) for u, ur in results.items()},
        'vacuity_guard': {u: {'canaries': getattr(ur, 'n_canaries', 0), 'verified_although_false': [c['fn'] for c in (getattr(ur, 'vacuous', []) or [])]} for u, ur in results.items()},
        'support_crates': {k: {'verified': v['verified'], 'wall_s': v['wall_s']} for k, v in support_res.items()},
        'bounded_standins': [{k: v for k, v in b.items() if k not in ('violations',)} for b in bounded_rows],
        'assumption_scan': {'counts': counts, 'per_file': per_file},
        'known_findings': [{'obligation': k['obligation'], 'what': k['what'], 'replay': k.get('replay')} for (k, _) in known_hit if k['obligation'] in seen],
        'failures_reported_under_other_properties': [{'obligation': a['ob'], 'props': a['props']} for a in other_prop_failures],
        'undecided': undecided,
        'normalisations': sorted({r for f in fun_rows for r in f['rules']}),
    }
    level = 'proof'
    if cfg.get('category') in ('exploration',):
        # the property is claimed at a BOUNDED level: the record is that of the bounded runs; the discharged obligations are an extra
        level = 'exploration'
        cov['evaluations'] = sum(int(b.get('cases') or 0) for b in bounded_rows)
        cov['distinct_nontrivial'] = sum(int(b.get('distinct_nontrivial') or 0) for b in bounded_rows)
        cov['rule'] = ' || '.join('%s: %s (distinct/non-trivial as counted by the harness: %s)' % (b.get('name'), b.get('bound', ''), b.get('distinct_nontrivial')) for b in bounded_rows)
        cov['samples'] = [{'standin': b.get('name'), 'result': b.get('result'), 'cases': b.get('cases'), 'engine': b.get('engine')} for b in bounded_rows] + samples
        cov['exhaustive'] = False
    elif n_obl == 0 or n_dis == 0:
        level = 'other'; cov['explanation'] = 'no obligation was discharged in this run (undecided)'
    ev = {'property_id': prop, 'tier': tier if tier in ('quick', 'thorough') else 'quick', 'seed': seed, 'level': level, 'coverage': cov,
          'assumptions': P.TRUSTED_COMMON + cfg.get('trusted', []), 'wall_s': round(wall, 2), 'violations': len(violations)}
    os.makedirs(EVIDENCE_DIR(), exist_ok=True)
    json.dump(ev, open(os.path.join(EVIDENCE_DIR(), prop + '.json'), 'w'), indent=1)
    print('%s: %d/%d obligations discharged, %d violation(s), %d known finding(s), %d undecided, %.1fs' % (prop, n_dis, n_obl, len(violations), len(seen), len(undecided), wall))
    return rc


def EVIDENCE_DIR():
    """/verif/evidence for runs against /repo itself; runs pointed at another tree (VERIF_REPO: seeded changes, refactorings) must not
    overwrite the evidence of the repository"""
    return os.path.join(VERIF, 'evidence') if R.REPO == '/repo' else os.path.join(VERIF, 'out', 'evidence-other-tree')


def REPO_ORIG():
    return R.REPO

#!/bin/bash
# usage: SNAP=<snapshot of /verif> SEED_WT=<worktree> seed_sweep.sh <out file> <seeded id> ...
# Regression sweep: every seeded change against the check of ITS OWN property only (exit 1 expected), from a snapshot of the committed
# /verif. Does not touch seeded/<id>/checks.txt.
OUT=$1; shift
SNAP=${SNAP:-/var/tmp/verif-snap}; WT=${SEED_WT:-/tmp/wt-seed}
[ -d $WT ] || git -C /repo worktree add -q --detach $WT HEAD
for ID in "$@"; do
  P=${ID%%-*}
  cd $WT && git checkout -q --detach $(git -C /repo rev-parse HEAD) && git checkout -q -- . && git clean -fdq
  git apply /verif/seeded/$ID/patch.diff || { echo "$ID: patch does not apply" >> $OUT; continue; }
  cd $SNAP; out=$(VERIF_REPO=$WT ./check $P 2>/dev/null); rc=$?
  echo "$ID $P=$rc $(echo "$out" | grep -E '^  obligation' | head -2 | cut -c1-140 | tr '\n' '|')" >> $OUT
done
cd $WT && git checkout -q -- . && git clean -fdq

fn main() { mpd_protocol::vx_conf::main_entry() }

// Bounded conformance harness (DESIGN §9 C03.B): compares the REAL nom parser (`ParsedComponent::parse`, `greeting`)
// with the Verus-verified reference parser on exhaustive small-scope inputs. This file is copied into a pristine
// scratch copy of mpd_protocol as `src/vx_conf.rs` (it needs crate-private access to `parser`); /repo is not touched.
#![allow(missing_docs, dead_code, unreachable_pub, missing_debug_implementations, clippy::all)]
include!(concat!(env!("VX_REFPARSER_DIR"), "/refparser.rs"));

use crate::parser::{ParsedComponent, greeting};
use crate::response::ResponseFieldCache;

fn real_component(i: &[u8], cache: &mut ResponseFieldCache) -> R<RComp> {
    match ParsedComponent::parse(i, cache) {
        Ok((rem, c)) => {
            let used = i.len() - rem.len();
            let c = match c {
                ParsedComponent::EndOfFrame => RComp::EndOfFrame,
                ParsedComponent::EndOfResponse => RComp::EndOfResponse,
                ParsedComponent::Error(e) => RComp::Error {
                    code: e.code, index: e.command_index,
                    command: e.current_command.as_ref().map(|c| c.as_bytes().to_vec()),
                    message: e.message.as_bytes().to_vec(),
                },
                ParsedComponent::Field { key, value } => RComp::Field { key: key.as_bytes().to_vec(), value: value.into_bytes() },
                ParsedComponent::BinaryField { data_length } => RComp::Binary { len: data_length },
            };
            R::Good(c, used)
        }
        Err(e) if e.is_incomplete() => R::Inc,
        Err(_) => R::Bad,
    }
}
fn real_greeting(i: &[u8]) -> R<Vec<u8>> {
    match greeting(i) {
        Ok((rem, v)) => R::Good(v.as_bytes().to_vec(), i.len() - rem.len()),
        Err(e) if e.is_incomplete() => R::Inc,
        Err(_) => R::Bad,
    }
}

pub struct Report { pub cases: u64, pub nontrivial: u64, pub disagreements: Vec<String>, pub panics: Vec<String> }

fn hex(b: &[u8]) -> String { b.iter().map(|x| format!("{:02x}", x)).collect() }
fn tagname<T>(r: &R<T>) -> &'static str { match r { R::Inc => "Inc", R::Bad => "Bad", R::Good(..) => "Good" } }

fn check_one(i: &[u8], cache: &mut ResponseFieldCache, rep: &mut Report) {
    rep.cases += 1;
    let expect = ref_component(i);
    if !matches!(expect, R::Inc) { rep.nontrivial += 1; }
    let got = std::panic::catch_unwind(std::panic::AssertUnwindSafe(|| real_component(i, cache)));
    match got {
        Err(_) => { if rep.panics.len() < 20 { rep.panics.push(format!("component {}", hex(i))); } }
        Ok(g) => if g != expect && rep.disagreements.len() < 20 {
            rep.disagreements.push(format!("component {} ref={} real={} | ref={:?} real={:?}", hex(i), tagname(&expect), tagname(&g), expect, g));
        }
    }
    let expect = ref_greeting(i);
    let got = std::panic::catch_unwind(|| real_greeting(i));
    match got {
        Err(_) => { if rep.panics.len() < 20 { rep.panics.push(format!("greeting {}", hex(i))); } }
        Ok(g) => if g != expect && rep.disagreements.len() < 20 {
            rep.disagreements.push(format!("greeting {} ref={} real={} | ref={:?} real={:?}", hex(i), tagname(&expect), tagname(&g), expect, g));
        }
    }
}

/// the 24-symbol class alphabet (one symbol is the 2-byte UTF-8 sequence of 'é')
const ALPHA: [&[u8]; 24] = [b"O", b"K", b"l", b"i", b"s", b"t", b"_", b"A", b"C", b" ", b"[", b"]", b"@", b"{", b"}", b":", b"b", b"n", b"0", b"9", b"\n", b"-", b"\xc3\xa9", b"\xff"];

fn enum_alpha(prefix: &mut Vec<u8>, depth: usize, max: usize, cache: &mut ResponseFieldCache, rep: &mut Report) {
    check_one(prefix, cache, rep);
    if depth == max { return; }
    for s in ALPHA.iter() {
        let l = prefix.len();
        prefix.extend_from_slice(s);
        enum_alpha(prefix, depth + 1, max, cache, rep);
        prefix.truncate(l);
    }
}
fn enum_bytes(prefix: &mut Vec<u8>, depth: usize, max: usize, cache: &mut ResponseFieldCache, rep: &mut Report) {
    check_one(prefix, cache, rep);
    if depth == max { return; }
    for b in 0..=255u8 {
        prefix.push(b);
        enum_bytes(prefix, depth + 1, max, cache, rep);
        prefix.pop();
    }
}

fn corpus() -> Vec<Vec<u8>> {
    let lines: [&[u8]; 22] = [
        b"OK\n", b"list_OK\n", b"ACK [5@0] {} unknown command \"foo\"\n", b"ACK [50@12] {play} No such song\n",
        b"ACK [18446744073709551615@0] {a_b} x\n", b"ACK [18446744073709551616@0] {a} x\n", b"ACK [2@1] {} \n",
        b"file: a/b c.mp3\n", b"Last-Modified: 2020-01-01T00:00:00Z\n", b"foo_bar: \n", b"X: OK\n", b"binary: 3\nabc\n", b"binary: 0\n\n",
        b"binary: 3\nOK\n\n", b"binary: 18446744073709551616\n", b"binary: 4\nab\n", b"Title: caf\xc3\xa9\n", b"Title: \xff\xfe\n", b"OK MPD 0.23.5\n",
        b"OK MPD \n", b"binary: 00002\nab\n", b"a-b_c: x: y\n",
    ];
    lines.iter().map(|l| l.to_vec()).collect()
}
fn mutate_corpus(cache: &mut ResponseFieldCache, rep: &mut Report) {
    for line in corpus() {
        // every prefix
        for n in 0..=line.len() { check_one(&line[..n], cache, rep); }
        for pos in 0..=line.len() {
            if pos < line.len() {
                let mut d = line.clone(); d.remove(pos); check_one(&d, cache, rep);
                for s in ALPHA.iter() { let mut m = line.clone(); m.splice(pos..pos + 1, s.iter().cloned()); check_one(&m, cache, rep); }
            }
            for s in ALPHA.iter() { let mut m = line.clone(); m.splice(pos..pos, s.iter().cloned()); check_one(&m, cache, rep); }
        }
        // followed by more data (nothing beyond the component may be consumed)
        let mut m = line.clone(); m.extend_from_slice(b"OK\nfoo"); check_one(&m, cache, rep);
    }
}

/// mode: alpha:<maxlen> | bytes:<maxlen> | corpus ; part/parts select the top-level symbols handled by this worker
pub fn run(mode: &str, part: usize, parts: usize) -> Report {
    let mut rep = Report { cases: 0, nontrivial: 0, disagreements: vec![], panics: vec![] };
    let mut cache = ResponseFieldCache::new();
    let (kind, n) = match mode.split_once(':') { Some((k, n)) => (k, n.parse::<usize>().unwrap()), None => (mode, 0) };
    match kind {
        "corpus" => { if part == 0 { mutate_corpus(&mut cache, &mut rep); } }
        "alpha" => {
            if part == 0 { check_one(&[], &mut cache, &mut rep); }
            for (k, s) in ALPHA.iter().enumerate() {
                if k % parts != part { continue; }
                let mut p = s.to_vec();
                if n >= 1 { enum_alpha(&mut p, 1, n, &mut cache, &mut rep); }
            }
        }
        "bytes" => {
            if part == 0 { check_one(&[], &mut cache, &mut rep); }
            for b in 0..=255usize {
                if b % parts != part { continue; }
                let mut p = vec![b as u8];
                if n >= 1 { enum_bytes(&mut p, 1, n, &mut cache, &mut rep); }
            }
        }
        _ => panic!("bad mode"),
    }
    rep
}

pub fn main_entry() {
    let args: Vec<String> = std::env::args().collect();
    let mode = args.get(1).cloned().unwrap_or_else(|| "corpus".into());
    let threads: usize = args.get(2).and_then(|x| x.parse().ok()).unwrap_or(8);
    std::panic::set_hook(Box::new(|_| {}));
    let mut hs = vec![];
    for p in 0..threads {
        let m = mode.clone();
        hs.push(std::thread::spawn(move || run(&m, p, threads)));
    }
    let mut cases = 0; let mut nontrivial = 0; let mut dis = vec![]; let mut pan = vec![];
    for h in hs { let r = h.join().unwrap(); cases += r.cases; nontrivial += r.nontrivial; dis.extend(r.disagreements); pan.extend(r.panics); }
    println!("{{\"mode\":\"{}\",\"cases\":{},\"nontrivial\":{},\"disagreements\":{:?},\"panics\":{:?}}}", mode, cases, nontrivial, dis, pan);
}

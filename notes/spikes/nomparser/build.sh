#!/bin/bash
# usage: build.sh [nom] file.rs
cd /var/tmp/nomspike
if [ "$1" = "nom" ]; then shift
verus --crate-type=lib --edition=2024 --crate-name nom -L dependency=out --extern vx_spec=out/libvx_spec.rlib --import vx_spec=out/vx_spec.vir --compile --export out/vx_nom.vir -o out/libnom.rlib /verif/contracts/prelude/vx_nom.rs 2>&1 | grep -v "^warning\|^$" | grep -A12 "^error\|verification results" | head -40
fi
verus --crate-type=lib --edition=2024 --crate-name p1 -L dependency=out --extern vx_spec=out/libvx_spec.rlib --import vx_spec=out/vx_spec.vir --extern nom=out/libnom.rlib --import nom=out/vx_nom.vir --multiple-errors 5 $1 2>&1 | grep -v "^warning\|^$" | grep -A14 "^error\|verification results" | head -${2:-80}

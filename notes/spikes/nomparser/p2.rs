#![allow(unused)]
use vstd::prelude::*;
use std::str::{self, FromStr, from_utf8};
use nom::{IResult, bytes::streaming::{tag, take, take_until, take_while, take_while1}, character::{is_alphabetic, streaming::{char, digit1, newline}}, combinator::{cut, map_res, opt}, sequence::{delimited, separated_pair, terminated, tuple}};
use nom::*;
use vx_spec::wire::*;
verus! {
global size_of usize == 8;
#[verifier::external_type_specification]
#[verifier::external_body]
pub struct ExUtf8Error(core::str::Utf8Error);

pub assume_specification<'a> [core::str::from_utf8] (b: &'a [u8]) -> (r: Result<&'a str, core::str::Utf8Error>)
    ensures
        vstd::utf8::valid_utf8(b@) ==> (r matches Ok(s) && vstd::utf8::encode_utf8(s@) == b@),
        !vstd::utf8::valid_utf8(b@) ==> r is Err;

pub open spec fn sb(s: Seq<char>) -> Seq<u8> { vstd::utf8::encode_utf8(s) }

/// what the input is: result kinds of a parser against a wire-level PR
pub open spec fn agrees_str<'a>(i: &'a [u8], r: IResult<&'a [u8], &'a str>, p: PR<Seq<u8>>) -> bool {
    match p {
        PR::Good(v, n) => 0 <= n <= i@.len() && (r matches Ok((rem, s)) && rem@ == i@.skip(n) && sb(s@) == v),
        PR::Inc => is_inc(r),
        PR::Bad => is_error(r),
    }
}

pub proof fn lemma_lit_greet()
    ensures sb("OK MPD "@) == t_greet()
{
    reveal_strlit("OK MPD ");
    assert("OK MPD "@ =~= seq!['O','K',' ','M','P','D',' ']);
    assert(vstd::utf8::is_ascii_chars("OK MPD "@));
    vstd::utf8::is_ascii_chars_encode_utf8("OK MPD "@);
    assert(sb("OK MPD "@) =~= t_greet());
}

pub fn greeting<'a>(i: &'a [u8]) -> (r: IResult<&'a [u8], &'a str>)
    ensures agrees_str(i, r, spec_greeting(i@))
{
    proof {
        lemma_lit_greet();
        let s = i@; let f = |b: u8| not_lf(b);
        if let PR::Good(_, a0) = p_tag(s, 0, t_greet()) {
            vx_spec::sub::lemma_run_end_shift(s, a0, f);
            lemma_run_end_props(s, a0, f);
            let x = s.skip(a0);
            assert(run_end(x, 0, f) == vx_spec::sub::shift_o(run_end(s, a0, f), -a0));
            if let Some(e) = run_end(s, a0, f) {
                vx_spec::sub::lemma_sub_shift(s, a0, 0, e - a0);
                vx_spec::sub::lemma_chr_shift(s, e, 0x0A);
                assert(x.skip(e - a0) =~= s.skip(e));
                assert(s.skip(e).skip(1) =~= s.skip(e + 1));
            }
        }
    }
    delimited(
        tag("OK MPD "),
        map_res(take_while1(|c: u8| -> (o: bool) ensures o == (c != 0x0Au8) { c != b'\n' }), from_utf8),
        newline,
    )(i)
}

#[verifier::external_trait_specification]
pub trait ExFromStr: Sized {
    type ExternalTraitSpecificationFor: core::str::FromStr;
    type Err;
    fn from_str(s: &str) -> Result<Self, Self::Err>;
}
/// value that `<O as FromStr>::from_str` yields for this text (None: it fails)
pub uninterp spec fn parse_of<O>(s: Seq<char>) -> Option<O>;
pub assume_specification<O: FromStr> [str::parse::<O>] (s: &str) -> (r: Result<O, <O as FromStr>::Err>)
    ensures match parse_of::<O>(s@) { Some(v) => r == Ok::<O, <O as FromStr>::Err>(v), None => r is Err };
pub open spec fn all_digits(b: Seq<u8>) -> bool { b.len() > 0 && forall|k: int| 0 <= k < b.len() ==> is_digit(#[trigger] b[k]) }
/// ASSUMED about u64::from_str: a non-empty string of ASCII digits parses to its decimal value unless that exceeds u64::MAX
#[verifier::external_body]
pub broadcast proof fn axiom_parse_u64(t: Seq<char>)
    requires all_digits(sb(t))
    ensures #[trigger] parse_of::<u64>(t) == (if dec_val(sb(t), 0, sb(t).len() as int) <= u64::MAX { Some(dec_val(sb(t), 0, sb(t).len() as int) as u64) } else { None })
{}
#[verifier::external_body]
pub broadcast proof fn axiom_parse_usize(t: Seq<char>)
    requires all_digits(sb(t))
    ensures #[trigger] parse_of::<usize>(t) == (if dec_val(sb(t), 0, sb(t).len() as int) <= usize::MAX { Some(dec_val(sb(t), 0, sb(t).len() as int) as usize) } else { None })
{}

pub open spec fn num_post<'a, O>(i: &'a [u8], r: IResult<&'a [u8], O>) -> bool {
    match run_end(i@, 0, |b: u8| is_digit(b)) {
        None => is_inc(r),
        Some(e) => if e == 0 { is_error(r) } else {
            match parse_of::<O>(vstd::utf8::decode_utf8(i@.take(e))) {
                Some(v) => 0 <= e <= i@.len() && (r matches Ok((rem, o)) && rem@ == i@.skip(e) && o == v),
                None => is_error(r),
            }
        },
    }
}

/// Recognize and parse an unsigned ASCII-encoded number
fn number<'a, O: FromStr>(i: &'a [u8]) -> (r: IResult<&'a [u8], O>)
    ensures num_post(i, r)
{
    proof {
        let f = |b: u8| is_digit(b);
        lemma_run_end_props(i@, 0, f);
        if let Some(e) = run_end(i@, 0, f) { if e > 0 {
            let d = i@.take(e);
            lemma_digits_utf8(d);
            assert forall|t: Seq<char>| #[trigger] vstd::utf8::encode_utf8(t) == d implies vstd::utf8::decode_utf8(d) == t by { vstd::utf8::encode_utf8_decode_utf8(t); }
        } }
    }
    map_res(map_res(digit1, from_utf8), str::parse)(i)
}

pub open spec fn ascii_text(b: Seq<u8>) -> Seq<char> { Seq::new(b.len(), |k: int| b[k] as char) }
/// digits are valid UTF-8
pub proof fn lemma_digits_utf8(d: Seq<u8>)
    requires forall|k: int| 0 <= k < d.len() ==> is_digit(#[trigger] d[k])
    ensures vstd::utf8::valid_utf8(d), sb(ascii_text(d)) == d
{
    let t = ascii_text(d);
    assert(vstd::utf8::is_ascii_chars(t)) by { assert forall|k: int| 0 <= k < t.len() implies (#[trigger] t[k] as u32) < 128 by { assert(is_digit(d[k])); } }
    vstd::utf8::is_ascii_chars_encode_utf8(t);
    assert(sb(t) =~= d) by { assert forall|k: int| 0 <= k < d.len() implies sb(t)[k] == d[k] by { assert(is_digit(d[k])); } }
    vstd::utf8::encode_utf8_valid_utf8(t);
}

pub open spec fn agrees_u64<'a>(i: &'a [u8], r: IResult<&'a [u8], u64>, p: PR<nat>) -> bool {
    match p {
        PR::Good(v, n) => 0 <= n <= i@.len() && (r matches Ok((rem, o)) && rem@ == i@.skip(n) && o as nat == v),
        PR::Inc => is_inc(r),
        PR::Bad => is_error(r),
    }
}
pub broadcast proof fn lemma_num_u64<'a>(i: &'a [u8], r: IResult<&'a [u8], u64>)
    requires #[trigger] num_post::<u64>(i, r)
    ensures agrees_u64(i, r, p_number(i@, 0, u64_max()))
{
    broadcast use axiom_parse_u64;
    let f = |b: u8| is_digit(b);
    lemma_run_end_props(i@, 0, f);
    if let Some(e) = run_end(i@, 0, f) { if e > 0 {
        let d = i@.take(e);
        lemma_digits_utf8(d);
        vstd::utf8::encode_utf8_decode_utf8(ascii_text(d));
        assert(all_digits(sb(ascii_text(d))));
        lemma_dec_val_take(i@, e);
    } }
}
pub proof fn lemma_dec_val_take(s: Seq<u8>, e: int)
    requires 0 <= e <= s.len()
    ensures dec_val(s.take(e), 0, e) == dec_val(s, 0, e)
{
    assert(s =~= s.take(e) + s.skip(e));
    lemma_dec_val_ext(s.take(e), s.skip(e), 0, e);
}

pub proof fn lemma_ascii_utf8(d: Seq<u8>)
    requires forall|k: int| 0 <= k < d.len() ==> #[trigger] d[k] < 128
    ensures vstd::utf8::valid_utf8(d), sb(ascii_text(d)) == d
{
    let t = ascii_text(d);
    assert(vstd::utf8::is_ascii_chars(t)) by { assert forall|k: int| 0 <= k < t.len() implies (#[trigger] t[k] as u32) < 128 by { assert(d[k] < 128); } }
    vstd::utf8::is_ascii_chars_encode_utf8(t);
    assert(sb(t) =~= d) by { assert forall|k: int| 0 <= k < d.len() implies sb(t)[k] == d[k] by { assert(d[k] < 128); } }
    vstd::utf8::encode_utf8_valid_utf8(t);
}

pub open spec fn agrees_pair<'a>(i: &'a [u8], r: IResult<&'a [u8], (u64, u64)>, p: PR<(nat, nat)>) -> bool {
    match p {
        PR::Good(v, n) => 0 <= n <= i@.len() && (r matches Ok((rem, o)) && rem@ == i@.skip(n) && o.0 as nat == v.0 && o.1 as nat == v.1),
        PR::Inc => is_inc(r),
        PR::Bad => is_error(r),
    }
}

/// Recognize `[<error code>@<command index>]`.
fn error_code_and_index<'a>(i: &'a [u8]) -> (r: IResult<&'a [u8], (u64, u64)>)
    ensures agrees_pair(i, r, vx_spec::sub::p_code_index(i@))
{
    proof {
        broadcast use lemma_num_u64;
        reveal(vx_spec::sub::p_code_index);
        let x = i@;
        if let PR::Good(_, a1) = p_chr(x, 0, 0x5B) {
            vx_spec::sub::lemma_number_shift(x, a1, u64_max());
            if let PR::Good(code, a2) = p_number(x, a1, u64_max()) {
                lemma_number_bounds(x, a1, u64_max());
                vx_spec::sub::lemma_chr_shift(x, a2, 0x40);
                vx_spec::sub::lemma_sub_shift(x, a1, a2 - a1, a2 - a1);
                if let PR::Good(_, a3) = p_chr(x, a2, 0x40) {
                    vx_spec::sub::lemma_number_shift(x, a3, u64_max());
                    vx_spec::sub::lemma_sub_shift(x, a2, 1, 1);
                    if let PR::Good(index, a4) = p_number(x, a3, u64_max()) {
                        lemma_number_bounds(x, a3, u64_max());
                        vx_spec::sub::lemma_chr_shift(x, a4, 0x5D);
                        vx_spec::sub::lemma_sub_shift(x, a3, a4 - a3, a4 - a3);
                        vx_spec::sub::lemma_sub_shift(x, a4, 1, 1);
                    }
                }
            }
        }
    }
    delimited(
        char('['),
        separated_pair(number, char('@'), number),
        char(']'),
    )(i)
}

pub open spec fn agrees_optstr<'a>(i: &'a [u8], r: IResult<&'a [u8], Option<&'a str>>, p: PR<Option<Seq<u8>>>) -> bool {
    match p {
        PR::Good(v, n) => 0 <= n <= i@.len() && (r matches Ok((rem, o)) && rem@ == i@.skip(n) && match v { None => o is None, Some(w) => o matches Some(t) && sb(t@) == w }),
        PR::Inc => is_inc(r),
        PR::Bad => is_error(r),
    }
}

/// Recognize the current command in an error, `None` if empty.
fn error_current_command<'a>(i: &'a [u8]) -> (r: IResult<&'a [u8], Option<&'a str>>)
    ensures agrees_optstr(i, r, vx_spec::sub::p_cur_command(i@))
{
    proof {
        let x = i@; let f = |b: u8| is_cmd_byte(b);
        reveal(vx_spec::sub::p_cur_command);
        if let PR::Good(_, a1) = p_chr(x, 0, 0x7B) {
            vx_spec::sub::lemma_run_end_shift(x, a1, f);
            lemma_run_end_props(x, a1, f);
            if let Some(ce) = run_end(x, a1, f) {
                vx_spec::sub::lemma_chr_shift(x, ce, 0x7D);
                vx_spec::sub::lemma_sub_shift(x, a1, 0, ce - a1);
                vx_spec::sub::lemma_sub_shift(x, a1, ce - a1, ce - a1);
                vx_spec::sub::lemma_sub_shift(x, ce, 1, 1);
                let w = x.subrange(a1, ce);
                assert forall|k: int| 0 <= k < w.len() implies #[trigger] w[k] < 128 by { assert(is_cmd_byte(x[a1 + k])); }
                lemma_ascii_utf8(w);
                assert(x.skip(a1).take(ce - a1) =~= w);
            }
        }
    }
    delimited(
        char('{'),
        opt(map_res(
            take_while1(|b: u8| -> (o: bool) ensures o == is_cmd_byte(b) { is_alphabetic(b) || b == b'_' }),
            from_utf8,
        )),
        char('}'),
    )(i)
}

pub open spec fn agrees_bytes<'a>(i: &'a [u8], r: IResult<&'a [u8], &'a [u8]>, p: PR<Seq<u8>>) -> bool {
    match p {
        PR::Good(v, n) => 0 <= n <= i@.len() && (r matches Ok((rem, o)) && rem@ == i@.skip(n) && o@ == v),
        PR::Inc => is_inc(r),
        PR::Bad => is_error(r),
    }
}

fn field_value<'a>(i: &'a [u8]) -> (r: IResult<&'a [u8], &'a [u8]>)
    ensures agrees_bytes(i, r, vx_spec::sub::p_value(i@))
{
    proof { reveal_strlit("\n"); assert("\n"@ =~= seq!['\n']); assert(vstd::utf8::is_ascii_chars("\n"@)); vstd::utf8::is_ascii_chars_encode_utf8("\n"@); assert(sb("\n"@) =~= seq![0x0Au8]);
        let f1 = |b: u8| b != sb("\n"@)[0]; let f2 = |b: u8| not_lf(b);
        lemma_run_end_props(i@, 0, f1); lemma_run_end_props(i@, 0, f2);
        vx_spec::sub::lemma_run_end_same(i@, 0, f1, f2);
        if let Some(e) = run_end(i@, 0, f2) { assert(i@.skip(e).skip(1) =~= i@.skip(e + 1)); assert(i@.take(e) =~= i@.subrange(0, e)); }
    }
    let (i, value) = take_until("\n")(i)?;
    Ok((&i[1..], value))
}

pub open spec fn agrees_kv<'a>(i: &'a [u8], r: IResult<&'a [u8], (&'a str, &'a str)>, p: PR<Comp>) -> bool {
    match p {
        PR::Good(c, n) => 0 <= n <= i@.len() && (r matches Ok((rem, o)) && rem@ == i@.skip(n) && c == Comp::Field(sb(o.0@), sb(o.1@))),
        PR::Inc => is_inc(r),
        PR::Bad => is_error(r),
    }
}
pub proof fn lemma_lit_colon_sp()
    ensures sb(": "@) == t_colon_sp()
{
    reveal_strlit(": "); assert(": "@ =~= seq![':', ' ']); assert(vstd::utf8::is_ascii_chars(": "@)); vstd::utf8::is_ascii_chars_encode_utf8(": "@); assert(sb(": "@) =~= t_colon_sp());
}

/// Recognize a single key-value pair
fn key_value_field<'a>(i: &'a [u8]) -> (r: IResult<&'a [u8], (&'a str, &'a str)>)
    ensures agrees_kv(i, r, p_field(i@))
{
    proof {
        lemma_lit_colon_sp();
        let x = i@; let f = |b: u8| is_key_byte(b); let g = |b: u8| not_lf(b);
        lemma_run_end_props(x, 0, f);
        assert(x.skip(0) =~= x);
        if let Some(ke) = run_end(x, 0, f) { if ke > 0 {
            let k = x.subrange(0, ke);
            assert forall|j: int| 0 <= j < k.len() implies #[trigger] k[j] < 128 by { assert(is_key_byte(x[j])); }
            lemma_ascii_utf8(k);
            assert(x.take(ke) =~= k);
            vx_spec::sub::lemma_tag_shift(x, ke, t_colon_sp());
            if let PR::Good(_, a1) = p_tag(x, ke, t_colon_sp()) {
                vx_spec::sub::lemma_sub_shift(x, ke, a1 - ke, a1 - ke);
                vx_spec::sub::lemma_run_end_shift(x, a1, g);
                lemma_run_end_props(x, a1, g);
                if let Some(ve) = run_end(x, a1, g) {
                    vx_spec::sub::lemma_sub_shift(x, a1, 0, ve - a1);
                    vx_spec::sub::lemma_sub_shift(x, a1, ve - a1 + 1, ve - a1 + 1);
                }
            }
        } }
    }
    separated_pair(
        map_res(
            take_while1(|b: u8| -> (o: bool) ensures o == is_key_byte(b) { is_alphabetic(b) || b == b'_' || b == b'-' }),
            from_utf8,
        ),
        tag(": "),
        map_res(field_value, from_utf8),
    )(i)
}

pub open spec fn agrees_usize<'a>(i: &'a [u8], r: IResult<&'a [u8], usize>, p: PR<nat>) -> bool {
    match p {
        PR::Good(v, n) => 0 <= n <= i@.len() && (r matches Ok((rem, o)) && rem@ == i@.skip(n) && o as nat == v),
        PR::Inc => is_inc(r),
        PR::Bad => is_error(r),
    }
}
pub broadcast proof fn lemma_num_usize<'a>(i: &'a [u8], r: IResult<&'a [u8], usize>)
    requires #[trigger] num_post::<usize>(i, r)
    ensures agrees_usize(i, r, p_number(i@, 0, u64_max()))
{
    broadcast use axiom_parse_usize;
    let f = |b: u8| is_digit(b);
    lemma_run_end_props(i@, 0, f);
    if let Some(e) = run_end(i@, 0, f) { if e > 0 {
        let d = i@.take(e);
        lemma_digits_utf8(d);
        vstd::utf8::encode_utf8_decode_utf8(ascii_text(d));
        assert(all_digits(sb(ascii_text(d))));
        lemma_dec_val_take(i@, e);
    } }
}
pub proof fn lemma_lit_binary()
    ensures sb("binary: "@) == t_binary()
{
    reveal_strlit("binary: "); assert("binary: "@ =~= seq!['b','i','n','a','r','y',':',' ']); assert(vstd::utf8::is_ascii_chars("binary: "@)); vstd::utf8::is_ascii_chars_encode_utf8("binary: "@); assert(sb("binary: "@) =~= t_binary());
}

/// Recognize the header of a binary section
fn binary_prefix<'a>(i: &'a [u8]) -> (r: IResult<&'a [u8], usize>)
    ensures agrees_usize(i, r, vx_spec::sub::p_binary_prefix(i@))
{
    proof {
        broadcast use lemma_num_usize;
        lemma_lit_binary();
        let x = i@;
        if let PR::Good(_, a0) = p_tag(x, 0, t_binary()) {
            vx_spec::sub::lemma_number_shift(x, a0, u64_max());
            if let PR::Good(len, a1) = p_number(x, a0, u64_max()) {
                lemma_number_bounds(x, a0, u64_max());
                vx_spec::sub::lemma_chr_shift(x, a1, 0x0A);
                vx_spec::sub::lemma_sub_shift(x, a0, a1 - a0, a1 - a0);
                vx_spec::sub::lemma_sub_shift(x, a1, 1, 1);
            }
        }
    }
    delimited(tag("binary: "), number, newline)(i)
}

pub open spec fn agrees_bin<'a>(i: &'a [u8], r: IResult<&'a [u8], &'a [u8]>, p: BR) -> bool {
    match p {
        BR::Good(l, n) => 0 <= n <= i@.len() && (r matches Ok((rem, o)) && rem@ == i@.skip(n) && o@.len() == l),
        BR::Inc => is_inc(r),
        BR::Bad => is_error(r),
        BR::Fail => is_failure(r),
    }
}

/// Recognize a binary field
fn binary_field<'a>(i: &'a [u8]) -> (r: IResult<&'a [u8], &'a [u8]>)
    ensures agrees_bin(i, r, p_binary(i@))
{
    let ghost i0 = i;
    let (i, length) = binary_prefix(i)?;
    proof {
        let x = i0@;
        if let PR::Good(len, a2) = vx_spec::sub::p_binary_prefix(x) {
            if a2 + len <= x.len() {
                vx_spec::sub::lemma_chr_shift(x, a2 + len, 0x0A);
                vx_spec::sub::lemma_sub_shift(x, a2, len as int, len as int);
                if a2 + len + 1 <= x.len() { vx_spec::sub::lemma_sub_shift(x, a2 + len, 1, 1); }
            }
        }
    }
    cut(terminated(take(length), newline))(i)
}

struct RawError<'raw> {
    code: u64,
    command_index: u64,
    current_command: Option<&'raw str>,
    message: &'raw str,
}
spec fn raw_view(e: RawError) -> ErrV {
    ErrV { code: e.code as nat, index: e.command_index as nat, command: match e.current_command { Some(c) => Some(sb(c@)), None => None }, message: sb(e.message@) }
}
spec fn agrees_raw<'a>(i: &'a [u8], r: IResult<&'a [u8], RawError<'a>>, p: PR<Comp>) -> bool {
    match p {
        PR::Good(c, n) => 0 <= n <= i@.len() && (r matches Ok((rem, o)) && rem@ == i@.skip(n) && c == Comp::Error(raw_view(o))),
        PR::Inc => is_inc(r),
        PR::Bad => is_error(r),
    }
}
pub proof fn lemma_lit_ack()
    ensures sb("ACK "@) == t_ack()
{
    reveal_strlit("ACK "); assert("ACK "@ =~= seq!['A','C','K',' ']); assert(vstd::utf8::is_ascii_chars("ACK "@)); vstd::utf8::is_ascii_chars_encode_utf8("ACK "@); assert(sb("ACK "@) =~= t_ack());
}

/// Parse an error response.
fn error<'a>(i: &'a [u8]) -> (r: IResult<&'a [u8], RawError<'a>>)
    ensures agrees_raw(i, r, p_error(i@))
{
    proof {
        lemma_lit_ack();
        let x = i@; let fm = |b: u8| not_lf(b);
        vx_spec::sub::lemma_error_l(x);
        reveal(vx_spec::sub::p_message_at);
        if let PR::Good(_, a0) = p_tag(x, 0, t_ack()) { let x1 = x.skip(a0);
            vx_spec::sub::lemma_code_index_bounds(x1);
            if let PR::Good(ci, b1) = vx_spec::sub::p_code_index(x1) {
                if let PR::Good(_, b2) = p_chr(x1, b1, 0x20) { let x2 = x1.skip(b2);
                    assert(x1.skip(b1).skip(1) =~= x2);
                    vx_spec::sub::lemma_cur_command_bounds(x2);
                    if let PR::Good(command, c1) = vx_spec::sub::p_cur_command(x2) {
                        if let PR::Good(_, c2) = p_chr(x2, c1, 0x20) { let x3 = x2.skip(c2);
                            assert(x2.skip(c1).skip(1) =~= x3);
                            lemma_run_end_props(x3, 0, fm);
                            if let Some(me) = run_end(x3, 0, fm) {
                                assert(x3.take(me) =~= x3.subrange(0, me));
                                assert(x3.skip(me).skip(1) =~= x3.skip(me + 1));
                                assert(x1.skip(b2).skip(c2).skip(me + 1) =~= x1.skip(b2 + c2 + me + 1));
                                assert(x.skip(a0).skip(b2 + c2 + me + 1) =~= x.skip(a0 + b2 + c2 + me + 1));
                            }
                        }
                    }
                }
            }
        }
    }
    let (remaining, ((code, index), command, message)) = delimited(
        tag("ACK "),
        tuple((
            terminated(error_code_and_index, char(' ')),
            terminated(error_current_command, char(' ')),
            map_res(take_while(|b: u8| -> (o: bool) ensures o == (b != 0x0Au8) { b != b'\n' }), from_utf8),
        )),
        newline,
    )(i)?;

    Ok((
        remaining,
        RawError {
            code,
            message,
            command_index: index,
            current_command: command,
        },
    ))
}
}

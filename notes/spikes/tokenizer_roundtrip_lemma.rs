use vstd::prelude::*;
verus! {
// ---- spec port of MPD Tokenizer (char-level model) ----
pub open spec fn is_ws(c: char) -> bool { (c as u32) <= 0x20 }          // IsWhitespaceOrNull / IsWhitespaceFast
pub open spec fn special(c: char) -> bool { c == '\\' || c == '"' || c == '\'' }

/// the code's escaping of the argument body (front-recursive form)
pub open spec fn esc(a: Seq<char>) -> Seq<char>
    decreases a.len()
{
    if a.len() == 0 { seq![] }
    else if special(a[0]) { seq!['\\', a[0]] + esc(a.skip(1)) }
    else { seq![a[0]] + esc(a.skip(1)) }
}

pub enum Scan { Unterminated, Closed(Seq<char>, int) }   // Closed(decoded, index of the closing quote)

/// Tokenizer::NextString body: scan from index i (just after the opening quote), accumulating into acc
pub open spec fn scan(s: Seq<char>, i: int, acc: Seq<char>) -> Scan
    decreases s.len() - i
{
    if i < 0 || i >= s.len() { Scan::Unterminated }
    else if s[i] == '"' { Scan::Closed(acc, i) }
    else if s[i] == '\\' {
        if i + 1 >= s.len() { Scan::Unterminated } else { scan(s, i + 2, acc.push(s[i + 1])) }
    } else { scan(s, i + 1, acc.push(s[i])) }
}

/// Round trip for the quoted form: scanning  pre + esc(a) + ['"'] + post  from |pre| decodes exactly a
pub proof fn lemma_scan_esc(pre: Seq<char>, a: Seq<char>, post: Seq<char>, acc: Seq<char>)
    ensures scan(pre + esc(a) + seq!['"'] + post, pre.len() as int, acc)
            == Scan::Closed(acc + a, (pre.len() + esc(a).len()) as int)
    decreases a.len()
{
    let s = pre + esc(a) + seq!['"'] + post;
    let i = pre.len() as int;
    if a.len() == 0 {
        assert(esc(a) =~= seq![]);
        assert(s[i] == '"');
        assert(acc + a =~= acc);
    } else {
        let c = a[0];
        let rest = a.skip(1);
        if special(c) {
            assert(esc(a) =~= seq!['\\', c] + esc(rest));
            let pre2 = pre + seq!['\\', c];
            assert(s =~= pre2 + esc(rest) + seq!['"'] + post);
            assert(s[i] == '\\');
            assert(s[i + 1] == c);
            lemma_scan_esc(pre2, rest, post, acc.push(c));
            assert(acc.push(c) + rest =~= acc + a);
        } else {
            assert(esc(a) =~= seq![c] + esc(rest));
            let pre2 = pre + seq![c];
            assert(s =~= pre2 + esc(rest) + seq!['"'] + post);
            assert(s[i] == c);
            lemma_scan_esc(pre2, rest, post, acc.push(c));
            assert(acc.push(c) + rest =~= acc + a);
        }
    }
}
}
fn main() {}

use vstd::prelude::*;
use std::borrow::Cow;
verus! {
pub uninterp spec fn pat_chars<P>(p: P) -> Set<char>;
pub assume_specification<P: std::str::pattern::Pattern> [str::contains] (s: &str, p: P) -> (r: bool)
    ensures r == exists|i: int| 0 <= i < s@.len() && pat_chars(p).contains(#[trigger] s@[i]);
pub assume_specification [std::string::String::with_capacity] (n: usize) -> (r: std::string::String)
    ensures r@ == Seq::<char>::empty();
pub fn esc(argument: &str) -> (r: Cow<'_, str>)
{
    let needs_quotes = argument.contains(&[' ', '\t'][..]);
    if !needs_quotes {
        Cow::Borrowed(argument)
    } else {
        let mut out = String::with_capacity(argument.len());
        out.push('"');
        Cow::Owned(out)
    }
}
}
fn main() {}

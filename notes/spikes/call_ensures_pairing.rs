use vstd::prelude::*;
use vstd::std_specs::iter::IteratorSpec;
verus! {
pub struct Frame { pub x: u32 }
#[derive(Debug)]
pub struct TErr;
pub trait Command {
    type Response;
    fn response(self, frame: Frame) -> Result<Self::Response, TErr>;
}
pub trait CommandList { type Response; fn responses(self, frames: Vec<Frame>) -> Result<Self::Response, TErr>; }

impl<A: Command, B: Command> CommandList for (A, B) {
    type Response = (A::Response, B::Response);
    fn responses(self, frames: Vec<Frame>) -> (r: Result<Self::Response, TErr>)
        ensures
            r is Ok ==> frames@.len() >= 2
              && call_ensures(A::response, (self.0, frames@[0]), Ok::<A::Response, TErr>(r.unwrap().0))
              && call_ensures(B::response, (self.1, frames@[1]), Ok::<B::Response, TErr>(r.unwrap().1)),
    {
        let mut frames = frames.into_iter();
        let f0 = match frames.next() { Some(f) => f, None => return Err(TErr) };
        let f1 = match frames.next() { Some(f) => f, None => return Err(TErr) };
        Ok((
            self.0.response(f1)?,
            self.1.response(f0)?,
        ))
    }
}
}
fn main() {}

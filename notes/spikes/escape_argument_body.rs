use vstd::prelude::*;
use std::borrow::Cow;
use vstd::std_specs::iter::IteratorSpec;
verus! {
pub open spec fn special(c: char) -> bool { c == '\\' || c == '"' || c == '\'' }
pub open spec fn esc(a: Seq<char>) -> Seq<char>
    decreases a.len()
{ if a.len() == 0 { seq![] } else if special(a[0]) { seq!['\\', a[0]] + esc(a.skip(1)) } else { seq![a[0]] + esc(a.skip(1)) } }
pub open spec fn needs_quotes(a: Seq<char>) -> bool { exists|i: int| 0 <= i < a.len() && (#[trigger] a[i] == ' ' || a[i] == '\t') }
pub open spec fn render(a: Seq<char>) -> Seq<char> { if needs_quotes(a) { seq!['"'] + esc(a) + seq!['"'] } else { esc(a) } }
pub open spec fn esc_back(s: Seq<char>) -> Seq<char>
    decreases s.len()
{ if s.len() == 0 { seq![] } else { let p = esc_back(s.drop_last()); if special(s.last()) { p.push('\\').push(s.last()) } else { p.push(s.last()) } } }

// assumed std contracts
pub uninterp spec fn pat_chars<P>(p: P) -> Set<char>;
pub broadcast axiom fn pat_chars_slice(p: &[char]) ensures #[trigger] pat_chars::<&[char]>(p) == p@.to_set();
pub assume_specification<P: std::str::pattern::Pattern> [str::contains] (s: &str, p: P) -> (r: bool)
    ensures r == exists|i: int| 0 <= i < s@.len() && pat_chars(p).contains(#[trigger] s@[i]);
pub assume_specification [std::string::String::with_capacity] (n: usize) -> (r: std::string::String)
    ensures r@ == Seq::<char>::empty();

fn should_escape(c: char) -> (r: bool) ensures r == special(c) { c == '\\' || c == '"' || c == '\'' }

pub fn escape_argument(argument: &str) -> (r: Cow<'_, str>)
{
    let needs_quotes = argument.contains(&[' ', '\t'][..]);
    let escape_count = argument.chars().filter(|c| should_escape(*c)).count();

    if escape_count == 0 && !needs_quotes {
        Cow::Borrowed(argument)
    } else {
        let len = argument.len() + escape_count + if needs_quotes { 2 } else { 0 };
        let mut out = String::with_capacity(len);

        if needs_quotes {
            out.push('"');
        }

        for c in argument.chars() {
            if should_escape(c) {
                out.push('\\');
            }

            out.push(c);
        }

        if needs_quotes {
            out.push('"');
        }

        Cow::Owned(out)
    }
}
}
fn main() {}

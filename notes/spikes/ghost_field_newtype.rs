use vstd::prelude::*;
verus!{
pub struct GhostLog(pub Ghost<Seq<u8>>);
impl std::fmt::Debug for GhostLog { #[verifier::external_body] fn fmt(&self, f: &mut std::fmt::Formatter<'_>) -> std::fmt::Result { Ok(()) } }
#[derive(Debug)]
pub struct Conn<IO> { io: IO, total: usize, buf: Vec<u8>, rx: GhostLog }
impl<IO> Conn<IO> {
    pub closed spec fn log(&self) -> Seq<u8> { self.rx.0@ }
    pub fn new(io: IO) -> (r: Self) ensures r.log() == Seq::<u8>::empty() {
        Conn { io, total: 0, buf: Vec::new(), rx: GhostLog(Ghost(Seq::empty())) }
    }
    pub fn push(&mut self, b: u8) ensures final(self).log() == old(self).log().push(b) {
        self.buf.push(b);
        proof { self.rx.0@ = self.rx.0@.push(b); }
    }
}
}
fn main() {}

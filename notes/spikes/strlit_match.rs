use vstd::prelude::*;
verus! {
pub open spec fn conv(v: Seq<char>) -> Option<bool> {
    if v == "0"@ { Some(false) } else if v == "1"@ { Some(true) } else { None }
}
fn from_value(v: String) -> (r: Result<bool, ()>)
    ensures match conv(v@) { Some(x) => r == Ok::<bool, ()>(x), None => r is Err }
{
    proof { reveal_strlit("0"); reveal_strlit("1"); }
    match &*v {
        "0" => Ok(false),
        "1" => Ok(true),
        _ => Err(()),
    }
}
fn from_value2(v: String) -> (r: Result<bool, ()>)
    ensures match conv(v@) { Some(x) => r == Ok::<bool, ()>(x), None => r is Err }
{
    proof { reveal_strlit("0"); reveal_strlit("1"); }
    let s: &str = &*v;
    if s == "0" { Ok(false) } else if s == "1" { Ok(true) } else { Err(()) }
}
}
fn main() {}

use vstd::prelude::*;
use vstd::std_specs::cmp::PartialEqSpec;
verus!{
#[derive(PartialEq, Eq)]
pub struct F { pub v: Vec<u8>, pub s: String }
#[derive(PartialEq, Eq)]
pub enum St { Initial, InProgress { current: F }, List { current: F, done: Vec<F> } }
impl vstd::std_specs::cmp::PartialEqSpecImpl for St {
    open spec fn obeys_eq_spec() -> bool { true }
    open spec fn eq_spec(&self, other: &St) -> bool { (*other is Initial) ==> (*self is Initial) }
}
fn prog(s: &St) -> (r: bool)
    ensures r == !(*s is Initial)
{
    *s != St::Initial
}
}
fn main() {}

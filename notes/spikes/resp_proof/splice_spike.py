#!/usr/bin/env python3
# SPIKE ONLY (design-phase feasibility): hand-driven splice of mpd_protocol response builder + contracts.
import re, sys, shutil
S = sys.argv[1]  # scratch repo root
R = '/repo'
def rd(p): return open(f'{R}/{p}').read()
def wr(p, s): open(f'{S}/{p}', 'w').write(s)
def wrap(s, a, b):
    i = s.index(a); j = s.index(b, i) + len(b)
    return s[:i] + "verus!{\n" + s[i:j] + "\n}\n" + s[j:]
def strip_tracing(body):
    body = re.sub(r'\n\s*#\[tracing::instrument[^\]]*\]', '', body)
    out = []; i = 0
    pat = re.compile(r'\b(trace|debug|info|error|warn)!\(')
    while True:
        m = pat.search(body, i)
        if not m: out.append(body[i:]); break
        out.append(body[i:m.start()]); j = m.end(); d = 1
        while d > 0:
            c = body[j]; d += (c == '(') - (c == ')'); j += 1
        if body[j] == ';': j += 1
        i = j
    return ''.join(out)

# ---------------- lib.rs
s = rd('mpd_protocol/src/lib.rs').replace("#![forbid(unsafe_code)]", "")
s = s.replace("pub mod command;", "#[allow(unused_imports)]\nuse vstd::prelude::*;\n#[allow(missing_docs)] pub mod vx_prelude;\n#[allow(missing_docs)] pub mod vx_wire;\npub mod command;", 1)
s = wrap(s, "/// Unrecoverable errors.\n#[derive(Debug)]\npub enum MpdProtocolError {", "    InvalidMessage,\n}")
wr('mpd_protocol/src/lib.rs', s)
shutil.copy('/verif/notes/spikes/resp_proof/vx_wire.rs', f'{S}/mpd_protocol/src/vx_wire.rs')
shutil.copy('/verif/notes/spikes/resp_proof/vx_prelude.rs', f'{S}/mpd_protocol/src/vx_prelude.rs')

# ---------------- frame.rs
s = rd('mpd_protocol/src/response/frame.rs')
s = s.replace("use bytes::BytesMut;", "use bytes::BytesMut;\nuse vstd::prelude::*;\nuse crate::vx_prelude::*;\nuse crate::vx_wire::*;")
s = wrap(s, "#[derive(Clone, PartialEq, Eq)]\npub struct Frame {", "    pub(super) binary: Option<BytesMut>,\n}")
s = wrap(s, "#[derive(Clone, PartialEq, Eq)]\npub(super) struct FieldsContainer(", "String)>>);")
s = s.replace("""impl Frame {
    /// Create an empty frame (0 key-value pairs).
    pub(crate) fn empty() -> Self {
        Self {
            fields: FieldsContainer(Vec::new()),
            binary: None,
        }
    }
""", """verus!{
pub open spec fn fields_view(s: Seq<Option<(Arc<str>, String)>>) -> Seq<(Seq<char>, Seq<char>)>
    decreases s.len()
{
    if s.len() == 0 { seq![] } else {
        let p = fields_view(s.drop_last());
        match s.last() { Some(kv) => p.push((arc_str_view(kv.0), kv.1@)), None => p }
    }
}
pub proof fn lemma_fields_view_push(s: Seq<Option<(Arc<str>, String)>>, k: Arc<str>, v: String)
    ensures fields_view(s.push(Some((k, v)))) == fields_view(s).push((arc_str_view(k), v@))
{
    assert(s.push(Some((k, v))).drop_last() == s);
}
impl Frame {
    pub open(super) spec fn view(&self) -> FrameV {
        FrameV { fields: self.fields.fv(), binary: match self.binary { Some(b) => Some(bm_view(&b)), None => None } }
    }
    /// Create an empty frame (0 key-value pairs).
    pub(crate) fn empty() -> (r: Self)
        ensures r@ == empty_frame()
    {
        Self {
            fields: FieldsContainer(Vec::new()),
            binary: None,
        }
    }
}
impl FieldsContainer {
    pub(super) closed spec fn fv(&self) -> Seq<(Seq<char>, Seq<char>)> { fields_view(self.0@) }

    pub(super) fn push_field(&mut self, key: Arc<str>, value: String)
        ensures final(self).fv() == old(self).fv().push((arc_str_view(key), value@))
    {
        proof { lemma_fields_view_push(self.0@, key, value); }
        self.0.push(Some((key, value)));
    }
}
}
impl Frame {
""")
s = s.replace("""impl FieldsContainer {
    pub(super) fn push_field(&mut self, key: Arc<str>, value: String) {
        self.0.push(Some((key, value)));
    }
}

/// Iterator returned""", """/// Iterator returned""")
wr('mpd_protocol/src/response/frame.rs', s)

# ---------------- parser.rs : ParsedComponent lifted; parse gets the assumed contract == spec_component
s = rd('mpd_protocol/src/parser.rs')
s = s.replace("use crate::response::{Error, ResponseFieldCache};", "use crate::response::{Error, ResponseFieldCache};\nuse vstd::prelude::*;\nuse crate::vx_prelude::*;\nuse crate::vx_wire::*;")
s = wrap(s, "#[derive(Debug, PartialEq, Eq)]\npub(crate) enum ParsedComponent {", "    BinaryField { data_length: usize },\n}")
s = s.replace("impl ParsedComponent {\n    pub(crate) fn parse<'i>(", """verus!{
#[verifier::external_type_specification]
#[verifier::external_body]
#[verifier::reject_recursive_types(I)]
pub struct ExNomErr<I>(nom::Err<I>);
#[verifier::external_type_specification]
#[verifier::external_body]
#[verifier::reject_recursive_types(I)]
pub struct ExNomError<I>(nom::error::Error<I>);

pub uninterp spec fn nom_incomplete<E>(e: &nom::Err<E>) -> bool;
pub assume_specification<E> [nom::Err::<E>::is_incomplete] (e: &nom::Err<E>) -> (r: bool)
    ensures r == nom_incomplete(e);

pub(crate) open spec fn comp_view(c: ParsedComponent) -> CompV {
    match c {
        ParsedComponent::EndOfFrame => CompV::EndOfFrame,
        ParsedComponent::EndOfResponse => CompV::EndOfResponse,
        ParsedComponent::Error(e) => CompV::Error(e@),
        ParsedComponent::Field { key, value } => CompV::Field(arc_str_view(key), value@),
        ParsedComponent::BinaryField { data_length } => CompV::Binary(data_length as nat),
    }
}

/// ASSUMED contract of the nom parser (bounded conformance check stands in): result == spec_component(input)
pub assume_specification<'i> [ParsedComponent::parse] (i: &'i [u8], field_cache: &mut ResponseFieldCache) -> (r: IResult<&'i [u8], ParsedComponent>)
    ensures
        match spec_component(i@) {
            PR::Good(c, used) => r matches Ok((rem, comp)) && rem@ == i@.subrange(used, i@.len() as int) && comp_view(comp) == c,
            PR::Inc => r matches Err(e) && nom_incomplete(&e),
            PR::Bad => r matches Err(e) && !nom_incomplete(&e),
        };
}
impl ParsedComponent {
    pub(crate) fn parse<'i>(""")
wr('mpd_protocol/src/parser.rs', s)

# ---------------- response/mod.rs
s = rd('mpd_protocol/src/response/mod.rs')
s = s.replace("use crate::{MpdProtocolError, parser::ParsedComponent};", "use crate::{MpdProtocolError, parser::{ParsedComponent, comp_view, nom_incomplete}};\nuse vstd::prelude::*;\nuse crate::vx_prelude::*;\nuse crate::vx_wire::*;")
s = wrap(s, "#[derive(Clone, PartialEq, Eq)]\npub struct Response {", "    error: Option<Error>,\n}")
s = wrap(s, "#[derive(Debug)]\npub(crate) struct ResponseBuilder<'a> {", "    },\n}")
s = wrap(s, "/// A response to a command indicating an error.\n#[derive(Clone, Debug, Default, PartialEq, Eq)]\npub struct Error {", "    pub message: Box<str>,\n}")
s = s.replace("""/// A cache for field names used in responses.
#[derive(Clone, Debug)]
pub(crate) struct ResponseFieldCache(""", """verus!{
#[verifier::external_type_specification]
#[verifier::external_body]
pub(crate) struct ExResponseFieldCache(ResponseFieldCache);

impl Error {
    pub open spec fn view(&self) -> ErrorV {
        ErrorV { code: self.code, idx: self.command_index,
                 cmd: match self.current_command { Some(c) => Some(box_str_view(c)), None => None },
                 msg: box_str_view(self.message) }
    }
}
pub open spec fn frames_view(s: Seq<Frame>) -> Seq<FrameV> { Seq::new(s.len(), |i: int| s[i]@) }
pub broadcast proof fn lemma_frames_view_push(s: Seq<Frame>, f: Frame)
    ensures #[trigger] frames_view(s.push(f)) == frames_view(s).push(f@)
{ assert(frames_view(s.push(f)) =~= frames_view(s).push(f@)); }
pub broadcast proof fn lemma_frames_view_one(f: Frame)
    ensures #[trigger] frames_view(seq![f]) == seq![f@]
{ assert(frames_view(seq![f]) =~= seq![f@]); }
pub broadcast proof fn lemma_frames_view_empty()
    ensures #[trigger] frames_view(Seq::<Frame>::empty()) == Seq::<FrameV>::empty()
{ assert(frames_view(Seq::<Frame>::empty()) =~= Seq::<FrameV>::empty()); }
pub broadcast group group_frames_view { lemma_frames_view_push, lemma_frames_view_one, lemma_frames_view_empty }

impl Response {
    pub closed spec fn view(&self) -> RespV {
        RespV { frames: frames_view(self.frames@), error: match self.error { Some(e) => Some(e@), None => None } }
    }
}
/// assumed contract of the compiler-derived PartialEq (structural); only the comparison with the field-less variant is interpreted
uninterp spec fn rs_eq_other(a: &ResponseState, b: &ResponseState) -> bool;
impl vstd::std_specs::cmp::PartialEqSpecImpl for ResponseState {
    open spec fn obeys_eq_spec() -> bool { true }
    closed spec fn eq_spec(&self, other: &ResponseState) -> bool {
        if *other is Initial { *self is Initial } else if *self is Initial { false } else { rs_eq_other(self, other) }
    }
}
impl ResponseState {
    spec fn view(&self) -> StateV {
        match *self {
            ResponseState::Initial => StateV::Initial,
            ResponseState::InProgress { current } => StateV::InProgress(current@),
            ResponseState::ListInProgress { current, completed_frames } => StateV::List(current@, frames_view(completed_frames@)),
        }
    }
}
}
/// A cache for field names used in responses.
#[derive(Clone, Debug)]
pub(crate) struct ResponseFieldCache(""")
s = s.replace("""impl Response {
    /// Construct a new "empty" response. This is the simplest possible successful response,
    /// consisting of a single empty frame.
    pub(crate) fn empty() -> Self {
        Self {
            frames: vec![Frame::empty()],
            error: None,
        }
    }
""", """verus!{
impl Response {
    pub(crate) fn empty() -> (r: Self)
        ensures r@ == (RespV { frames: seq![empty_frame()], error: None })
    {
        let r = Self {
            frames: vec![Frame::empty()],
            error: None,
        };
        proof { assert(frames_view(r.frames@) =~= seq![empty_frame()]); }
        r
    }
}
}
impl Response {
""")
i = s.index("impl<'a> ResponseBuilder<'a> {")
j = s.index("/// Iterator over frames in a response, as returned by [`Response::frames`].")
body = strip_tracing(s[i:j])
# N4 or-pattern split
body = body.replace("""            ResponseState::InProgress { current }
            | ResponseState::ListInProgress { current, .. } => {
                current.fields.push_field(key, value);
            }""", """            ResponseState::InProgress { current } => {
                current.fields.push_field(key, value);
            }
            ResponseState::ListInProgress { current, .. } => {
                current.fields.push_field(key, value);
            }""")
body = body.replace("""            ResponseState::InProgress { current }
            | ResponseState::ListInProgress { current, .. } => {
                current.binary = Some(binary);
            }""", """            ResponseState::InProgress { current } => {
                current.binary = Some(binary);
            }
            ResponseState::ListInProgress { current, .. } => {
                current.binary = Some(binary);
            }""")
contracts = open('/verif/notes/spikes/resp_proof/contracts.txt').read()
# contracts.txt: blocks "@@ <signature line prefix>\n<text to insert after signature (before '{')>\n@@end"
for m in re.finditer(r'@@sig (.*?)\n(.*?)@@end\n', contracts, re.S):
    sig, ins = m.group(1), m.group(2)
    k = body.index(sig)
    b = body.index('{', k + len(sig) - 1) if not sig.rstrip().endswith('{') else k + len(sig) - 1
    # find the '{' opening the fn body: first '{' at or after end of sig
    b = body.index('{', k + len(sig.rstrip(' {')) )
    body = body[:b] + '\n' + ins + body[b:]
for m in re.finditer(r'@@replace\n(.*?)@@with\n(.*?)@@end\n', contracts, re.S):
    a, bb = m.group(1), m.group(2)
    assert a in body, a
    body = body.replace(a, bb)
s = s[:i] + "verus!{\n" + body + "}\n\n" + s[j:]
wr('mpd_protocol/src/response/mod.rs', s)
print("spliced")

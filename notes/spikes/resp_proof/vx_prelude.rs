
use vstd::prelude::*;
use bytes::{Buf, BytesMut};
use std::io::Read;
verus!{
#[verifier::external_type_specification]
#[verifier::external_body]
pub struct ExBytesMut(BytesMut);

#[verifier::external_type_specification]
#[verifier::external_body]
pub struct ExIoError(std::io::Error);

#[verifier::external_type_specification]
pub struct ExIoErrorKind(std::io::ErrorKind);

pub uninterp spec fn bm_view(b: &BytesMut) -> Seq<u8>;
pub uninterp spec fn arc_str_view(a: std::sync::Arc<str>) -> Seq<char>;
pub uninterp spec fn box_str_view(a: Box<str>) -> Seq<char>;
pub assume_specification<T> [std::mem::replace] (dest: &mut T, src: T) -> (r: T)
    ensures r == *old(dest), *final(dest) == src;

pub assume_specification [BytesMut::len] (b: &BytesMut) -> (r: usize)
    ensures r == bm_view(b).len();
pub assume_specification [BytesMut::is_empty] (b: &BytesMut) -> (r: bool)
    ensures r == (bm_view(b).len() == 0);
pub assume_specification [BytesMut::zeroed] (len: usize) -> (r: BytesMut)
    ensures bm_view(&r).len() == len;
pub assume_specification [BytesMut::split_to] (b: &mut BytesMut, at: usize) -> (r: BytesMut)
    requires at <= bm_view(old(b)).len()
    ensures bm_view(&r) == bm_view(old(b)).subrange(0, at as int),
            bm_view(final(b)) == bm_view(old(b)).subrange(at as int, bm_view(old(b)).len() as int);
pub assume_specification [BytesMut::split_off] (b: &mut BytesMut, at: usize) -> (r: BytesMut)
    requires at <= bm_view(old(b)).len()   // bytes panics otherwise ("split_off out of bounds")
    ensures bm_view(final(b)) == bm_view(old(b)).subrange(0, at as int),
            bm_view(&r) == bm_view(old(b)).subrange(at as int, bm_view(old(b)).len() as int);
pub assume_specification [BytesMut::unsplit] (b: &mut BytesMut, other: BytesMut)
    ensures bm_view(final(b)) == bm_view(old(b)) + bm_view(&other);
pub assume_specification [BytesMut::resize] (b: &mut BytesMut, new_len: usize, value: u8)
    ensures bm_view(final(b)).len() == new_len,
        new_len <= bm_view(old(b)).len() ==> bm_view(final(b)) == bm_view(old(b)).subrange(0, new_len as int),
        new_len >= bm_view(old(b)).len() ==> bm_view(final(b)).subrange(0, bm_view(old(b)).len() as int) == bm_view(old(b));
pub assume_specification [BytesMut::truncate] (b: &mut BytesMut, len: usize)
    ensures bm_view(final(b)) == if len <= bm_view(old(b)).len() { bm_view(old(b)).subrange(0, len as int) } else { bm_view(old(b)) };
pub assume_specification [<BytesMut as Buf>::advance] (b: &mut BytesMut, cnt: usize)
    requires cnt <= bm_view(old(b)).len()
    ensures bm_view(final(b)) == bm_view(old(b)).subrange(cnt as int, bm_view(old(b)).len() as int);
pub assume_specification [<BytesMut as core::ops::Deref>::deref] (b: &BytesMut) -> (r: &[u8])
    ensures r@ == bm_view(b);

pub uninterp spec fn io_err_kind(e: &std::io::Error) -> std::io::ErrorKind;
#[verifier::external_body]
pub fn io_error_new(kind: std::io::ErrorKind, error: &'static str) -> (r: std::io::Error)
    ensures io_err_kind(&r) == kind
{ std::io::Error::new(kind, error) }

// ---- reader model ----
pub uninterp spec fn rd_rest<R>(r: &R) -> Seq<u8>;

#[verifier::external_trait_specification]
pub trait ExRead {
    type ExternalTraitSpecificationFor: std::io::Read;
    fn read(&mut self, buf: &mut [u8]) -> (r: std::io::Result<usize>)
        ensures
            final(buf)@.len() == old(buf)@.len(),
            match r {
                Ok(n) => n <= old(buf)@.len(),
                Err(_) => true,
            };
}
pub broadcast axiom fn bm_len_bound(b: &BytesMut)
    ensures #[trigger] bm_view(b).len() <= isize::MAX as nat;

pub assume_specification [<BytesMut as core::ops::DerefMut>::deref_mut] (b: &mut BytesMut) -> (r: &mut [u8])
    ensures r@ == bm_view(old(b)), final(r)@.len() == r@.len(), bm_view(final(b)) == final(r)@;

}

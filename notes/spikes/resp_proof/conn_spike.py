#!/usr/bin/env python3
# SPIKE ONLY: lift blocking Connection::receive + read_to_buffer with a ghost receive log; run after splice_spike.py
import re, sys
S = sys.argv[1]
def rd(p): return open(f'/repo/{p}').read()
def wr(p, s): open(f'{S}/{p}', 'w').write(s)
def wrap(s, a, b):
    i = s.index(a); j = s.index(b, i) + len(b)
    return s[:i] + "verus!{\n" + s[i:j] + "\n}\n" + s[j:]
def strip_tracing(body):
    body = re.sub(r'\n\s*#\[tracing::instrument[^\]]*\]', '', body)
    out = []; i = 0
    pat = re.compile(r'\b(trace|debug|info|error|warn)!\(')
    while True:
        m = pat.search(body, i)
        if not m: out.append(body[i:]); break
        out.append(body[i:m.start()]); j = m.end(); d = 1
        while d > 0:
            c = body[j]; d += (c == '(') - (c == ')'); j += 1
        if body[j] == ';': j += 1
        i = j
    return ''.join(out)

# lib.rs: From<io::Error> spec
p = 'mpd_protocol/src/lib.rs'
s = open(f'{S}/{p}').read()
s = s.replace("""#[doc(hidden)]
impl From<io::Error> for MpdProtocolError {
    fn from(e: io::Error) -> Self {
        MpdProtocolError::Io(e)
    }
}""", """verus!{
impl vstd::std_specs::convert::FromSpecImpl<io::Error> for MpdProtocolError {
    open spec fn obeys_from_spec() -> bool { true }
    open spec fn from_spec(e: io::Error) -> Self { MpdProtocolError::Io(e) }
}
#[doc(hidden)]
impl From<io::Error> for MpdProtocolError {
    fn from(e: io::Error) -> Self {
        MpdProtocolError::Io(e)
    }
}
}""")
wr(p, s)

# vx_wire: add fold lemmas as axioms-for-now (proved in fold_ext_lemmas.rs over the same definitions)
p = 'mpd_protocol/src/vx_wire.rs'
s = open(f'{S}/{p}').read()
s = s.rstrip()
assert s.endswith('}')
s = s[:-1] + """
/// proved in notes/spikes/fold_ext_lemmas.rs (same definitions; spec_component mono is proved in wire_full_spec_mono.rs)
pub axiom fn lemma_fold_ext(st: StateV, p: Seq<u8>, c: Seq<u8>)
    requires spec_fold(st, p) is More
    ensures spec_fold(st, p + c) == spec_fold(spec_fold(st, p)->More_0, spec_fold(st, p)->More_1 + c);

/// the unconsumed rest is a suffix of the input (easy induction over spec_fold; axiom in this spike)
pub axiom fn lemma_fold_rest(st: StateV, p: Seq<u8>)
    ensures
        spec_fold(st, p) matches FoldRes::More(_, rest) ==> rest.len() <= p.len(),
        spec_fold(st, p) matches FoldRes::Done(_, rest) ==> rest.len() <= p.len();
/// from Initial the fold never comes back to Initial without finishing a response (induction; axiom in this spike)
pub axiom fn lemma_fold_initial(s: Seq<u8>)
    ensures spec_fold(StateV::Initial, s) matches FoldRes::More(StateV::Initial, rest) ==> rest == s;
pub struct GhostLog(pub Ghost<Seq<u8>>);
impl std::fmt::Debug for GhostLog { #[verifier::external_body] fn fmt(&self, f: &mut std::fmt::Formatter<'_>) -> std::fmt::Result { Ok(()) } }
impl GhostLog { pub fn empty() -> (r: GhostLog) ensures r.0@ == Seq::<u8>::empty() { GhostLog(Ghost(Seq::empty())) } }
}
"""
wr(p, s)

p = 'mpd_protocol/src/connection.rs'
s = rd(p)
s = s.replace("use crate::{", "use vstd::prelude::*;\nuse crate::vx_prelude::*;\nuse crate::vx_wire::*;\nuse crate::{", 1)
# ghost field (N15): struct + every literal
s = s.replace("    total_received: usize,\n}", "    total_received: usize,\n    gl: GhostLog,\n}", 1)
s = s.replace("total_received: 0,\n", "total_received: 0,\n            gl: GhostLog::empty(),\n")
s = wrap(s, "/// A **blocking** connection to an MPD server.\n#[derive(Debug)]\npub struct Connection<IO> {", "    gl: GhostLog,\n}")
# take receive out of the impl and lift it
i = s.index("    /// Receive a response from the server.\n    ///\n    /// This will return `Ok(Some(..))` when a complete response has been received, or `Ok(None)` if\n    /// the connection is closed cleanly.")
j = s.index("    /// Send a command and receive its response.\n    ///\n    /// This is essentially a shorthand for [`Connection::send`] followed by [`Connection::receive`].")
fn = strip_tracing(s[i:j]); s = s[:i] + s[j:]
fn = fn.replace("io::Error::new(", "io_error_new(")                                   # N10
fn = fn.replace("break Ok(Some(response));", "return Ok(Some(response));").replace("break if response_builder", "return if response_builder")  # N5
contracts = open('/verif/notes/spikes/resp_proof/conn_contracts.txt').read()
for m in re.finditer(r'@@replace\n(.*?)@@with\n(.*?)@@end\n', contracts, re.S):
    a, b = m.group(1), m.group(2)
    if a in fn: fn = fn.replace(a, b)
rtb_i = s.index("fn read_to_buffer<'a, R: Read>(")
rtb_j = s.index("/// An **asynchronous** connection to an MPD server.")
rtb = strip_tracing(s[rtb_i:rtb_j])
for m in re.finditer(r'@@replace\n(.*?)@@with\n(.*?)@@end\n', contracts, re.S):
    a, b = m.group(1), m.group(2)
    if a in rtb: rtb = rtb.replace(a, b)
ghost = re.search(r'@@ghost\n(.*?)@@end\n', contracts, re.S).group(1)
s = s[:rtb_i] + "verus!{\nimpl<IO> Connection<IO> {\n" + ghost + fn + "}\n\n" + rtb + "}\n" + s[rtb_j:]
wr(p, s)
print("connection spliced")

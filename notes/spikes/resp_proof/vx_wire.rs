// spike: abstract wire model used by the ResponseBuilder proof (ghost only)
use vstd::prelude::*;
verus!{
pub struct FrameV { pub fields: Seq<(Seq<char>, Seq<char>)>, pub binary: Option<Seq<u8>> }
pub struct ErrorV { pub code: u64, pub idx: u64, pub cmd: Option<Seq<char>>, pub msg: Seq<char> }
pub struct RespV { pub frames: Seq<FrameV>, pub error: Option<ErrorV> }
pub enum StateV { Initial, InProgress(FrameV), List(FrameV, Seq<FrameV>) }
pub enum CompV { EndOfFrame, EndOfResponse, Error(ErrorV), Field(Seq<char>, Seq<char>), Binary(nat) }
pub enum PR { Inc, Bad, Good(CompV, int) }
pub enum StepV { St(StateV), Resp(RespV) }
pub enum FoldRes { Done(RespV, Seq<u8>), More(StateV, Seq<u8>), Invalid }

/// operational spec of one streaming component (defined in spec/wire.rs in the real build; uninterpreted in this spike)
pub uninterp spec fn spec_component(i: Seq<u8>) -> PR;

pub open spec fn comp_wf(i: Seq<u8>) -> bool {
    match spec_component(i) {
        PR::Good(c, used) => 0 < used <= i.len() && (match c { CompV::Binary(n) => n + 1 <= used, _ => true }),
        _ => true,
    }
}
/// becomes a proved lemma once spec_component is defined
pub broadcast axiom fn spec_component_wf(i: Seq<u8>)
    ensures #[trigger] comp_wf(i);

pub broadcast proof fn lemma_sub_sub(s: Seq<u8>, a: int, b: int, c: int, d: int)
    requires 0 <= a <= b <= s.len(), 0 <= c <= d <= b - a
    ensures #[trigger] s.subrange(a, b).subrange(c, d) == s.subrange(a + c, a + d)
{ assert(s.subrange(a, b).subrange(c, d) =~= s.subrange(a + c, a + d)); }
pub open spec fn resp_eq(a: RespV, b: RespV) -> bool { a.frames =~= b.frames && a.error == b.error }
pub open spec fn state_eq(a: StateV, b: StateV) -> bool {
    match (a, b) {
        (StateV::Initial, StateV::Initial) => true,
        (StateV::InProgress(f), StateV::InProgress(g)) => f == g,
        (StateV::List(f, d), StateV::List(g, e)) => f == g && d =~= e,
        _ => false,
    }
}
pub broadcast proof fn lemma_resp_eq(a: RespV, b: RespV) requires #[trigger] resp_eq(a, b) ensures a == b {}
pub broadcast proof fn lemma_state_eq(a: StateV, b: StateV) requires #[trigger] state_eq(a, b) ensures a == b {}
pub open spec fn empty_frame() -> FrameV { FrameV { fields: seq![], binary: None } }
pub open spec fn payload_of(i: Seq<u8>, used: int, n: nat) -> Seq<u8> { i.subrange(used - n - 1, used - 1) }

pub open spec fn add_field(f: FrameV, k: Seq<char>, v: Seq<char>) -> FrameV { FrameV { fields: f.fields.push((k, v)), binary: f.binary } }
pub open spec fn set_binary(f: FrameV, p: Seq<u8>) -> FrameV { FrameV { fields: f.fields, binary: Some(p) } }

pub open spec fn step_field(st: StateV, k: Seq<char>, v: Seq<char>) -> StateV {
    match st {
        StateV::Initial => StateV::InProgress(add_field(empty_frame(), k, v)),
        StateV::InProgress(f) => StateV::InProgress(add_field(f, k, v)),
        StateV::List(f, done) => StateV::List(add_field(f, k, v), done),
    }
}
pub open spec fn step_binary(st: StateV, p: Seq<u8>) -> StateV {
    match st {
        StateV::Initial => StateV::InProgress(set_binary(empty_frame(), p)),
        StateV::InProgress(f) => StateV::InProgress(set_binary(f, p)),
        StateV::List(f, done) => StateV::List(set_binary(f, p), done),
    }
}
pub open spec fn step_eof_frame(st: StateV) -> StateV {
    match st {
        StateV::Initial => StateV::List(empty_frame(), seq![empty_frame()]),
        StateV::InProgress(f) => StateV::List(empty_frame(), seq![f]),
        StateV::List(f, done) => StateV::List(empty_frame(), done.push(f)),
    }
}
pub open spec fn step_finish(st: StateV) -> RespV {
    match st {
        StateV::Initial => RespV { frames: seq![empty_frame()], error: None },
        StateV::InProgress(f) => RespV { frames: seq![f], error: None },
        StateV::List(f, done) => RespV { frames: done, error: None },
    }
}
pub open spec fn step_error(st: StateV, e: ErrorV) -> RespV {
    match st {
        StateV::Initial => RespV { frames: seq![], error: Some(e) },
        StateV::InProgress(f) => RespV { frames: seq![], error: Some(e) },
        StateV::List(f, done) => RespV { frames: done, error: Some(e) },
    }
}
pub open spec fn spec_step(st: StateV, c: CompV, i: Seq<u8>, used: int) -> StepV {
    match c {
        CompV::Field(k, v) => StepV::St(step_field(st, k, v)),
        CompV::Binary(n) => StepV::St(step_binary(st, payload_of(i, used, n))),
        CompV::EndOfFrame => StepV::St(step_eof_frame(st)),
        CompV::EndOfResponse => StepV::Resp(step_finish(st)),
        CompV::Error(e) => StepV::Resp(step_error(st, e)),
    }
}
pub open spec fn spec_fold(st: StateV, s: Seq<u8>) -> FoldRes
    decreases s.len()
{
    if s.len() == 0 { FoldRes::More(st, s) } else {
        match spec_component(s) {
            PR::Inc => FoldRes::More(st, s),
            PR::Bad => FoldRes::Invalid,
            PR::Good(c, used) => if 0 < used <= s.len() {
                match spec_step(st, c, s, used) {
                    StepV::Resp(r) => FoldRes::Done(r, s.subrange(used, s.len() as int)),
                    StepV::St(st2) => spec_fold(st2, s.subrange(used, s.len() as int)),
                }
            } else { FoldRes::Invalid },
        }
    }
}
}

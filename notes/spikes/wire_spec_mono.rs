use vstd::prelude::*;
verus! {

// ---------- operational spec of the streaming line parser (mirrors nom streaming semantics) ----------
pub enum PR<T> { Inc, Bad, Good(T, int) }   // Good(value, bytes_used)

pub open spec fn is_alpha(b: u8) -> bool { (0x41 <= b <= 0x5A) || (0x61 <= b <= 0x7A) }
pub open spec fn is_digit(b: u8) -> bool { 0x30 <= b <= 0x39 }
pub open spec fn is_key_byte(b: u8) -> bool { is_alpha(b) || b == 0x5F || b == 0x2D }
pub open spec fn is_cmd_byte(b: u8) -> bool { is_alpha(b) || b == 0x5F }

/// streaming `tag(t)` at offset 0 of s
pub open spec fn p_tag(s: Seq<u8>, t: Seq<u8>) -> PR<()> {
    if s.len() >= t.len() {
        if s.subrange(0, t.len() as int) == t { PR::Good((), t.len() as int) } else { PR::Bad }
    } else {
        if s == t.subrange(0, s.len() as int) { PR::Inc } else { PR::Bad }
    }
}

/// length of the longest prefix of s whose bytes satisfy f
pub open spec fn run_len(s: Seq<u8>, f: spec_fn(u8) -> bool) -> int
    decreases s.len()
{
    if s.len() == 0 { 0 } else if f(s[0]) { 1 + run_len(s.subrange(1, s.len() as int), f) } else { 0 }
}

pub proof fn lemma_run_len_bounds(s: Seq<u8>, f: spec_fn(u8) -> bool)
    ensures 0 <= run_len(s, f) <= s.len(),
        forall|i: int| 0 <= i < run_len(s, f) ==> f(#[trigger] s[i]),
        run_len(s, f) < s.len() ==> !f(s[run_len(s, f)]),
    decreases s.len()
{
    if s.len() > 0 && f(s[0]) {
        let t = s.subrange(1, s.len() as int);
        lemma_run_len_bounds(t, f);
        assert forall|i: int| 0 <= i < run_len(s, f) implies f(#[trigger] s[i]) by {
            if i > 0 { assert(s[i] == t[i - 1]); }
        }
        if run_len(s, f) < s.len() { assert(s[run_len(s, f)] == t[run_len(t, f)]); }
    }
}

/// extension does not change a run that already ended
pub proof fn lemma_run_len_ext(s: Seq<u8>, t: Seq<u8>, f: spec_fn(u8) -> bool)
    requires run_len(s, f) < s.len()
    ensures run_len(s + t, f) == run_len(s, f)
    decreases s.len()
{
    if s.len() > 0 && f(s[0]) {
        let s1 = s.subrange(1, s.len() as int);
        assert((s + t).subrange(1, (s + t).len() as int) == s1 + t);
        assert((s + t)[0] == s[0]);
        lemma_run_len_ext(s1, t, f);
    } else {
        assert((s + t)[0] == s[0]);
    }
}

/// streaming take_while1(f): Inc if the whole input matches (terminator not yet seen)
pub open spec fn p_while1(s: Seq<u8>, f: spec_fn(u8) -> bool) -> PR<Seq<u8>> {
    let n = run_len(s, f);
    if n == s.len() { PR::Inc } else if n == 0 { PR::Bad } else { PR::Good(s.subrange(0, n), n) }
}

pub open spec fn ext_ok<T>(a: PR<T>, b: PR<T>) -> bool {
    match a { PR::Inc => true, PR::Bad => b is Bad, PR::Good(v, n) => b == PR::Good(v, n) }
}

pub proof fn lemma_tag_mono(s: Seq<u8>, x: Seq<u8>, t: Seq<u8>)
    ensures ext_ok(p_tag(s, t), p_tag(s + x, t))
{
    let sx = s + x;
    if s.len() >= t.len() {
        assert(sx.subrange(0, t.len() as int) == s.subrange(0, t.len() as int));
    } else {
        if s != t.subrange(0, s.len() as int) {
            // mismatch position i < s.len()
            let i = choose|i: int| 0 <= i < s.len() && s[i] != t[i];
            assert(exists|i: int| 0 <= i < s.len() && s[i] != t[i]) by {
                if forall|i: int| 0 <= i < s.len() ==> s[i] == t[i] {
                    assert(s =~= t.subrange(0, s.len() as int));
                }
            }
            if sx.len() >= t.len() {
                assert(sx.subrange(0, t.len() as int)[i] == s[i]);
            } else {
                assert(sx[i] == s[i]);
                assert(t.subrange(0, sx.len() as int)[i] == t[i]);
            }
        }
    }
}

pub proof fn lemma_while1_mono(s: Seq<u8>, x: Seq<u8>, f: spec_fn(u8) -> bool)
    ensures ext_ok(p_while1(s, f), p_while1(s + x, f))
{
    lemma_run_len_bounds(s, f);
    if run_len(s, f) < s.len() {
        lemma_run_len_ext(s, x, f);
        assert((s + x).subrange(0, run_len(s, f)) == s.subrange(0, run_len(s, f)));
    }
}

} // verus!
fn main() {}

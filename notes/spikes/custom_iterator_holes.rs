use vstd::prelude::*;
use vstd::std_specs::iter::IteratorSpec;
verus! {
pub struct Holes { pub iter: std::vec::IntoIter<Option<u32>> }

pub open spec fn unhole(s: Seq<Option<u32>>) -> Seq<u32>
    decreases s.len()
{
    if s.len() == 0 { seq![] }
    else if s[0] is Some { seq![s[0].unwrap()] + unhole(s.skip(1)) }
    else { unhole(s.skip(1)) }
}

impl Holes {
    #[verifier::prophetic]
    pub open spec fn rest(&self) -> Seq<u32> { unhole(self.iter.remaining()) }
}

impl vstd::std_specs::iter::IteratorSpecImpl for Holes {
    open spec fn obeys_prophetic_iter_laws(&self) -> bool { false }
    #[verifier::prophetic]
    open spec fn remaining(&self) -> Seq<u32> { self.rest() }
    open spec fn will_return_none(&self) -> bool { false }
    open spec fn decrease(&self) -> Option<nat> { IteratorSpec::decrease(&self.iter) }
    open spec fn peek(&self, i: int) -> Option<u32> { None }
}

impl Iterator for Holes {
    type Item = u32;
    fn next(&mut self) -> (r: Option<u32>)
        ensures
            old(self).rest().len() == 0 ==> r is None && final(self).rest().len() == 0,
            old(self).rest().len() > 0 ==> r == Some(old(self).rest()[0]) && final(self).rest() == old(self).rest().skip(1),
        decreases old(self).iter.decrease()
    {
        match self.iter.next() {
            None => None,
            Some(None) => self.next(),
            Some(value) => value,
        }
    }
}
}
fn main() {}

use vstd::prelude::*;
use vstd::std_specs::iter::IteratorSpec;
verus! {
fn should_escape(c: char) -> (r: bool)
    ensures r == (c == '\\' || c == '"' || c == '\'')
{
    c == '\\' || c == '"' || c == '\''
}
pub open spec fn esc(s: Seq<char>) -> Seq<char>
    decreases s.len()
{
    if s.len() == 0 { seq![] }
    else {
        let c = s.last();
        let p = esc(s.drop_last());
        if c == '\\' || c == '"' || c == '\'' { p.push('\\').push(c) } else { p.push(c) }
    }
}
fn escape_all(argument: &str) -> (out: String)
    ensures out@ == esc(argument@)
{
    let mut out = String::new();
    for c in it: argument.chars()
        invariant out@ == esc(argument@.take(it.index())),
           it.seq() == argument@,
    {
        proof {
            let i = it.index();
            assert(argument@.take(i + 1).drop_last() == argument@.take(i));
            assert(argument@.take(i + 1).last() == c);
        }
        if should_escape(c) {
            out.push('\\');
        }
        out.push(c);
    }
    proof { assert(argument@.take(argument@.len() as int) == argument@); }
    out
}
}
fn main() {}

use vstd::prelude::*;
verus! {
pub struct S { pub v: Vec<u8>, pub n: usize }

impl S {
    pub async fn push(&mut self, b: u8)
        ensures final(self).v@ == old(self).v@.push(b), final(self).n == old(self).n
    {
        self.v.push(b);
    }
    pub async fn one(&mut self)
        ensures final(self).v@.len() == old(self).v@.len() + 1
    {
        self.push(1).await;
    }
    pub async fn get(&self) -> (r: usize)
        ensures r == self.v@.len()
    { self.v.len() }
    pub async fn g2(&self) -> (r: usize)
        ensures r == self.v@.len()
    { self.get().await }
}
async fn inc(x: &mut u32)
    requires *old(x) < 100
    ensures *final(x) == *old(x) + 1
{ *x = *x + 1; }
async fn inc2(x: &mut u32)
    requires *old(x) < 50
    ensures *final(x) == *old(x) + 2
{ inc(x).await; inc(x).await; }
}
fn main() {}

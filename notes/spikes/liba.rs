use vstd::prelude::*;
verus!{
pub struct P { pub x: u32 }
impl P {
    pub closed spec fn val(&self) -> int { self.x as int }
    pub fn new() -> (r: P) ensures r.val() == 0 { P { x: 0 } }
    pub fn get(&self) -> (r: u32) ensures r as int == self.val() { self.x }
}
}

#!/bin/bash
# spike helper (notes only): scratch copy of /repo + third-party rlibs built with the Verus toolchain
set -e
S=${1:-/var/tmp/vxs}
rm -rf $S && mkdir -p $S && rsync -a --exclude target --exclude .git /repo/ $S/repo/
cd $S/repo && CARGO_NET_OFFLINE=true cargo +1.98.1 build -p mpd_client --offline 2>&1 | tail -1
D=$S/repo/target/debug/deps
P=""; for c in ahash bytes nom tokio tracing; do f=$(ls -t $D/lib$c-*.rlib | head -1); P="$P --extern $c=$f"; done
echo "--crate-type=lib --edition=2024 --crate-name mpd_protocol -L dependency=$D $P --cfg feature=\"async\"" > $S/flags_protocol
C=""; for c in bytes tokio tracing; do f=$(ls -t $D/lib$c-*.rlib | head -1); C="$C --extern $c=$f"; done
echo "--crate-type=lib --edition=2024 --crate-name mpd_client -L dependency=$D $C" > $S/flags_client
echo ok $S

// SPIKE (design phase): reference implementation of the streaming line grammar in plain index-loop Rust.
// Intended to be (1) proved equal to spec_component in Verus, (2) compared with the real nom parser by exhaustive small-scope runs.
#[derive(Debug, PartialEq, Eq, Clone)]
pub enum RComp {
    EndOfFrame,
    EndOfResponse,
    Error { code: u64, index: u64, command: Option<Vec<u8>>, message: Vec<u8> },
    Field { key: Vec<u8>, value: Vec<u8> },
    Binary { len: usize },
}
#[derive(Debug, PartialEq, Eq, Clone)]
pub enum R<T> { Inc, Bad, Good(T, usize) }   // Good(value, bytes used)

fn is_alpha(b: u8) -> bool { (0x41..=0x5A).contains(&b) || (0x61..=0x7A).contains(&b) }
fn is_digit(b: u8) -> bool { (0x30..=0x39).contains(&b) }

/// streaming tag at offset `at`
fn tag(i: &[u8], at: usize, t: &[u8]) -> R<()> {
    let mut k = 0;
    while k < t.len() && at + k < i.len() {
        if i[at + k] != t[k] { return R::Bad; }
        k += 1;
    }
    if k == t.len() { R::Good((), at + t.len()) } else { R::Inc }
}
/// streaming char
fn chr(i: &[u8], at: usize, c: u8) -> R<()> {
    if at >= i.len() { R::Inc } else if i[at] == c { R::Good((), at + 1) } else { R::Bad }
}
/// end of the run of bytes satisfying f starting at `at`; None if the run reaches the end of input
fn run_end(i: &[u8], at: usize, f: fn(u8) -> bool) -> Option<usize> {
    let mut k = at;
    while k < i.len() { if !f(i[k]) { return Some(k); } k += 1; }
    None
}
fn utf8_ok(b: &[u8]) -> bool { std::str::from_utf8(b).is_ok() }

/// streaming decimal number with overflow check against `max`
fn number(i: &[u8], at: usize, max: u128) -> R<u128> {
    match run_end(i, at, is_digit) {
        None => R::Inc,
        Some(e) if e == at => R::Bad,
        Some(e) => {
            let mut v: u128 = 0;
            let mut k = at;
            while k < e {
                v = v * 10 + (i[k] - b'0') as u128;
                if v > max { return R::Bad; }      // str::parse overflow -> map_res error
                k += 1;
            }
            R::Good(v, e)
        }
    }
}

fn p_error(i: &[u8]) -> R<RComp> {
    let at = match tag(i, 0, b"ACK ") { R::Good(_, n) => n, R::Inc => return R::Inc, R::Bad => return R::Bad };
    let at = match chr(i, at, b'[') { R::Good(_, n) => n, R::Inc => return R::Inc, R::Bad => return R::Bad };
    let (code, at) = match number(i, at, u64::MAX as u128) { R::Good(v, n) => (v as u64, n), R::Inc => return R::Inc, R::Bad => return R::Bad };
    let at = match chr(i, at, b'@') { R::Good(_, n) => n, R::Inc => return R::Inc, R::Bad => return R::Bad };
    let (index, at) = match number(i, at, u64::MAX as u128) { R::Good(v, n) => (v as u64, n), R::Inc => return R::Inc, R::Bad => return R::Bad };
    let at = match chr(i, at, b']') { R::Good(_, n) => n, R::Inc => return R::Inc, R::Bad => return R::Bad };
    let at = match chr(i, at, b' ') { R::Good(_, n) => n, R::Inc => return R::Inc, R::Bad => return R::Bad };
    let at = match chr(i, at, b'{') { R::Good(_, n) => n, R::Inc => return R::Inc, R::Bad => return R::Bad };
    // opt(take_while1(alpha|_)) : Inc if the run reaches the end, None if the run is empty
    let (command, at) = match run_end(i, at, |b| is_alpha(b) || b == b'_') {
        None => return R::Inc,
        Some(e) if e == at => (None, at),
        Some(e) => (Some(i[at..e].to_vec()), e),
    };
    let at = match chr(i, at, b'}') { R::Good(_, n) => n, R::Inc => return R::Inc, R::Bad => return R::Bad };
    let at = match chr(i, at, b' ') { R::Good(_, n) => n, R::Inc => return R::Inc, R::Bad => return R::Bad };
    // take_while(!= \n) streaming, then from_utf8, then newline
    let e = match run_end(i, at, |b| b != b'\n') { None => return R::Inc, Some(e) => e };
    if !utf8_ok(&i[at..e]) { return R::Bad; }
    let message = i[at..e].to_vec();
    // newline: i[e] == '\n' necessarily
    R::Good(RComp::Error { code, index, command, message }, e + 1)
}

/// binary_prefix;  Bad here means nom `Error` (alt continues), Fail means nom `Failure` (cut)
enum B { Inc, Bad, Fail, Good(usize, usize) }
fn p_binary(i: &[u8]) -> B {
    let at = match tag(i, 0, b"binary: ") { R::Good(_, n) => n, R::Inc => return B::Inc, R::Bad => return B::Bad };
    let (len, at) = match number(i, at, usize::MAX as u128) { R::Good(v, n) => (v as usize, n), R::Inc => return B::Inc, R::Bad => return B::Bad };
    let at = match chr(i, at, b'\n') { R::Good(_, n) => n, R::Inc => return B::Inc, R::Bad => return B::Bad };
    // cut(terminated(take(len), newline))
    if i.len() - at < len { return B::Inc; }
    let at2 = at + len;
    if at2 >= i.len() { return B::Inc; }
    if i[at2] != b'\n' { return B::Fail; }
    B::Good(len, at2 + 1)
}

fn p_field(i: &[u8]) -> R<RComp> {
    let e = match run_end(i, 0, |b| is_alpha(b) || b == b'_' || b == b'-') { None => return R::Inc, Some(0) => return R::Bad, Some(e) => e };
    let at = match tag(i, e, b": ") { R::Good(_, n) => n, R::Inc => return R::Inc, R::Bad => return R::Bad };
    let ve = match run_end(i, at, |b| b != b'\n') { None => return R::Inc, Some(ve) => ve };
    if !utf8_ok(&i[at..ve]) { return R::Bad; }
    R::Good(RComp::Field { key: i[..e].to_vec(), value: i[at..ve].to_vec() }, ve + 1)
}

/// alt((OK, list_OK, error, binary_field, key_value_field)) : first result that is not nom `Error` wins
pub fn ref_component(i: &[u8]) -> R<RComp> {
    match tag(i, 0, b"OK\n") { R::Good(_, n) => return R::Good(RComp::EndOfResponse, n), R::Inc => return R::Inc, R::Bad => {} }
    match tag(i, 0, b"list_OK\n") { R::Good(_, n) => return R::Good(RComp::EndOfFrame, n), R::Inc => return R::Inc, R::Bad => {} }
    match p_error(i) { R::Good(c, n) => return R::Good(c, n), R::Inc => return R::Inc, R::Bad => {} }
    match p_binary(i) { B::Good(l, n) => return R::Good(RComp::Binary { len: l }, n), B::Inc => return R::Inc, B::Fail => return R::Bad, B::Bad => {} }
    p_field(i)
}

pub fn ref_greeting(i: &[u8]) -> R<Vec<u8>> {
    let at = match tag(i, 0, b"OK MPD ") { R::Good(_, n) => n, R::Inc => return R::Inc, R::Bad => return R::Bad };
    let e = match run_end(i, at, |b| b != b'\n') { None => return R::Inc, Some(e) if e == at => return R::Bad, Some(e) => e };
    if !utf8_ok(&i[at..e]) { return R::Bad; }
    R::Good(i[at..e].to_vec(), e + 1)
}

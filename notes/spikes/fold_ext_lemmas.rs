// SPIKE: fold-extension lemma (the engine of segmentation independence), over an abstract component parser with mono + wf
use vstd::prelude::*;
verus!{
pub struct FrameV { pub fields: Seq<(Seq<char>, Seq<char>)>, pub binary: Option<Seq<u8>> }
pub struct ErrorV { pub code: u64, pub idx: u64, pub cmd: Option<Seq<char>>, pub msg: Seq<char> }
pub struct RespV { pub frames: Seq<FrameV>, pub error: Option<ErrorV> }
pub enum StateV { Initial, InProgress(FrameV), List(FrameV, Seq<FrameV>) }
pub enum CompV { EndOfFrame, EndOfResponse, Error(ErrorV), Field(Seq<char>, Seq<char>), Binary(nat) }
pub enum PR { Inc, Bad, Good(CompV, int) }
pub enum StepV { St(StateV), Resp(RespV) }
pub enum FoldRes { Done(RespV, Seq<u8>), More(StateV, Seq<u8>), Invalid }

pub uninterp spec fn spec_component(i: Seq<u8>) -> PR;
pub uninterp spec fn spec_step(st: StateV, c: CompV, payload: Seq<u8>) -> StepV;

pub open spec fn comp_wf(i: Seq<u8>) -> bool {
    match spec_component(i) {
        PR::Good(c, used) => 0 < used <= i.len() && (match c { CompV::Binary(n) => n + 1 <= used, _ => true }),
        _ => true,
    }
}
pub open spec fn ext_ok(a: PR, b: PR) -> bool {
    match a { PR::Inc => true, PR::Bad => b is Bad, PR::Good(v, n) => b == PR::Good(v, n) }
}
// both are lemmas over the concrete spec_component (proved in wire_full_spec_mono.rs); axioms in this spike
pub axiom fn ax_wf(i: Seq<u8>) ensures comp_wf(i);
pub axiom fn ax_mono(s: Seq<u8>, x: Seq<u8>) ensures ext_ok(spec_component(s), spec_component(s + x));

pub open spec fn payload_of(i: Seq<u8>, used: int, c: CompV) -> Seq<u8> {
    match c { CompV::Binary(n) => i.subrange(used - n - 1, used - 1), _ => Seq::empty() }
}
pub open spec fn spec_fold(st: StateV, s: Seq<u8>) -> FoldRes
    decreases s.len()
{
    if s.len() == 0 { FoldRes::More(st, s) } else {
        match spec_component(s) {
            PR::Inc => FoldRes::More(st, s),
            PR::Bad => FoldRes::Invalid,
            PR::Good(c, used) => if 0 < used <= s.len() {
                match spec_step(st, c, payload_of(s, used, c)) {
                    StepV::Resp(r) => FoldRes::Done(r, s.subrange(used, s.len() as int)),
                    StepV::St(st2) => spec_fold(st2, s.subrange(used, s.len() as int)),
                }
            } else { FoldRes::Invalid },
        }
    }
}

/// If folding p stops for lack of input at (st2, rest), then folding p + c is folding rest + c from st2.
pub proof fn lemma_fold_ext(st: StateV, p: Seq<u8>, c: Seq<u8>)
    requires spec_fold(st, p) is More
    ensures spec_fold(st, p + c) == spec_fold(spec_fold(st, p)->More_0, spec_fold(st, p)->More_1 + c)
    decreases p.len()
{
    if p.len() == 0 {
        assert(p + c =~= spec_fold(st, p)->More_1 + c);
    } else {
        ax_mono(p, c); ax_wf(p); ax_wf(p + c);
        match spec_component(p) {
            PR::Inc => { }
            PR::Bad => { }
            PR::Good(cv, used) => {
                let tail = p.subrange(used, p.len() as int);
                assert((p + c).subrange(used, (p + c).len() as int) =~= tail + c);
                assert(payload_of(p + c, used, cv) =~= payload_of(p, used, cv));
                match spec_step(st, cv, payload_of(p, used, cv)) {
                    StepV::Resp(r) => { }
                    StepV::St(st2) => { lemma_fold_ext(st2, tail, c); }
                }
            }
        }
    }
}

/// Decided results are stable under extension: Done stays the same Done with the extra bytes left over, Invalid stays Invalid.
pub proof fn lemma_fold_stable(st: StateV, p: Seq<u8>, c: Seq<u8>)
    ensures
        spec_fold(st, p) matches FoldRes::Done(r, rest) ==> spec_fold(st, p + c) == FoldRes::Done(r, rest + c),
        spec_fold(st, p) is Invalid ==> spec_fold(st, p + c) is Invalid,
    decreases p.len()
{
    if p.len() > 0 {
        ax_mono(p, c); ax_wf(p); ax_wf(p + c);
        match spec_component(p) {
            PR::Good(cv, used) => {
                let tail = p.subrange(used, p.len() as int);
                assert((p + c).subrange(used, (p + c).len() as int) =~= tail + c);
                assert(payload_of(p + c, used, cv) =~= payload_of(p, used, cv));
                match spec_step(st, cv, payload_of(p, used, cv)) {
                    StepV::Resp(r) => { }
                    StepV::St(st2) => { lemma_fold_stable(st2, tail, c); }
                }
            }
            _ => {}
        }
    }
}
}
fn main() {}

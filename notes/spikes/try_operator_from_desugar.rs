use vstd::prelude::*;
verus!{
pub struct E1 { pub x: u8 }
pub enum E2 { A(E1), B }
impl vstd::std_specs::convert::FromSpecImpl<E1> for E2 {
    open spec fn obeys_from_spec() -> bool { true }
    open spec fn from_spec(e: E1) -> Self { E2::A(e) }
}
impl From<E1> for E2 { fn from(e: E1) -> Self { E2::A(e) } }
fn f(b: bool) -> Result<u8, E1> { if b { Ok(1) } else { Err(E1 { x: 0 }) } }
fn g(b: bool) -> (r: Result<u8, E2>)
    ensures r matches Err(e) ==> e is A
{
    broadcast use vstd::std_specs::control_flow::group_control_flow_axioms;
    let v = match f(b) { Ok(v) => v, Err(e) => return Err(From::from(e)) };
    Ok(v)
}
}
fn main() {}

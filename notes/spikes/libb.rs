use vstd::prelude::*;
use liba::P;
verus!{
pub fn f() -> (r: u32) ensures r == 0 { let p = P::new(); p.get() }
}
